/-
  C19 — generic interpreter for the reader/writer lock protocol of `mongomock/thread.py` and the
  lock discipline of `mongomock/store.py` (`CollectionStore`).  Core Lean only.

  The protocol (`Protocol`: the primitive steps of reader/writer acquire/release) and the
  discipline (`Discipline`: per store method, the order of sections and dict accesses) are DATA:
  the hand-written reference copies are at the end of this file, the copies regenerated from
  the source on every check live in `Generated/RWLockProtocol.lean`, `Generated/LockDiscipline.lean`.

  N threads, thread i runs the flat code `cfg.codes[i]` (obtained with `compile` from a list of
  store-method calls).  `step cfg s t` performs ONE primitive action of thread `t`: one lock
  operation, one counter update, one dict access / iteration step, or one control transfer.
-/
namespace MongoModel.RWLock

/-! ## Instructions -/

/-- the five locks of `RWLock` (`thread.py:12-17`, `78-79`) -/
inductive LockId
  | noReaders | noWriters | readersQueue | readMutex | writeMutex
  deriving DecidableEq, Repr, Inhabited

def LockId.idx : LockId → Nat
  | .noReaders => 0 | .noWriters => 1 | .readersQueue => 2 | .readMutex => 3 | .writeMutex => 4

/-- the two light-switch counters -/
inductive Ctr
  | readCtr | writeCtr
  deriving DecidableEq, Repr, Inhabited

/-- the three dicts of a `CollectionStore` (`store.py:67-71`) -/
inductive Dict
  | docs | indexes | ttl
  deriving DecidableEq, Repr, Inhabited

/-- key operand of a dict access: a literal id, or the id the expiry loop is currently at -/
inductive Key
  | lit (n : Nat) | collHead
  deriving DecidableEq, Repr, Inhabited

/-- primitive instructions of the flat thread code -/
inductive Instr
  -- lock protocol
  | acq (l : LockId)                        -- `l.acquire()`
  | rel (l : LockId)                        -- `l.release()`
  | inc (c : Ctr)                           -- `self._counter += 1`
  | dec (c : Ctr)                           -- `self._counter -= 1`
  | acqIf (c : Ctr) (k : Int) (l : LockId)  -- `if self._counter == k: l.acquire()`
  | relIf (c : Ctr) (k : Int) (l : LockId)  -- `if self._counter == k: l.release()`
  | unknown                                 -- the translator could not express the step: stuck
  -- dict accesses
  | read (d : Dict)                         -- `key in d`, `len(d)`, `not d`, `d.get`: never raises
  | getItem (d : Dict) (k : Key)            -- `d[key]`: KeyError if absent
  | setItem (d : Dict) (k : Key)            -- `d[key] = v`
  | delItem (d : Dict) (k : Key) (nested : Bool)  -- `del d[key]`: KeyError if absent
  | popItem (d : Dict) (k : Key)            -- `d.pop(key, None)`
  | collect                                 -- `[key for key, doc in docs.items() if expired]`
  -- iteration / control
  | iterBegin (d : Dict)                    -- `iter(d.values())`
  | iterNext (d : Dict)                     -- `next(it)`; exhaustion leaves the loop
  | loopEnd (d : Dict)                      -- back edge to the matching `iterNext`
  | snapshot (d : Dict)                     -- `xs = list(d.values())`: ONE action (a single C call
                                            -- under the GIL); the thread then iterates its own list
  | snapNext (d : Dict)                     -- `next` over that list; exhaustion leaves the loop;
                                            -- never looks at `d` again, never raises
  | snapEnd (d : Dict)                      -- back edge to the matching `snapNext`
  | yield (throwAt : Nat)                   -- generator hands a document to its consumer; the
                                            -- consumer throws into it at document no. `throwAt`
  | collNext                                -- `for exp_id in expired_ids:` (exit when none left)
  | collEnd                                 -- back edge; drops the id just handled
  | skip (n : Nat)                          -- jump over the next `n` instructions
  | handler                                 -- start of the release-after-raise block (no-op)
  | reraise                                 -- exception leaves the store method
  deriving DecidableEq, Repr, Inhabited

/-- where in the lock protocol an instruction sits -/
inductive Phase
  | out                                     -- outside any section
  | acq (w : Bool) (j : Nat)                -- j-th step of writer (`w`) / reader acquire
  | body (w : Bool)                         -- inside the `with` block
  | rel (w : Bool) (raised : Bool) (j : Nat)  -- j-th step of the release (normal / after a raise)
  deriving DecidableEq, Repr, Inhabited

structure TInstr where
  ph : Phase
  start : Bool      -- first instruction of a top-level store-method call
  op : Instr
  deriving DecidableEq, Repr, Inhabited

abbrev Code := List TInstr

/-! ## State -/

/-- non-benign errors a thread can run into (sticky) -/
inductive Fault
  | expiryKeyError     -- a nested `del self[exp_id]` of an id that is gone (the code before the
                       -- fix of store.py `_expire_documents`; unreachable for the present discipline)
  | ttlChangedSize     -- "dictionary changed size during iteration" over `_ttl_indexes` (the code
                       -- before `_remove_expired_documents` iterated over a snapshot; unreachable
                       -- for the present discipline, reachable for `unrepairedDiscipline`)
  | docsMutated        -- "OrderedDict mutated during iteration" over `_documents`
  | lockError          -- release of an unlocked / foreign lock
  deriving DecidableEq, Repr, Inhabited, Hashable

structure LockSt where
  owner : Nat := 0      -- thread id + 1 for a held reentrant lock, 0 otherwise
  count : Nat := 0      -- 0 = free; nesting depth for reentrant locks
  deriving DecidableEq, Repr, Inhabited, Hashable

/-- the state of the `RWLock` object -/
structure Locks where
  locks : List LockSt      -- indexed by `LockId.idx`
  rc : Int                 -- `_read_switch._counter`
  wc : Int                 -- `_write_switch._counter`
  deriving DecidableEq, Repr, Inhabited, Hashable

structure Shared where
  lk : Locks
  docs : List Nat          -- keys of `_documents`, insertion order
  idx : List Nat           -- names in `indexes`
  ttl : List Nat           -- names in `_ttl_indexes`
  deriving DecidableEq, Repr, Inhabited, Hashable

structure Thread where
  pc : Nat
  dIt : Option (Nat × Nat × Bool)   -- `_documents` iterator: consumed, size at creation, dirty
  tIt : Option (Nat × Nat)          -- `_ttl_indexes` iterator: consumed, size at creation;
                                    -- or the iterator of a snapshot list of its values
  coll : List Nat                   -- `expired_ids` still to delete
  fault : Option Fault
  deriving DecidableEq, Repr, Inhabited, Hashable

structure State where
  sh : Shared
  ths : List Thread
  deriving DecidableEq, Repr, Inhabited, Hashable

structure Cfg where
  reentrant : List Bool    -- by `LockId.idx`: is the lock an `RLock`?
  codes : List Code        -- one per thread
  expired : List Nat       -- document ids whose TTL field is in the past
  docs0 : List Nat
  idx0 : List Nat
  ttl0 : List Nat
  deriving DecidableEq, Repr, Inhabited

def Thread.init : Thread := ⟨0, none, none, [], none⟩
def Locks.init : Locks := ⟨List.replicate 5 {}, 0, 0⟩

def initState (cfg : Cfg) : State :=
  { sh := { lk := Locks.init, docs := cfg.docs0, idx := cfg.idx0, ttl := cfg.ttl0 },
    ths := cfg.codes.map fun _ => Thread.init }

def Cfg.code (cfg : Cfg) (t : Nat) : Code := cfg.codes.getD t []
def isReentrant (re : List Bool) (l : LockId) : Bool := re.getD l.idx false

def Locks.lock (lk : Locks) (l : LockId) : LockSt := lk.locks.getD l.idx {}
def Locks.setLock (lk : Locks) (l : LockId) (x : LockSt) : Locks :=
  { lk with locks := lk.locks.set l.idx x }
def Locks.ctr (lk : Locks) : Ctr → Int
  | .readCtr => lk.rc | .writeCtr => lk.wc
def Locks.setCtr (lk : Locks) (c : Ctr) (v : Int) : Locks :=
  match c with
  | .readCtr => { lk with rc := v }
  | .writeCtr => { lk with wc := v }
def Shared.dict (sh : Shared) : Dict → List Nat
  | .docs => sh.docs | .indexes => sh.idx | .ttl => sh.ttl
def Shared.setDict (sh : Shared) (d : Dict) (v : List Nat) : Shared :=
  match d with
  | .docs => { sh with docs := v }
  | .indexes => { sh with idx := v }
  | .ttl => { sh with ttl := v }

/-! ## One primitive action -/

/-- first index `≥ i` whose instruction satisfies `p` (`code.length` if none) -/
def findFrom (p : TInstr → Bool) : Code → Nat → Nat → Nat
  | [], _, acc => acc
  | x :: xs, 0, acc => if p x then acc else findFrom p xs 0 (acc + 1)
  | _ :: xs, i + 1, acc => findFrom p xs i (acc + 1)

/-- last index `< i` whose instruction satisfies `p` (`dflt` if none) -/
def findBack (p : TInstr → Bool) (code : Code) (i : Nat) (dflt : Nat) : Nat :=
  go code 0 dflt
where
  go : Code → Nat → Nat → Nat
    | [], _, best => best
    | x :: xs, j, best => if j < i then go xs (j + 1) (if p x then j else best) else best

def isHandler (x : TInstr) : Bool := x.op == .handler

/-- where control goes when the instruction at `pc` raises: the release-after-raise block of the
    enclosing section, else the end of the current top-level call -/
def raiseTarget (code : Code) (pc : Nat) : Nat :=
  match (code.getD pc default).ph with
  | .body _ => findFrom isHandler code (pc + 1) 0
  | _ => findFrom (·.start) code (pc + 1) 0

/-- Python exception classes the actions can raise -/
inductive Exc
  | keyError | thrown | runtimeError
  deriving DecidableEq, Repr, Inhabited

structure Eff where
  sh : Shared
  th : Thread
  mutated : Bool := false     -- `_documents` gained or lost a key
  raised : Option Exc := none -- a new exception was raised by this action
  deriving Repr

def Thread.goto (th : Thread) (pc : Nat) : Thread := { th with pc := pc }
def Thread.next (th : Thread) : Thread := { th with pc := th.pc + 1 }

/-- an exception propagates: iterators and the id list of the aborted call are dropped -/
def Thread.raise (th : Thread) (code : Code) (f : Option Fault) : Thread :=
  { th with pc := raiseTarget code th.pc, dIt := none, tIt := none, coll := [],
            fault := match th.fault with | some g => some g | none => f }

def keyVal (th : Thread) : Key → Option Nat
  | .lit n => some n
  | .collHead => th.coll.head?

/-- `l.acquire()` by thread `t`; `none` = would block -/
def acquire (re : List Bool) (lk : Locks) (t : Nat) (l : LockId) : Option Locks :=
  let x := lk.lock l
  if isReentrant re l then
    if x.count == 0 then some (lk.setLock l ⟨t + 1, 1⟩)
    else if x.owner == t + 1 then some (lk.setLock l ⟨t + 1, x.count + 1⟩)
    else none
  else
    if x.count == 0 then some (lk.setLock l ⟨0, 1⟩) else none

/-- `l.release()` by thread `t`; `none` = RuntimeError (not held / not owner) -/
def release (re : List Bool) (lk : Locks) (t : Nat) (l : LockId) : Option Locks :=
  let x := lk.lock l
  if isReentrant re l then
    if x.count != 0 && x.owner == t + 1 then
      (if x.count ≤ 1 then some (lk.setLock l {}) else some (lk.setLock l ⟨t + 1, x.count - 1⟩))
    else none
  else
    if x.count != 0 then some (lk.setLock l {}) else none

/-- outcome of a lock-protocol instruction -/
inductive PRes
  | blocked | ok (lk : Locks) | error
  deriving DecidableEq, Repr

def acqRes (re : List Bool) (lk : Locks) (t : Nat) (l : LockId) : PRes :=
  match acquire re lk t l with
  | some lk' => .ok lk'
  | none => .blocked

def relRes (re : List Bool) (lk : Locks) (t : Nat) (l : LockId) : PRes :=
  match release re lk t l with
  | some lk' => .ok lk'
  | none => .error

/-- the lock-protocol instructions act on the `RWLock` state only; `none` = not one of them -/
def protoOp (re : List Bool) (lk : Locks) (t : Nat) : Instr → Option PRes
  | .acq l => some (acqRes re lk t l)
  | .rel l => some (relRes re lk t l)
  | .inc c => some (.ok (lk.setCtr c (lk.ctr c + 1)))
  | .dec c => some (.ok (lk.setCtr c (lk.ctr c - 1)))
  | .acqIf c k l => some (if lk.ctr c == k then acqRes re lk t l else .ok lk)
  | .relIf c k l => some (if lk.ctr c == k then relRes re lk t l else .ok lk)
  | _ => none

/-- the other instructions: dict accesses, iteration, control; `none` = stuck (`unknown`) -/
def dictOp (cfg : Cfg) (code : Code) (sh : Shared) (th : Thread) (ins : Instr) : Option Eff :=
  match ins with
  | .acq _ | .rel _ | .inc _ | .dec _ | .acqIf .. | .relIf .. => none
  | .unknown => none
  | .read _ => some { sh := sh, th := th.next }
  | .getItem d k =>
    match keyVal th k with
    | some n => if (sh.dict d).contains n then some { sh := sh, th := th.next }
                else some { sh := sh, th := th.raise code none, raised := some .keyError }
    | none => some { sh := sh, th := th.raise code none, raised := some .keyError }
  | .setItem d k =>
    match keyVal th k with
    | some n =>
      if (sh.dict d).contains n then some { sh := sh, th := th.next }
      else some { sh := sh.setDict d (sh.dict d ++ [n]), th := th.next, mutated := d == .docs }
    | none => some { sh := sh, th := th.raise code none, raised := some .keyError }
  | .delItem d k nested =>
    let f := if nested then some Fault.expiryKeyError else none
    match keyVal th k with
    | some n =>
      if (sh.dict d).contains n then
        some { sh := sh.setDict d ((sh.dict d).erase n), th := th.next, mutated := d == .docs }
      else some { sh := sh, th := th.raise code f, raised := some .keyError }
    | none => some { sh := sh, th := th.raise code f, raised := some .keyError }
  | .popItem d k =>
    match keyVal th k with
    | some n =>
      if (sh.dict d).contains n then
        some { sh := sh.setDict d ((sh.dict d).erase n), th := th.next, mutated := d == .docs }
      else some { sh := sh, th := th.next }
    | none => some { sh := sh, th := th.next }
  | .collect =>
    some { sh := sh, th := { th.next with coll := sh.docs.filter (cfg.expired.contains ·) } }
  | .iterBegin d =>
    match d with
    | .docs => some { sh := sh, th := { th.next with dIt := some (0, sh.docs.length, false) } }
    | .ttl => some { sh := sh, th := { th.next with tIt := some (0, sh.ttl.length) } }
    | .indexes => none      -- not used by any store method; unmodelled → stuck
  | .iterNext d =>
    let exit := findFrom (fun x => x.op == .loopEnd d) code (th.pc + 1) 0 + 1
    match d with
    | .docs =>
      -- odictiter_nextkey: exhausted → stop (no check); else state check; else yield
      match th.dIt with
      | some (pos, total, dirty) =>
        if pos ≥ total then some { sh := sh, th := { th with pc := exit, dIt := none } }
        else if dirty then some { sh := sh, th := th.raise code (some .docsMutated), raised := some .runtimeError }
        else some { sh := sh, th := { th.next with dIt := some (pos + 1, total, dirty) } }
      | none => some { sh := sh, th := th.goto exit }
    | .ttl =>
      -- dictiter_iternextvalue: size check first, then exhaustion
      match th.tIt with
      | some (pos, size) =>
        if sh.ttl.length != size then some { sh := sh, th := th.raise code (some .ttlChangedSize),
                                                 raised := some .runtimeError }
        else if pos ≥ size then some { sh := sh, th := { th with pc := exit, tIt := none } }
        else some { sh := sh, th := { th.next with tIt := some (pos + 1, size) } }
      | none => some { sh := sh, th := th.goto exit }
    | .indexes => none
  | .loopEnd d =>
    some { sh := sh, th := th.goto (findBack (fun x => x.op == .iterNext d) code th.pc code.length) }
  | .snapshot d =>
    match d with
    | .ttl => some { sh := sh, th := { th.next with tIt := some (0, sh.ttl.length) } }
    | .docs => none         -- not used by any store method; unmodelled → stuck
    | .indexes => none
  | .snapNext d =>
    let exit := findFrom (fun x => x.op == .snapEnd d) code (th.pc + 1) 0 + 1
    match d with
    | .ttl =>
      -- listiter_next over the thread's own list: no look at `_ttl_indexes`
      match th.tIt with
      | some (pos, size) =>
        if pos ≥ size then some { sh := sh, th := { th with pc := exit, tIt := none } }
        else some { sh := sh, th := { th.next with tIt := some (pos + 1, size) } }
      | none => some { sh := sh, th := th.goto exit }
    | .docs => none
    | .indexes => none
  | .snapEnd d =>
    some { sh := sh, th := th.goto (findBack (fun x => x.op == .snapNext d) code th.pc code.length) }
  | .yield throwAt =>
    match th.dIt with
    | some (pos, _, _) =>
      if pos == throwAt then some { sh := sh, th := th.raise code none, raised := some .thrown }
      else some { sh := sh, th := th.next }
    | none => some { sh := sh, th := th.next }
  | .collNext =>
    match th.coll with
    | [] => some { sh := sh,
                   th := th.goto (findFrom (fun x => x.op == .collEnd) code (th.pc + 1) 0 + 1) }
    | _ :: _ => some { sh := sh, th := th.next }
  | .collEnd =>
    let back := findBack (fun x => x.op == .collNext) code th.pc code.length
    some { sh := sh, th := { th with pc := back, coll := th.coll.tail } }
  | .skip n => some { sh := sh, th := th.goto (th.pc + n + 1) }
  | .handler => some { sh := sh, th := th.next }
  | .reraise => some { sh := sh, th := th.raise code none }

/-- execute instruction `ins` of thread `t`; `none` = blocked -/
def exec (cfg : Cfg) (code : Code) (sh : Shared) (th : Thread) (t : Nat) (ins : Instr) :
    Option Eff :=
  match protoOp cfg.reentrant sh.lk t ins with
  | some .blocked => none
  | some (.ok lk') => some { sh := { sh with lk := lk' }, th := th.next }
  | some .error =>
    some { sh := sh, th := th.raise code (some .lockError), raised := some .runtimeError }
  | none => dictOp cfg code sh th ins

def markDirty (th : Thread) : Thread :=
  match th.dIt with
  | some (pos, total, _) => { th with dIt := some (pos, total, true) }
  | none => th

/-- ONE primitive action of thread `t`; `none` = `t` is finished or blocked -/
def step (cfg : Cfg) (s : State) (t : Nat) : Option State :=
  match s.ths[t]? with
  | none => none
  | some th =>
    let code := cfg.code t
    match code[th.pc]? with
    | none => none
    | some ins =>
      match exec cfg code s.sh th t ins.op with
      | none => none
      | some e =>
        let ths := s.ths.set t e.th
        some { sh := e.sh, ths := if e.mutated then ths.map markDirty else ths }

def enabled (cfg : Cfg) (s : State) (t : Nat) : Bool := (step cfg s t).isSome

/-- what the next primitive action of `t` raises, if anything -/
def stepRaised (cfg : Cfg) (s : State) (t : Nat) : Option Exc :=
  match s.ths[t]? with
  | none => none
  | some th => match (cfg.code t)[th.pc]? with
    | none => none
    | some ins => match exec cfg (cfg.code t) s.sh th t ins.op with
      | some e => e.raised
      | none => none

def tids (s : State) : List Nat := List.range s.ths.length

def threadDone (cfg : Cfg) (s : State) (t : Nat) : Bool :=
  match s.ths[t]? with
  | some th => th.pc ≥ (cfg.code t).length
  | none => true

def allDone (cfg : Cfg) (s : State) : Bool := (tids s).all (threadDone cfg s)

/-- some thread is unfinished and none can move -/
def deadlocked (cfg : Cfg) (s : State) : Bool :=
  !allDone cfg s && (tids s).all (fun t => !enabled cfg s t)

/-! ## Bad states -/

def phaseAt (cfg : Cfg) (s : State) (t : Nat) : Phase :=
  match s.ths[t]? with
  | some th => match (cfg.code t)[th.pc]? with
    | some i => i.ph
    | none => .out
  | none => .out

def insideW (cfg : Cfg) (s : State) (t : Nat) : Bool := phaseAt cfg s t == .body true
def insideR (cfg : Cfg) (s : State) (t : Nat) : Bool := phaseAt cfg s t == .body false

/-- two writers inside, or a writer together with a reader -/
def exclusionViolated (cfg : Cfg) (s : State) : Bool :=
  (tids s).any fun t => insideW cfg s t &&
    (tids s).any fun u => u != t && (insideW cfg s u || insideR cfg s u)

/-- some thread ran into an error of a kind not in `allowed` -/
def faulted (allowed : List Fault) (s : State) : Bool :=
  s.ths.any fun th => match th.fault with
    | some f => !allowed.contains f
    | none => false

def Locks.free (lk : Locks) : Bool := lk.locks.all (fun x => x.count == 0) && lk.rc == 0 && lk.wc == 0

def locksFree (s : State) : Bool := s.sh.lk.free

/-- every thread is outside all sections (or finished) -/
def allOut (cfg : Cfg) (s : State) : Bool := (tids s).all fun t => phaseAt cfg s t == .out

/-- every thread has left its sections, yet a lock is held or a counter is not zero -/
def leaked (cfg : Cfg) (s : State) : Bool := allOut cfg s && !locksFree s

def bad (allowed : List Fault) (cfg : Cfg) (s : State) : Bool :=
  exclusionViolated cfg s || faulted allowed s || leaked cfg s

/-! ## Protocol and discipline as data; compilation of method calls to flat code -/

structure Protocol where
  reentrant : List Bool          -- by `LockId.idx`
  rAcq : List Instr              -- `_reader_acquire`
  rRel : List Instr              -- what runs when a reader section ends normally
  rRelRaise : List Instr         -- what runs when it ends with an exception
  wAcq : List Instr
  wRel : List Instr
  wRelRaise : List Instr
  deriving DecidableEq, Repr, Inhabited

inductive Method
  | contains | getItem | setItem | delItem | discard | len | documents | isEmpty
  | expireDocuments | removeExpired | createIndex | createIndexTtl | dropIndex
  deriving DecidableEq, Repr, Inhabited

/-- one recorded event of a `CollectionStore` method (flat, with begin/end markers) -/
inductive DStep
  | enter (w : Bool)             -- `with self._rwlock.writer()/reader():`
  | leave (w : Bool)
  | read (d : Dict)
  | getItem (d : Dict) (ck : Bool) | setItem (d : Dict) (ck : Bool)
  | delItem (d : Dict) (ck : Bool) | popItem (d : Dict) (ck : Bool)
                                 -- key: the method's argument, or (`ck`) the current expired id
  | collect                      -- whole iteration over `_documents` with no switch point inside
  | forBegin (d : Dict) | forEnd (d : Dict)
  | snapBegin (d : Dict) | snapEnd (d : Dict)   -- `for x in list(d.values()):` … end of its body
  | yield
  | collBegin | collEnd          -- `for exp_id in expired_ids:`
  | call (m : Method) (collKey : Bool)   -- nested store-method call (key = current expired id?)
  | unknown
  deriving DecidableEq, Repr, Inhabited

abbrev Discipline := List (Method × List DStep)

structure Call where
  m : Method
  key : Nat := 0
  throwAt : Nat := 0     -- `documents`: the consumer throws at this document (0 = never)
  deriving DecidableEq, Repr, Inhabited

def Discipline.body (D : Discipline) (m : Method) : List DStep :=
  match D.find? (fun e => e.1 == m) with
  | some e => e.2
  | none => [.unknown]

def ctxPhase : List Bool → Phase
  | w :: _ => .body w
  | [] => .out

def tagSeq (f : Nat → Phase) (xs : List Instr) (off : Nat) : Code :=
  (xs.zipIdx).map fun (i, j) => ⟨f (j + off), false, i⟩

def Protocol.acqSeq (P : Protocol) (w : Bool) : List Instr := if w then P.wAcq else P.rAcq
def Protocol.relSeq (P : Protocol) (w : Bool) (raised : Bool) : List Instr :=
  match w, raised with
  | true, false => P.wRel | true, true => P.wRelRaise
  | false, false => P.rRel | false, true => P.rRelRaise

/-- end of a `with` block: normal release, jump over the handler; handler marker, release after
    a raise, re-raise in the enclosing context `outer` -/
def leaveBlock (P : Protocol) (w : Bool) (outer : Phase) : Code :=
  let n := P.relSeq w false
  let r := P.relSeq w true
  tagSeq (.rel w false) n 0 ++ [⟨outer, false, .skip (r.length + 2)⟩]
    ++ [⟨.body w, false, .handler⟩] ++ tagSeq (.rel w true) r 0 ++ [⟨outer, false, .reraise⟩]

/-- flat code of a method body; `fuel` bounds the call depth -/
def compileSteps (P : Protocol) (D : Discipline) :
    Nat → Key → Nat → Bool → List Bool → List DStep → Code
  | 0, _, _, _, ctx, _ => [⟨ctxPhase ctx, false, .unknown⟩]
  | fuel + 1, key, thr, nested, ctx0, steps =>
    (steps.foldl (fun (acc : List Bool × Code) st =>
      let (ctx, code) := acc
      let one (i : Instr) : List Bool × Code := (ctx, code ++ [⟨ctxPhase ctx, false, i⟩])
      match st with
      | .enter w => (w :: ctx, code ++ tagSeq (.acq w) (P.acqSeq w) 0)
      | .leave w => (ctx.tail, code ++ leaveBlock P w (ctxPhase ctx.tail))
      | .read d => one (.read d)
      | .getItem d ck => one (.getItem d (if ck then .collHead else key))
      | .setItem d ck => one (.setItem d (if ck then .collHead else key))
      | .delItem d ck => one (.delItem d (if ck then .collHead else key) nested)
      | .popItem d ck => one (.popItem d (if ck then .collHead else key))
      | .collect => one .collect
      | .forBegin d => (ctx, code ++ [⟨ctxPhase ctx, false, .iterBegin d⟩,
                                      ⟨ctxPhase ctx, false, .iterNext d⟩])
      | .forEnd d => one (.loopEnd d)
      | .snapBegin d => (ctx, code ++ [⟨ctxPhase ctx, false, .snapshot d⟩,
                                       ⟨ctxPhase ctx, false, .snapNext d⟩])
      | .snapEnd d => one (.snapEnd d)
      | .yield => one (.yield thr)
      | .collBegin => one .collNext
      | .collEnd => one .collEnd
      | .call m ck =>
        (ctx, code ++ compileSteps P D fuel (if ck then .collHead else key) thr true ctx (D.body m))
      | .unknown => one .unknown) (ctx0, [])).2

def markStart : Code → Code
  | [] => []
  | x :: xs => { x with start := true } :: xs

def compileCall (P : Protocol) (D : Discipline) (c : Call) : Code :=
  markStart (compileSteps P D 4 (.lit c.key) c.throwAt false [] (D.body c.m))

def compile (P : Protocol) (D : Discipline) (calls : List Call) : Code :=
  calls.flatMap (compileCall P D)

/-- a scenario: initial dict contents and one list of calls per thread -/
structure Scenario where
  docs0 : List Nat
  idx0 : List Nat
  ttl0 : List Nat
  expired : List Nat
  progs : List (List Call)
  deriving DecidableEq, Repr, Inhabited

def mkCfg (P : Protocol) (D : Discipline) (sc : Scenario) : Cfg :=
  { reentrant := P.reentrant, codes := sc.progs.map (compile P D), expired := sc.expired,
    docs0 := sc.docs0, idx0 := sc.idx0, ttl0 := sc.ttl0 }

/-! ## Hand-written reference copies (thread.py:39-95, store.py:89-177) -/

open LockId Ctr in
def referenceProtocol : Protocol :=
  { reentrant := [false, false, true, true, true]
    rAcq := [.acq readersQueue, .acq noReaders, .acq readMutex, .inc readCtr,
             .acqIf readCtr 1 noWriters, .rel readMutex, .rel noReaders, .rel readersQueue]
    rRel := [.acq readMutex, .dec readCtr, .relIf readCtr 0 noWriters, .rel readMutex]
    rRelRaise := [.acq readMutex, .dec readCtr, .relIf readCtr 0 noWriters, .rel readMutex]
    wAcq := [.acq writeMutex, .inc writeCtr, .acqIf writeCtr 1 noReaders, .rel writeMutex,
             .acq noWriters]
    wRel := [.rel noWriters, .acq writeMutex, .dec writeCtr, .relIf writeCtr 0 noReaders,
             .rel writeMutex]
    wRelRaise := [.rel noWriters, .acq writeMutex, .dec writeCtr, .relIf writeCtr 0 noReaders,
                  .rel writeMutex] }

open Method Dict in
def referenceDiscipline : Discipline :=
  [ (contains, [.call removeExpired false, .enter false, .read docs, .leave false]),
    (getItem, [.call removeExpired false, .enter false, .getItem docs false, .leave false]),
    (setItem, [.enter true, .setItem docs false, .leave true]),
    (delItem, [.enter true, .delItem docs false, .leave true]),
    -- `discard` (what `Collection._delete` removes a document with since a0040b0): a pop that
    -- tolerates a key that is gone and tells whether it removed something
    (discard, [.enter true, .popItem docs false, .leave true]),
    (len, [.call removeExpired false, .enter false, .read docs, .leave false]),
    (documents, [.call removeExpired false, .enter false, .forBegin docs, .yield, .forEnd docs,
                 .leave false]),
    (isEmpty, [.call removeExpired false, .read docs]),
    (expireDocuments, [.enter false, .collect, .leave false, .collBegin, .enter true,
                       .popItem docs true, .leave true, .collEnd]),
    (removeExpired, [.snapBegin ttl, .call expireDocuments false, .snapEnd ttl]),
    (createIndex, [.setItem indexes false]),
    (createIndexTtl, [.setItem indexes false, .setItem ttl false]),
    (dropIndex, [.call removeExpired false, .delItem indexes false, .popItem ttl false]) ]

def Discipline.withBody (D : Discipline) (m : Method) (body : List DStep) : Discipline :=
  D.map fun e => if e.1 == m then (m, body) else e

/-- the discipline of store.py BEFORE the repair of `ttl-index-race`: `_remove_expired_documents`
    iterated the live `_ttl_indexes` dict (`for index in self._ttl_indexes.values():`) -/
def unrepairedDiscipline : Discipline :=
  referenceDiscipline.withBody .removeExpired
    [.forBegin .ttl, .call .expireDocuments false, .forEnd .ttl]

end MongoModel.RWLock
