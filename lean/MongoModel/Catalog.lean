/-
  MongoModel.Catalog — Impl for C17: a faithful state-machine model of mongomock's namespace
  (databases, collections, indexes), written by following

    mongomock/store.py         ServerStore / DatabaseStore / CollectionStore
    mongomock/database.py      Database (list_collection_names, get_collection, create_collection,
                               drop_collection, rename_collection, name validation)
    mongomock/mongo_client.py  MongoClient (list_database_names, drop_database, get_database,
                               `_store` sharing)
    mongomock/collection.py    the index catalogue (create_index, drop_index, drop_indexes,
                               index_information / _list_all_indexes), insert / delete / find / drop

  Collection contents are abstracted to the list of document ids (insertion ordered, like the
  OrderedDict `_documents`); TTL expiry and unique checks belong to other properties.

  What a handle is.  `Collection._store` is a *property* (`self._db_store[self._name]`,
  collection.py:484-486): a Collection object resolves its CollectionStore by name on every use,
  and a Database object keeps the DatabaseStore of its client's ServerStore, which is never
  replaced (drop_database only drops collections).  So a handle is modelled by what it denotes:
  `(client, db)` / `(client, db, coll)`, and an old handle and a fresh one are the same value;
  the correspondence run checks that the Python objects really behave that way.  The handle
  caches (`MongoClient._database_accesses`, `Database._collection_accesses`) are part of the
  state: a handle must have been obtained (`getDb`, `getColl`) before it is used, a cache hit
  skips the name validation.  `drop_database` and `drop_collection` read only the name of a
  handle passed to them.

  Core Lean only.
-/
import MongoModel.Value

namespace MongoModel.Catalog
open MongoModel

/-! ### Python dicts as association lists (insertion ordered, keys unique) -/

section AL
variable {α : Type} [DecidableEq α] {β : Type}

/-- `d.get(k)` -/
def alGet? (k : α) : List (α × β) → Option β
  | [] => none
  | (k', v) :: r => if k' = k then some v else alGet? k r

/-- `k in d` -/
def alHas (k : α) (l : List (α × β)) : Bool := (alGet? k l).isSome

/-- `d[k] = v`: overwrite in place when present, else append -/
def alUpsert (k : α) (v : β) : List (α × β) → List (α × β)
  | [] => [(k, v)]
  | (k', v') :: r => if k' = k then (k, v) :: r else (k', v') :: alUpsert k v r

/-- `d.pop(k, None)` / `del d[k]` (keys are unique in a dict, so every occurrence goes) -/
def alErase (k : α) : List (α × β) → List (α × β)
  | [] => []
  | (k', v') :: r => if k' = k then alErase k r else (k', v') :: alErase k r

def alKeys (l : List (α × β)) : List α := l.map (·.1)

end AL

/-! ### Collections -/

/-- the index document stored by `create_index` (collection.py:1514-1519): key list and the two
    options the catalogue distinguishes (TTL / partial indexes are other properties) -/
structure IndexInfo where
  key : List (String × Int)
  unique : Bool
  sparse : Bool
  deriving DecidableEq, Repr, Inhabited

/-- the implicit `_id_` index yielded first by `_list_all_indexes` (collection.py:1606) -/
def idIndex : IndexInfo := ⟨[("_id", 1)], false, false⟩

/-- `CollectionStore` (store.py:63-93): `_documents` (ids only), `indexes`, `_is_force_created` -/
structure Coll where
  docs : List Nat
  indexes : List (String × IndexInfo)
  forceCreated : Bool
  deriving DecidableEq, Repr, Inhabited

/-- `CollectionStore(name)` as built by `DatabaseStore.__getitem__`; also the result of `drop()`
    (store.py:83-87) -/
def Coll.empty : Coll := ⟨[], [], false⟩

/-- `is_created` (store.py:79-81): `self._documents or self.indexes or self._is_force_created` -/
def Coll.isCreated (c : Coll) : Bool := !c.docs.isEmpty || !c.indexes.isEmpty || c.forceCreated

/-- existence is *recorded*: `_is_force_created` is set by `create()`, by every
    `__setitem__` (store.py:122-125, the first insert) and by `create_index` (store.py:89-90), and
    reset only by `drop()`; so a store that holds a document or an index has the flag set, and
    `is_created` is the flag.  An invariant of every history (`Spec.Catalog.WF`,
    `Proofs.C17.wf_run`), not of every value of the type. -/
def Coll.recorded (c : Coll) : Bool := c.forceCreated || (c.docs.isEmpty && c.indexes.isEmpty)

/-- `helpers.gen_index_name` (helpers.py:96-99): `'_'.join('%s_%s' % item)` -/
def genIndexName (ks : List (String × Int)) : String :=
  "_".intercalate (ks.map fun p => p.1 ++ "_" ++ toString p.2)

/-- results of a step; errors by the shared enum -/
inductive Out where
  | ok
  | err (e : Err)
  | ids (l : List Nat)                        -- `[d['_id'] for d in find()]`
  | count (n : Nat)                           -- `deleted_count`
  | name (s : String)                         -- `create_index` returns the index name
  | names (l : List String)                   -- a listing (a set: compared up to order)
  | indexes (l : List (String × IndexInfo))   -- `index_information()`
  deriving DecidableEq, Repr, Inhabited

inductive IndexRef where
  | byName (n : String)
  | byKeys (ks : List (String × Int))
  deriving DecidableEq, Repr

def IndexRef.name : IndexRef → String
  | .byName n => n
  | .byKeys ks => genIndexName ks

/-- operations through a Collection handle that touch one CollectionStore only -/
inductive CollOp where
  | find                                              -- list(coll.find())
  | indexInformation                                  -- coll.index_information()
  | insert (id : Nat)                                 -- coll.insert_one({'_id': id})
  | deleteOne (id : Nat)                              -- coll.delete_one({'_id': id})
  | deleteAll                                         -- coll.delete_many({})
  | createIndex (name : Option String) (info : IndexInfo)
  | dropIndex (r : IndexRef)
  | dropIndexes
  | drop                                              -- coll.drop()
  deriving DecidableEq, Repr

def CollOp.isDrop : CollOp → Bool
  | .drop => true
  | _ => false

/-- reads: `find`, `index_information` -/
def CollOp.isRead : CollOp → Bool
  | .find | .indexInformation => true
  | _ => false

/-- the effect of a handle operation on the CollectionStore it resolves to -/
def collOp : CollOp → Coll → Coll × Out
  -- collection.py:1294-1300 `_iter_documents`
  | .find, c => (c, .ids c.docs)
  -- collection.py:1603-1608 `_list_all_indexes`: nothing unless `is_created`, else `_id_` first
  | .indexInformation, c =>
    (c, .indexes (if c.isCreated then ("_id_", idIndex) :: c.indexes else []))
  -- collection.py `_insert`: DuplicateKeyError when the id is stored, else
  -- `self._store[object_id] = data` (store.py `__setitem__`: sets `_is_force_created`, appends)
  | .insert id, c =>
    if c.docs.contains id then (c, .err .dupKey)
    else ({ c with docs := c.docs ++ [id], forceCreated := true }, .ok)
  -- collection.py:1404-1431 `_delete` with `{'_id': id}`
  | .deleteOne id, c =>
    if c.docs.contains id then ({ c with docs := c.docs.erase id }, .count 1) else (c, .count 0)
  | .deleteAll, c => ({ c with docs := [] }, .count c.docs.length)
  -- collection.py `create_index`: name given or generated; an existing index of that name must
  -- have the same document; `store.create_index` (store.py:89-93) sets `_is_force_created` and
  -- assigns `indexes[name]`
  | .createIndex nm info, c =>
    let name := nm.getD (genIndexName info.key)
    match alGet? name c.indexes with
    | some ex =>
      if ex = info then
        ({ c with indexes := alUpsert name info c.indexes, forceCreated := true }, .name name)
      else (c, .err .opFail)
    | none => ({ c with indexes := alUpsert name info c.indexes, forceCreated := true }, .name name)
  -- collection.py:1581-1591 / store.py:95-101: KeyError → OperationFailure
  | .dropIndex r, c =>
    if alHas r.name c.indexes then ({ c with indexes := alErase r.name c.indexes }, .ok)
    else (c, .err .opFail)
  -- collection.py:1593-1596: `self._store.indexes = {}`
  | .dropIndexes, c => ({ c with indexes := [] }, .ok)
  -- collection.py:1498-1501 → database.py:146-152 → store.py:80-84
  | .drop, _ => (Coll.empty, .ok)

/-! ### Stores -/

/-- `DatabaseStore._collections` -/
abbrev DbStore := List (String × Coll)
/-- `ServerStore._databases` -/
abbrev Server := List (String × DbStore)

/-- the DatabaseStore a name resolves to (a missing one is indistinguishable from the empty one
    `ServerStore.__getitem__` would create) -/
def Server.db (s : Server) (d : String) : DbStore := (alGet? d s).getD []

/-- the CollectionStore a namespace resolves to (`DatabaseStore.__getitem__` creates an empty
    one on a miss) -/
def Server.coll (s : Server) (d n : String) : Coll := (alGet? n (s.db d)).getD Coll.empty

/-- `self._databases[d] = db` -/
def Server.setDb (s : Server) (d : String) (db : DbStore) : Server := alUpsert d db s

/-- resolve `server[d][n]` (both `__getitem__`s create on a miss, store.py:15-20,35-40) and leave
    `c` there.  With `c = s.coll d n` this is exactly the lazy creation done by a read. -/
def Server.setColl (s : Server) (d n : String) (c : Coll) : Server :=
  s.setDb d (alUpsert n c (s.db d))

/-- `ServerStore.__getitem__` on its own -/
def Server.touchDb (s : Server) (d : String) : Server := s.setDb d (s.db d)

/-- `DatabaseStore.is_created` (store.py:57-59) -/
def dbCreated (db : DbStore) : Bool := db.any (·.2.isCreated)

/-- `list_created_collection_names` (store.py:45-46) -/
def createdColls (db : DbStore) : List String := (db.filter (·.2.isCreated)).map (·.1)

/-- `list_created_database_names` (store.py:25-26) -/
def Server.listDbs (s : Server) : List String := (s.filter (dbCreated ·.2)).map (·.1)

/-- `name.startswith('system.')` -/
def isSystem (n : String) : Bool := "system.".toList.isPrefixOf n.toList

/-- `list_collection_names()` without filter (database.py:128-131) -/
def Server.listColls (s : Server) (d : String) : List String :=
  (createdColls (s.db d)).filter (!isSystem ·)

def hasDotDot : List Char → Bool
  | '.' :: '.' :: _ => true
  | _ :: r => hasDotDot r
  | [] => false

/-- `_ensure_valid_collection_name` (database.py:154-165) on a `str` -/
def validName (n : String) : Bool :=
  let cs := n.toList
  !cs.isEmpty && !hasDotDot cs && cs.head? != some '.' && cs.getLast? != some '.'
    && !cs.contains '$' && !cs.contains '\x00'

/-- the `filter` argument of `list_collection_names` as far as it is modelled:
    `{'name': s}`, `{'name': {'$eq': s}}`, `{'name': {'$ne': s}}` -/
inductive NameFilter where
  | eqStr (s : String)
  | opEq (s : String)
  | opNe (s : String)
  deriving DecidableEq, Repr

/-- `filter_applies(filter, {'name': n})` for those shapes -/
def NameFilter.applies : NameFilter → String → Bool
  | .eqStr s, n => n == s
  | .opEq s, n => n == s
  | .opNe s, n => n != s

/-- `not filter.get('name')` → NotImplementedError (database.py:111-113) -/
def NameFilter.falsy : NameFilter → Bool
  | .eqStr s => s == ""
  | _ => false

/-- `list_collection_names(filter=…)` (database.py:110-126): the created collections the filter
    applies to, system collections left out -/
def Server.listCollsFiltered (s : Server) (d : String) (f : NameFilter) : List String :=
  (createdColls (s.db d)).filter (fun n => f.applies n && !isSystem n)

/-- `drop_collections_for_db` (mongo_client.py:132-135): every created collection of the
    database is dropped in place -/
def dropAll (db : DbStore) : DbStore :=
  db.map (fun p => (p.1, if p.2.isCreated then Coll.empty else p.2))

/-- `DatabaseStore.rename` (store.py:52-55): pop the source, store it under the new name -/
def renameIn (db : DbStore) (n n' : String) : DbStore :=
  alUpsert n' ((alGet? n db).getD Coll.empty) (alErase n db)

/-! ### The world: server stores, clients, handle caches -/

/-- a Database handle: `client[db]` -/
structure DbH where
  client : Nat
  db : String
  deriving DecidableEq, Repr

/-- a Collection handle: `client[db][coll]` -/
structure CollH where
  client : Nat
  db : String
  coll : String
  deriving DecidableEq, Repr

def CollH.dbh (h : CollH) : DbH := ⟨h.client, h.db⟩

inductive DropCollTarget where
  | byName (n : String)
  | byHandle (h : CollH)
  deriving DecidableEq, Repr

inductive DropDbTarget where
  | byName (d : String)
  | byHandle (h : DbH)
  deriving DecidableEq, Repr

inductive Op where
  | getDb (c : Nat) (d : String)                                  -- client[d]
  | getColl (h : DbH) (n : String)                                -- db[n]
  | coll (h : CollH) (o : CollOp)
  | collRename (h : CollH) (n' : String) (dropTarget : Bool)       -- coll.rename(n', dropTarget=…)
  | createCollection (h : DbH) (n : String)
  | dropCollection (h : DbH) (t : DropCollTarget)
  | renameCollection (h : DbH) (n n' : String) (dropTarget : Bool)
  | listCollectionNames (h : DbH) (f : Option NameFilter)
  | listDatabaseNames (c : Nat)
  | dropDatabase (c : Nat) (t : DropDbTarget)
  deriving DecidableEq, Repr

/-- `store i` is the i-th ServerStore; `dbCache c` the keys of client c's `_database_accesses`;
    `collCache c d` the keys of `_collection_accesses` of client c's Database object for d. -/
structure World where
  store : Nat → Server
  dbCache : Nat → List String
  collCache : Nat → String → List String

def World.init : World := ⟨fun _ => [], fun _ => [], fun _ _ => []⟩

def upd {β : Type} (f : Nat → β) (k : Nat) (v : β) : Nat → β := fun i => if i = k then v else f i

def upd2 {β : Type} (f : Nat → String → β) (k : Nat) (d : String) (v : β) : Nat → String → β :=
  fun i e => if i = k ∧ e = d then v else f i e

def World.setStore (w : World) (i : Nat) (s : Server) : World := { w with store := upd w.store i s }

def obtainedDb (w : World) (h : DbH) : Bool := (w.dbCache h.client).contains h.db

def obtainedColl (w : World) (h : CollH) : Bool :=
  obtainedDb w h.dbh && (w.collCache h.client h.db).contains h.coll

def addDbCache (w : World) (c : Nat) (d : String) : World :=
  if (w.dbCache c).contains d then w else { w with dbCache := upd w.dbCache c (w.dbCache c ++ [d]) }

def addCollCache (w : World) (c : Nat) (d n : String) : World :=
  if (w.collCache c d).contains n then w
  else { w with collCache := upd2 w.collCache c d (w.collCache c d ++ [n]) }

/-- the model does not express the use of a handle that was never obtained -/
def unob (w : World) : World × Out := (w, .err .unmodelled)

/-- `Database.rename_collection` (database.py:178-199) on the server store of the handle -/
def renameStep (s0 : Server) (d n n' : String) (dropTarget : Bool) : Server × Out :=
  if !validName n' then (s0, .err .invalidName)
  else if n = n' then (s0, .err .opFail)              -- "Can't rename a collection to itself"
  else
    let s1 := s0.setColl d n (s0.coll d n)              -- `self._store[name]`
    if !(s1.coll d n).isCreated then (s1, .err .opFail)
    else
      let s2 := s1.setColl d n' (s1.coll d n')          -- `new_name in self._store`
      if (s2.coll d n').isCreated then
        if dropTarget then
          let s3 := s2.setColl d n' Coll.empty          -- `self.drop_collection(new_name)`
          (s3.setDb d (renameIn (s3.db d) n n'), .ok)
        else (s2, .err .opFail)
      else (s2.setDb d (renameIn (s2.db d) n n'), .ok)

/-- `MongoClient.drop_database` on a name (mongo_client.py:131-145): `name in self._store`
    resolves (and so creates) the DatabaseStore; when it counts as created, the handle is taken
    from / put into the cache (`get_database`) and every created collection is dropped -/
def dropDatabaseStep (σ : Nat → Nat) (w : World) (c : Nat) (d : String) : World × Out :=
  let i := σ c
  let s1 := (w.store i).touchDb d
  if dbCreated (s1.db d) then
    (addDbCache (w.setStore i (s1.setDb d (dropAll (s1.db d)))) c d, .ok)
  else (w.setStore i s1, .ok)

/-- one step of the real code; `σ c` is the index of the ServerStore client `c` was built on
    (`MongoClient(_store=…)` shares one) -/
def step (σ : Nat → Nat) (w : World) : Op → World × Out
  -- mongo_client.py:141-160: a cache miss resolves `self._store[name]` and caches the handle
  | .getDb c d =>
    if (w.dbCache c).contains d then (w, .ok)
    else (addDbCache (w.setStore (σ c) ((w.store (σ c)).touchDb d)) c d, .ok)
  -- database.py:133-147: a cache hit skips the validation
  | .getColl h n =>
    if !obtainedDb w h then unob w
    else if (w.collCache h.client h.db).contains n then (w, .ok)
    else if !validName n then (w, .err .invalidName)
    else (addCollCache w h.client h.db n, .ok)
  | .coll h o =>
    if !obtainedColl w h then unob w
    else
      let i := σ h.client
      let r := collOp o ((w.store i).coll h.db h.coll)
      (w.setStore i ((w.store i).setColl h.db h.coll r.1), r.2)
  -- collection.py:1829-1832
  | .collRename h n' dt =>
    if !obtainedColl w h then unob w
    else
      let i := σ h.client
      let r := renameStep (w.store i) h.db h.coll n' dt
      (w.setStore i r.1, r.2)
  -- database.py:167-176: the existence check looks at the created collections themselves
  -- (`_get_created_collections`), system ones included
  | .createCollection h n =>
    if !obtainedDb w h then unob w
    else if !validName n then (w, .err .invalidName)
    else
      let i := σ h.client
      let s := w.store i
      if (createdColls (s.db h.db)).contains n then (w, .err .collInvalid)
      else
        (addCollCache (w.setStore i (s.setColl h.db n { s.coll h.db n with forceCreated := true }))
          h.client h.db n, .ok)
  -- database.py:146-152: only the name of a Collection argument is used
  | .dropCollection h (.byName n) =>
    if !obtainedDb w h then unob w
    else
      let i := σ h.client
      (w.setStore i ((w.store i).setColl h.db n Coll.empty), .ok)
  | .dropCollection h (.byHandle h') =>
    if !obtainedDb w h || !obtainedColl w h' then unob w
    else
      let i := σ h.client
      (w.setStore i ((w.store i).setColl h.db h'.coll Coll.empty), .ok)
  | .renameCollection h n n' dt =>
    if !obtainedDb w h then unob w
    else
      let i := σ h.client
      let r := renameStep (w.store i) h.db n n' dt
      (w.setStore i r.1, r.2)
  -- database.py:93-131
  | .listCollectionNames h none =>
    if !obtainedDb w h then unob w
    else (w, .names ((w.store (σ h.client)).listColls h.db))
  | .listCollectionNames h (some f) =>
    if !obtainedDb w h then unob w
    else if f.falsy then (w, .err .notImpl)
    else (w, .names ((w.store (σ h.client)).listCollsFiltered h.db f))
  -- mongo_client.py:128-129
  | .listDatabaseNames c => (w, .names (w.store (σ c)).listDbs)
  -- mongo_client.py:131-145
  | .dropDatabase c (.byName d) => dropDatabaseStep σ w c d
  -- only the name of a Database argument is used, whichever client made the handle
  | .dropDatabase c (.byHandle h) =>
    if !obtainedDb w h then unob w
    else dropDatabaseStep σ w c h.db

/-- run a history, collecting the outputs -/
def run (σ : Nat → Nat) : World → List Op → World × List Out
  | w, [] => (w, [])
  | w, op :: ops =>
    let r := step σ w op
    let rs := run σ r.1 ops
    (rs.1, r.2 :: rs.2)

end MongoModel.Catalog
