/-
  MongoModel.Heap — the OBJECT IDENTITY model of mongomock (property C07).

  The value model (`Val`) cannot say "the same object": here every container (dict / list)
  carries an identity, scalars carry none.  The world is what is stored, what the caller holds
  (every argument ever passed, every result ever returned), what the caller's cursors have
  cached (the result list a `Cursor` computes once and keeps) and a fresh-identity counter.

  The code is modelled by its COPY DISCIPLINE: the table `copyDiscipline` says, for every
  value-carrying position of the API (where a value travels from an argument into the store,
  from the store to the caller, …), which copy primitives the code applies on the way.  The
  table was written by reading the code (file:lines cited at each row) and every row is tied
  to /repo by the sharing-graph correspondence of `harness/props/c07.py`.

  Core Lean only (the driver links this file).
-/
import MongoModel.Value

namespace MongoModel.Heap
open MongoModel

/-! ### Values with object identity -/

/-- A Python value as the heap sees it: scalars (`atom`) have no identity that matters (they are
    immutable), a container is a `node` with an identity, a kind (`isDoc`: dict, else list) and
    its children (lists use the key `""`). -/
inductive HVal where
  | atom (v : Val)
  | node (id : Nat) (isDoc : Bool) (kids : List (String × HVal))
  deriving Inhabited

abbrev Kids := List (String × HVal)

mutual
  /-- identities of all containers of a value (pre-order, with multiplicity) -/
  def HVal.ids : HVal → List Nat
    | .atom _ => []
    | .node id _ kids => id :: idsKids kids
  def idsKids : Kids → List Nat
    | [] => []
    | (_, v) :: r => v.ids ++ idsKids r
end

/-- identities of a list of values -/
def idsL : List HVal → List Nat
  | [] => []
  | v :: r => v.ids ++ idsL r

mutual
  /-- the value with identities forgotten (all set to 0): "equal as values" = equal erasures -/
  def HVal.erase : HVal → HVal
    | .atom v => .atom v
    | .node _ d kids => .node 0 d (eraseKids kids)
  def eraseKids : Kids → Kids
    | [] => []
    | (k, v) :: r => (k, v.erase) :: eraseKids r
end

mutual
  /-- number of nodes and scalars of a value -/
  def HVal.size : HVal → Nat
    | .atom _ => 1
    | .node _ _ kids => 1 + sizeKids kids
  def sizeKids : Kids → Nat
    | [] => 0
    | (_, v) :: r => v.size + sizeKids r
end

def HVal.isAtom : HVal → Bool
  | .atom _ => true
  | .node .. => false

/-- the sub-value at a path of child indexes (`atom null` when the path leaves the value) -/
def subAt : List Nat → HVal → HVal
  | [], v => v
  | i :: p, .node _ _ kids =>
    match kids[i]? with
    | some kv => subAt p kv.2
    | none => .atom .null
  | _ :: _, .atom _ => .atom .null

/-! ### The copy primitives the code uses -/

mutual
  /-- `helpers.patch_datetime_awareness_in_document` (helpers.py:322-340): rebuilds every dict and
      every list (`best_type((k, patch(v)) …)`, `[patch(item) …]`): every container of the result
      is a new object.  (What it does to datetimes does not concern identity.) -/
  def rebuild : HVal → Nat → HVal × Nat
    | .atom v, n => (.atom v, n)
    | .node _ d kids, n => (.node n d (rebuildKids kids (n + 1)).1, (rebuildKids kids (n + 1)).2)
  def rebuildKids : Kids → Nat → Kids × Nat
    | [], n => ([], n)
    | (k, v) :: r, n =>
      ((k, (rebuild v n).1) :: (rebuildKids r (rebuild v n).2).1, (rebuildKids r (rebuild v n).2).2)
end

/-- `collection._copy_field` (collection.py:244-255): new list / new `container()` at every level,
    `copy.copy` on scalars.  For identities this is the same traversal as `rebuild`. -/
def copyField : HVal → Nat → HVal × Nat := rebuild

/-- `copy.deepcopy`.  Its memo only matters on inputs in which one object occurs twice; every call
    site applies it to the output of `rebuild` or to a stored document (no repeated identity
    under `Sep`), where it is the same traversal as `rebuild`.  The harness checks on the real
    heap, at every step, that no object occurs twice in the store. -/
def deepcopy : HVal → Nat → HVal × Nat := rebuild

/-- `dict(doc)` / `list(xs)` / a slice: a new top-level container holding the SAME children. -/
def shallow : HVal → Nat → HVal × Nat
  | .atom v, n => (.atom v, n)
  | .node _ d kids, n => (.node n d kids, n + 1)

/-- no copy at all: the very same object travels on (aliasing). -/
def noCopy (v : HVal) (n : Nat) : HVal × Nat := (v, n)

inductive Prim where
  | rebuild | copyField | deepcopy | shallow | noCopy
  deriving DecidableEq, Repr, Inhabited

def Prim.run : Prim → HVal → Nat → HVal × Nat
  | .rebuild => Heap.rebuild
  | .copyField => Heap.copyField
  | .deepcopy => Heap.deepcopy
  | .shallow => Heap.shallow
  | .noCopy => Heap.noCopy

/-- the primitives after which no container of the input is left in the output -/
def Prim.deep : Prim → Bool
  | .rebuild | .copyField | .deepcopy => true
  | .shallow | .noCopy => false

def Prim.name : Prim → String
  | .rebuild => "rebuild" | .copyField => "copyField" | .deepcopy => "deepcopy"
  | .shallow => "shallow" | .noCopy => "noCopy"

/-- primitives applied one after the other -/
def runChain : List Prim → HVal → Nat → HVal × Nat
  | [], v, n => (v, n)
  | p :: c, v, n => runChain c (p.run v n).1 (p.run v n).2

/-- a chain after which the result shares no container with the input -/
def chainDeep (c : List Prim) : Bool := c.any Prim.deep

/-! ### Value-carrying positions and the table -/

/-- Where a value travels in one API call.  `arg → store`, `store → caller`, `store → store`,
    `arg → cache` (a `Cursor` keeps its own copy of the query), `cache → cache` (`clone()`),
    `store → cache` (a `Cursor` computes its results), `cache → caller` (it hands them out),
    `caller → caller`. -/
inductive Pos where
  -- argument → store
  | insertArg      -- the document handed to `_insert`, as the caller passed it
  | insertDoc      -- the inserted document on its way into the store
  | updTemp        -- filter / update document / replacement, once per call (a temporary)
  | setValDoc      -- `$set` operand that is a document (or a scalar)
  | setValList     -- `$set` operand that is a list
  | setOnInsertVal -- `$setOnInsert` operand
  | minMaxVal      -- `$min` / `$max` operand
  | pushVal        -- `$push` operand (no modifier)
  | pushEach       -- elements of `$push: {$each: […]}` (with or without `$position/$sort/$slice`)
  | addToSetVal    -- `$addToSet` operand
  | addToSetEach   -- elements of `$addToSet: {$each: […]}`
  | positionalSet  -- `$set: {'a.$': v}`
  | replaceVal     -- field values of a replacement document
  | upsertSeed     -- field values taken from the filter for the document an upsert creates
  | upsertId       -- its `_id` (from the filter or from the update document)
  | upsertInsert   -- the assembled upsert document on its way into the store
  -- store → store
  | rollbackSnapshot -- the before-image a failed single-document update puts back
  -- argument → cache: the query a `Cursor` keeps (`Cursor.__init__`)
  | cursorSpec     -- the filter of `find`, kept as `Cursor._spec`
  | cursorProj     -- the projection of `find` (dict or list), kept as `Cursor._projection`
  | cursorSort     -- the sort list of `find`, kept as `Cursor._sort`
  -- cache → cache: what `Cursor.clone()` takes from the cursor it clones
  | cloneSpec      -- its `_spec`
  | cloneProj      -- its `_projection`
  | cloneSort      -- its `_sort`
  -- store → cache: what `Collection._get_dataset` yields, kept by the `Cursor` (`_results`)
  | findDoc        -- a document read without projection
  | projField      -- a field copied by a projection (`_project_by_spec`)
  | projId         -- the `_id` re-attached by a projection
  | projOpStored   -- `$slice` / `$elemMatch` on a field the projection had not copied
  | projOpCopied   -- `$slice` / `$elemMatch` on a field already copied
  -- cache → caller
  | cursorOut      -- a cached document handed out by `next(cursor)` / `cursor[i]` (the first time,
                   -- again after `rewind()`; `find_one` and `find_one_and_*` are `next(find(…))`)
  | distinctVal    -- an embedded document returned by `distinct`
  -- store → caller
  | aggDoc         -- a document entering a pipeline (`$match`, `$sort`, `$skip`, `$limit`, `$group`, `$project`)
  | aggAddFields   -- a document leaving `$addFields` / `$set`
  | aggUnwind      -- a document leaving `$unwind`
  | aggAddItemVal  -- a value of the document that `$addFields` / `$set` puts into an item of an
                   -- array its dotted name goes through (`_add_field`)
  | aggLookup      -- a foreign document `$lookup` / `$graphLookup` puts into an output document
  | insertedId     -- `InsertOneResult.inserted_id` / `InsertManyResult.inserted_ids[i]`
  | upsertedId     -- `UpdateResult.upserted_id`
  -- caller → caller
  | aggLiteral     -- a constant of the pipeline appearing in the output
  | aggAddItemLit  -- … put by `$addFields` / `$set` into an item of an array its dotted name goes
                   -- through
  deriving DecidableEq, Repr, Inhabited

def Pos.all : List Pos :=
  [.insertArg, .insertDoc, .updTemp, .setValDoc, .setValList, .setOnInsertVal, .minMaxVal, .pushVal, .pushEach,
   .addToSetVal, .addToSetEach, .positionalSet, .replaceVal, .upsertSeed, .upsertId, .upsertInsert,
   .rollbackSnapshot, .cursorSpec, .cursorProj, .cursorSort, .cloneSpec, .cloneProj, .cloneSort, .findDoc, .projField, .projId,
   .projOpStored, .projOpCopied, .cursorOut, .distinctVal, .aggDoc, .aggAddFields, .aggUnwind,
   .aggAddItemVal, .aggLookup, .insertedId, .upsertedId, .aggLiteral, .aggAddItemLit]

def Pos.name : Pos → String
  | .insertArg => "insertArg" | .insertDoc => "insertDoc" | .updTemp => "updTemp" | .setValDoc => "setValDoc"
  | .setValList => "setValList" | .setOnInsertVal => "setOnInsertVal" | .minMaxVal => "minMaxVal"
  | .pushVal => "pushVal" | .pushEach => "pushEach" | .addToSetVal => "addToSetVal"
  | .addToSetEach => "addToSetEach" | .positionalSet => "positionalSet"
  | .replaceVal => "replaceVal" | .upsertSeed => "upsertSeed" | .upsertId => "upsertId"
  | .upsertInsert => "upsertInsert" | .rollbackSnapshot => "rollbackSnapshot"
  | .cursorSpec => "cursorSpec" | .cursorProj => "cursorProj" | .cloneSpec => "cloneSpec"
  | .cloneProj => "cloneProj" | .cursorSort => "cursorSort" | .cloneSort => "cloneSort" | .aggAddItemVal => "aggAddItemVal" | .aggLookup => "aggLookup"
  | .aggAddItemLit => "aggAddItemLit"
  | .findDoc => "findDoc" | .projField => "projField" | .projId => "projId"
  | .projOpStored => "projOpStored" | .projOpCopied => "projOpCopied" | .cursorOut => "cursorOut"
  | .distinctVal => "distinctVal" | .aggDoc => "aggDoc" | .aggAddFields => "aggAddFields"
  | .aggUnwind => "aggUnwind" | .insertedId => "insertedId" | .upsertedId => "upsertedId"
  | .aggLiteral => "aggLiteral"

/-- where the value at a position comes from and where it goes -/
inductive Flow where
  | argToStore | storeToStore | argToCache | cacheToCache | storeToCache | cacheToCaller
  | storeToCaller | callerToCaller
  deriving DecidableEq, Repr

def Pos.flow : Pos → Flow
  | .insertArg | .insertDoc | .updTemp | .setValDoc | .setValList | .setOnInsertVal | .minMaxVal
  | .pushVal | .pushEach | .addToSetVal | .addToSetEach | .positionalSet | .replaceVal | .upsertSeed
  | .upsertId | .upsertInsert => .argToStore
  | .rollbackSnapshot => .storeToStore
  | .cursorSpec | .cursorProj | .cursorSort => .argToCache
  | .cloneSpec | .cloneProj | .cloneSort => .cacheToCache
  | .findDoc | .projField | .projId | .projOpStored | .projOpCopied => .storeToCache
  | .cursorOut | .distinctVal => .cacheToCaller
  | .aggDoc | .aggAddFields | .aggUnwind | .aggAddItemVal | .aggLookup | .insertedId
  | .upsertedId => .storeToCaller
  | .aggLiteral | .aggAddItemLit => .callerToCaller

/-- A copy discipline: the primitives applied at each position. -/
structure Table where
  disc : Pos → List Prim

/-- what a `tz_aware` client does once more to everything it reads:
    `helpers.make_datetime_timezone_aware_in_document` rebuilds every dict and list -/
def tzRebuild (tzAware : Bool) : List Prim := if tzAware then [.rebuild] else []

/-- **The table**, read off /repo (mongomock/collection.py unless said otherwise).

    * `_insert` 533: `data = patch_datetime_awareness_in_document(data)`; 541 `store[id] = data`.
    * `_apply_update` 657-658: `spec`/`document` are patched once per call (`updTemp`); 705
      `copy.deepcopy(document)` for every matched document, so every operator operand below is a
      per-document deep copy; `_set_updater` 2052-2053 deep-copies a list once more.
    * `$push … $each` 861-865 `list(value['$each'])`, `$addToSet … $each` 741-743: the elements are
      those of the per-document deep copy.
    * replacement 914 `existing_document.update(self._internalize_dict(document))`, 572-573
      `{k: copy.deepcopy(v)}`.
    * upsert 683-693: `_id` and the seed values are taken from the patched filter / update
      document as they are (`dict(spec, _id=_id)`, `_expand_dots`, `_discard_operators` build new
      dicts around the same values), and 934 `_insert(existing_document)` rebuilds everything.
    * rollback 695 `copy.deepcopy(existing_document)`, 631-632 `self._store[key] = snapshot`.
    * reads: 1176 `_copy_field(doc)`; 239 `_copy_field(val)` inside `_project_by_spec`; 1217
      `doc_copy['_id'] = _copy_field(doc['_id'], container)`; 1114
      `doc_copy[field] = _copy_field(doc[field], dict)`, then 1147 a slice / 1160 `[item]`: a new
      list of the elements of that copy.
    * a query (`find`, `find_one`, `find_one_and_*`, `distinct`) goes through a `Cursor`, which
      KEEPS ITS OWN COPY OF THE QUERY: `Cursor.__init__` 2040 `spec = patch_datetime…(spec)`
      (`cursorSpec`), 2044 `projection = copy.deepcopy(projection)` (`cursorProj`; since the fix "a
      cursor copies the projection it is given" b829c96 — before it the caller's dict was kept and
      read when the results were computed, so editing it after `find` returned changed what the
      cursor gave; 0c1b9e0 also patches the copy: `patch_datetime…(copy.deepcopy(projection))`),
      `sort = copy.deepcopy(sort)` (`cursorSort`; since 0c1b9e0 — before it the caller's list was
      kept and read when the results were computed).  `clone()` builds a new `Cursor` from the
      kept `_spec` / `_sort` / `_projection`, which copies them again (`cloneSpec`, `cloneSort`,
      `cloneProj`).
    * `Cursor._compute_results` 2056-2066 computes `list(self._factory())` once and keeps it
      (`self._results`): the copies listed above land in the cursor's CACHE, not with the caller;
      on a `tz_aware` client each is rebuilt once more (2063
      `make_datetime_timezone_aware_in_document(x)`).  `__next__` and `__getitem__(int)` hand out
      `_copy_field(cached, dict)` (`cursorOut`; since the fix "a cursor hands out a copy of its
      cached result each time" b973460 — before it the cached objects themselves went out, and a
      rewind / an index showed the caller's edits).  `find_one` is `next(self.find(…))`,
      `find_one_and_*` read through `find_one`.
    * `distinct` is `self.find(filter).distinct(key)`; `Cursor.distinct` walks the cache, wraps an
      embedded document in `hashdict(value)` (a new dict around the same children) and returns
      `_copy_field(v, dict)` (b973460; it was `dict(v)`, sharing nested lists with the cache).
    * `aggregate` 1967 rebuilds the pipeline (`patch_datetime_awareness_in_document`, d1da933: the
      caller's pipeline object is never the one the stages see), 1968 `in_collection =
      list(self._get_dataset({}, None, None, dict))` — ONE copy per stored document and no
      `Cursor` (e05c961; it was `[doc for doc in self.find()]`: the cache and the hand-out copy) —
      and, on a `tz_aware` client only, 1970-1972 rebuilds all results once more
      (`make_datetime_timezone_aware_in_document(list(results))`).  aggregate.py 1794
      `dict(doc)` (`$addFields`), 1620/1630 `copy.deepcopy(doc)` (`$unwind`; the unwound item is
      taken out of that copy, 0383ef2); 566 `$literal`: `copy.deepcopy(value)`; 413 an array
      constant is evaluated item by item into new lists / documents (fce7e55).
    * `$addFields` / `$set` with a dotted name, `_add_field` 1806-1820 (1451329): the documents on
      the path are shallow copies, the computed value itself is placed at the end of the path —
      but where the path goes through an ARRAY every item gets `copy.deepcopy(new_value)` 1817
      (`aggAddItemVal` for a value of the document, `aggAddItemLit` for a constant of the
      pipeline; nested arrays: once more per level, which adds nothing for identity).
    * `$lookup` 1351-1352 / `$graphLookup` 1424: the foreign documents come out of
      `foreign_collection.find(…)` (cache, then the hand-out copy) and each is rebuilt once more
      (`patch_datetime_awareness_in_document`, e05c961).
    * 548 `return _copy_field(data['_id'], dict)` — `inserted_id`, `inserted_ids` and (934, 961)
      `upserted_id` are copies of the stored `_id`. -/
def disciplineFor (tzAware : Bool) : Table where
  disc
    | .insertArg => [.noCopy]
    | .insertDoc => [.rebuild]
    | .updTemp => [.rebuild]
    | .setValDoc => [.deepcopy]
    | .setValList => [.deepcopy, .deepcopy]
    | .setOnInsertVal => [.deepcopy]
    | .minMaxVal => [.deepcopy]
    | .pushVal => [.deepcopy]
    | .pushEach => [.deepcopy]
    | .addToSetVal => [.deepcopy]
    | .addToSetEach => [.deepcopy]
    | .positionalSet => [.deepcopy]
    | .replaceVal => [.deepcopy]
    | .upsertSeed => [.noCopy]
    | .upsertId => [.noCopy]
    | .upsertInsert => [.rebuild]
    | .rollbackSnapshot => [.deepcopy]
    | .cursorSpec => [.rebuild]
    | .cursorProj => [.deepcopy, .rebuild]   -- was noCopy: cursor-projection-by-reference, fixed (b829c96); rebuild: 0c1b9e0
    | .cursorSort => [.deepcopy]   -- was noCopy: cursor-sort-by-reference, fixed (0c1b9e0)
    | .cloneSpec => [.rebuild]
    | .cloneProj => [.deepcopy, .rebuild]
    | .cloneSort => [.deepcopy]
    | .findDoc => .copyField :: tzRebuild tzAware
    | .projField => .copyField :: tzRebuild tzAware
    | .projId => .copyField :: tzRebuild tzAware
    | .projOpStored => .copyField :: tzRebuild tzAware
    | .projOpCopied => .copyField :: tzRebuild tzAware
    | .cursorOut => [.copyField]   -- was noCopy: cursor-cache-alias, fixed (b973460)
    | .distinctVal => [.shallow, .copyField]
    | .aggDoc => .copyField :: tzRebuild tzAware
    | .aggAddFields => [.copyField, .shallow] ++ tzRebuild tzAware
    | .aggUnwind => [.copyField, .deepcopy] ++ tzRebuild tzAware
    | .aggAddItemVal => [.copyField, .deepcopy] ++ tzRebuild tzAware
    | .aggLookup => (.copyField :: tzRebuild tzAware) ++ [.copyField, .rebuild] ++ tzRebuild tzAware
    | .insertedId => [.copyField]
    | .upsertedId => [.copyField]
    | .aggLiteral => [.rebuild, .deepcopy] ++ tzRebuild tzAware   -- was noCopy: agg-literal-alias, fixed (aab0261); rebuild: d1da933
    | .aggAddItemLit => [.rebuild, .deepcopy, .deepcopy] ++ tzRebuild tzAware

/-- the table of a client that reads naive datetimes (the default) -/
def copyDiscipline : Table := disciplineFor false

/-- the positions at which a table does not copy -/
def Table.aliasing (T : Table) : List Pos := Pos.all.filter (fun p => !chainDeep (T.disc p))

/-! ### The world -/

/-- What is stored (one tree per document), what the caller holds (every argument ever passed and
    every result ever returned), what the caller's cursors keep (`Cursor._results`: one tree per
    cached result, and their copies of the query, `Cursor._spec` / `_sort` / `_projection`; all cursors one
    after the other; the caller holds the cursors, not these objects) and the next unused
    identity. -/
structure World where
  store : List HVal
  held : List HVal
  cache : List HVal := []
  next : Nat
  deriving Inhabited

def World.empty : World := ⟨[], [], [], 0⟩

/-- where a travelling value is taken from -/
inductive Src where
  | store (i : Nat) (p : List Nat)   -- sub-value at path `p` of the `i`-th stored document
  | held (i : Nat) (p : List Nat)    -- … of the `i`-th object the caller holds
  | temp (i : Nat) (p : List Nat)    -- … of the `i`-th temporary of the running call
  | cache (i : Nat) (p : List Nat)   -- … of the `i`-th result a cursor has cached
  deriving Repr, Inhabited

structure Env where
  store : List HVal
  held : List HVal
  temps : List HVal
  cache : List HVal

def getAt (l : List HVal) (i : Nat) (p : List Nat) : HVal :=
  match l[i]? with
  | some v => subAt p v
  | none => .atom .null

def Src.get (e : Env) : Src → HVal
  | .store i p => getAt e.store i p
  | .held i p => getAt e.held i p
  | .temp i p => getAt e.temps i p
  | .cache i p => getAt e.cache i p

/-- the value is taken out of what the library keeps (the store, a cursor's cache) -/
def Src.fromLib : Src → Bool
  | .store .. | .cache .. => true
  | _ => false

/-- How a value that enters the store / goes to the caller is assembled: constants, values that
    travel through a position of the table, and containers the call builds itself. -/
inductive Tpl where
  | atom (v : Val)
  | piece (pos : Pos) (src : Src)
  | node (isDoc : Bool) (kids : List (String × Tpl))
  deriving Inhabited

mutual
  def evalTpl (T : Table) (e : Env) : Tpl → Nat → HVal × Nat
    | .atom v, n => (.atom v, n)
    | .piece pos src, n => runChain (T.disc pos) (src.get e) n
    | .node d kids, n => (.node n d (evalTplKids T e kids (n + 1)).1, (evalTplKids T e kids (n + 1)).2)
  def evalTplKids (T : Table) (e : Env) : List (String × Tpl) → Nat → Kids × Nat
    | [], n => ([], n)
    | (k, t) :: r, n =>
      ((k, (evalTpl T e t n).1) :: (evalTplKids T e r (evalTpl T e t n).2).1,
       (evalTplKids T e r (evalTpl T e t n).2).2)
end

def evalTpls (T : Table) (e : Env) : List Tpl → Nat → List HVal × Nat
  | [], n => ([], n)
  | t :: r, n => ((evalTpl T e t n).1 :: (evalTpls T e r (evalTpl T e t n).2).1,
                  (evalTpls T e r (evalTpl T e t n).2).2)

/-! ### In-place edits of a stored document -/

/-- which of the old children stay, and under which key (`none` = dropped; children beyond the
    list stay as they are).  Covers `del`, `pop`, `remove`, `$rename` (same child, new key) and
    the filtered re-listings of `$pull` / `$pullAll` / `$pop` / `$push … $slice`. -/
def keepKids : Kids → List (Option String) → Kids
  | [], _ => []
  | kv :: r, [] => kv :: r
  | _ :: r, none :: ks => keepKids r ks
  | kv :: r, some k :: ks => (k, kv.2) :: keepKids r ks

/-- One edit of one container of a stored document (every updater of `_apply_update` has this
    shape): the container at `path` keeps some of its children and receives new ones; `renew`
    says the container object itself is replaced by a new one holding them
    (`subdocument[field] = push_results[…] + list(…)`, `doc[field] = list(doc[field])`,
    `existing_document[field] = [obj for obj in arr if …]`).  Order of children is not modelled
    (it does not concern identity). -/
structure NodeEdit where
  path : List Nat
  renew : Bool
  keep : List (Option String)
  add : List (String × Tpl)

/-- apply `f` to the sub-value at a path (nothing happens when the path leaves the value) -/
def modifyAt (f : HVal → Nat → HVal × Nat) : List Nat → HVal → Nat → HVal × Nat
  | [], v, n => f v n
  | i :: p, .node id d kids, n =>
    match kids[i]? with
    | some kv => (.node id d (kids.set i (kv.1, (modifyAt f p kv.2 n).1)), (modifyAt f p kv.2 n).2)
    | none => (.node id d kids, n)
  | _ :: _, .atom v, n => (.atom v, n)

def nodeEdit (T : Table) (e : Env) (ed : NodeEdit) : HVal → Nat → HVal × Nat
  | .atom v, n => (.atom v, n)
  | .node id d kids, n =>
    (.node (if ed.renew then (evalTplKids T e ed.add n).2 else id) d
        (keepKids kids ed.keep ++ (evalTplKids T e ed.add n).1),
     if ed.renew then (evalTplKids T e ed.add n).2 + 1 else (evalTplKids T e ed.add n).2)

def editDoc (T : Table) (e : Env) (ed : NodeEdit) : HVal → Nat → HVal × Nat :=
  modifyAt (nodeEdit T e ed) ed.path

/-- edits, one after the other, each on the stored document with the given index -/
def applyEdits (T : Table) (e : Env) : List (Nat × NodeEdit) → List HVal → Nat → List HVal × Nat
  | [], st, n => (st, n)
  | ie :: r, st, n =>
    match st[ie.1]? with
    | some d => applyEdits T e r (st.set ie.1 (editDoc T e ie.2 d n).1) (editDoc T e ie.2 d n).2
    | none => applyEdits T e r st n

/-- documents assembled by the call and then sent through a position (insert, upsert, rollback) -/
def evalNewDocs (T : Table) (e : Env) : List (Tpl × Pos) → Nat → List HVal × Nat
  | [], n => ([], n)
  | tp :: r, n =>
    ((runChain (T.disc tp.2) (evalTpl T e tp.1 n).1 (evalTpl T e tp.1 n).2).1 ::
       (evalNewDocs T e r (runChain (T.disc tp.2) (evalTpl T e tp.1 n).1 (evalTpl T e tp.1 n).2).2).1,
     (evalNewDocs T e r (runChain (T.disc tp.2) (evalTpl T e tp.1 n).1 (evalTpl T e tp.1 n).2).2).2)

/-- temporaries of a call: an argument (a held object) sent through a position once per call -/
def evalTemps (T : Table) (held : List HVal) : List (Pos × Nat × List Nat) → Nat → List HVal × Nat
  | [], n => ([], n)
  | t :: r, n =>
    ((runChain (T.disc t.1) (getAt held t.2.1 t.2.2) n).1 ::
       (evalTemps T held r (runChain (T.disc t.1) (getAt held t.2.1 t.2.2) n).2).1,
     (evalTemps T held r (runChain (T.disc t.1) (getAt held t.2.1 t.2.2) n).2).2)

/-- remove the stored documents with the given indexes -/
def dropIdxFrom (del : List Nat) : Nat → List HVal → List HVal
  | _, [] => []
  | i, v :: r => if del.contains i then dropIdxFrom del (i + 1) r else v :: dropIdxFrom del (i + 1) r

/-! ### Mutation by identity -/

mutual
  /-- rewrite the node with identity `id` wherever it occurs in a value -/
  def mutate (id : Nat) (f : HVal → HVal) : HVal → HVal
    | .atom v => .atom v
    | .node i d kids => if i = id then f (.node i d kids) else .node i d (mutateKids id f kids)
  def mutateKids (id : Nat) (f : HVal → HVal) : Kids → Kids
    | [] => []
    | (k, v) :: r => (k, mutate id f v) :: mutateKids id f r
end

def mutateL (id : Nat) (f : HVal → HVal) : List HVal → List HVal
  | [] => []
  | v :: r => mutate id f v :: mutateL id f r

/-- `mutate id f` on the whole world: the node with that identity is rewritten wherever it
    occurs — in the caller's objects and, if it is shared, in the stored documents and in what
    the cursors have cached. -/
def World.mutate (id : Nat) (f : HVal → HVal) (w : World) : World :=
  { w with store := mutateL id f w.store, held := mutateL id f w.held,
           cache := mutateL id f w.cache }

/-- what a caller (or a callee writing into an argument) does to a container it holds: drop or
    re-key children, add scalar children -/
def scribbleFn (keep : List (Option String)) (add : List (String × Val)) : HVal → HVal
  | .atom v => .atom v
  | .node i d kids => .node i d (keepKids kids keep ++ add.map (fun kv => (kv.1, HVal.atom kv.2)))

def maxIdL (vs : List HVal) : Nat := (idsL vs).foldl max 0

/-! ### Steps -/

/-- An API call is a short sequence of steps (`find_one_and_update` = read, write, read; an
    `insert_one` = pass, calleeWrite of `_id`, write, read of `inserted_id`). -/
inductive Step where
  /-- the caller passes objects (newly built or already held): they count as held from now on -/
  | pass (args : List HVal)
  /-- the call edits an ARGUMENT in place (`data['_id'] = ObjectId()`, `fields.pop('_id')`) -/
  | calleeWrite (id : Nat) (keep : List (Option String)) (add : List (String × Val))
  /-- the caller edits an object it holds -/
  | scribble (id : Nat) (keep : List (Option String)) (add : List (String × Val))
  /-- a write: temporaries, in-place edits of stored documents, new documents, deletions -/
  | write (temps : List (Pos × Nat × List Nat)) (edits : List (Nat × NodeEdit))
      (newDocs : List (Tpl × Pos)) (deletes : List Nat)
  /-- a cursor computes its results (`Cursor._compute_results`): they are assembled and KEPT by
      the cursor -/
  | fill (results : List Tpl)
  /-- a read: results are assembled and handed to the caller -/
  | read (results : List Tpl)

def step (T : Table) (w : World) : Step → World
  | .pass args => { w with held := w.held ++ args, next := max w.next (maxIdL args + 1) }
  | .calleeWrite id keep add => w.mutate id (scribbleFn keep add)
  | .scribble id keep add => w.mutate id (scribbleFn keep add)
  | .write temps edits newDocs deletes =>
    let tv := evalTemps T w.held temps w.next
    let e : Env := ⟨w.store, w.held, tv.1, w.cache⟩
    let ed := applyEdits T e edits w.store tv.2
    let nd := evalNewDocs T e newDocs ed.2
    { store := dropIdxFrom deletes 0 ed.1 ++ nd.1, held := w.held, cache := w.cache, next := nd.2 }
  | .fill results =>
    let e : Env := ⟨w.store, w.held, [], w.cache⟩
    let r := evalTpls T e results w.next
    { store := w.store, held := w.held, cache := w.cache ++ r.1, next := r.2 }
  | .read results =>
    let e : Env := ⟨w.store, w.held, [], w.cache⟩
    let r := evalTpls T e results w.next
    { store := w.store, held := w.held ++ r.1, cache := w.cache, next := r.2 }

def run (T : Table) (w : World) : List Step → World
  | [] => w
  | s :: r => run T (step T w s) r

/-! ### The invariant -/

/-- **Separation**: no object occurs twice in the store (neither in two documents nor twice in
    one), nothing stored is held by the caller, and nothing a cursor has cached is held by the
    caller or stored. -/
def Sep (w : World) : Prop :=
  (idsL w.store).Nodup ∧ (∀ a, a ∈ idsL w.store → a ∉ idsL w.held) ∧
  (∀ a, a ∈ idsL w.cache → a ∉ idsL w.held ∧ a ∉ idsL w.store)

/-- every identity in use is below the counter (so "fresh" means fresh) -/
def Bounded (w : World) : Prop :=
  (∀ a, a ∈ idsL w.store → a < w.next) ∧ (∀ a, a ∈ idsL w.held → a < w.next) ∧
  (∀ a, a ∈ idsL w.cache → a < w.next)

instance (w : World) : Decidable (Sep w) := by unfold Sep; exact inferInstance
instance (w : World) : Decidable (Bounded w) := by unfold Bounded; exact inferInstance

/-! ### Which steps the theorem covers -/

mutual
  /-- every travelling value either goes through a deep copy or is a scalar -/
  def Tpl.copied (T : Table) (e : Env) : Tpl → Bool
    | .atom _ => true
    | .piece pos src => chainDeep (T.disc pos) || (src.get e).isAtom
    | .node _ kids => Tpl.copiedKids T e kids
  def Tpl.copiedKids (T : Table) (e : Env) : List (String × Tpl) → Bool
    | [] => true
    | (_, t) :: r => Tpl.copied T e t && Tpl.copiedKids T e r
end

mutual
  /-- for a RESULT it is enough that nothing comes uncopied out of the STORE or a cursor's CACHE -/
  def Tpl.detached (T : Table) (e : Env) : Tpl → Bool
    | .atom _ => true
    | .piece pos src => chainDeep (T.disc pos) || (src.get e).isAtom || !src.fromLib
    | .node _ kids => Tpl.detachedKids T e kids
  def Tpl.detachedKids (T : Table) (e : Env) : List (String × Tpl) → Bool
    | [] => true
    | (_, t) :: r => Tpl.detached T e t && Tpl.detachedKids T e r
end

mutual
  /-- results never name a temporary -/
  def Tpl.noTemp : Tpl → Bool
    | .atom _ => true
    | .piece _ (.temp ..) => false
    | .piece _ _ => true
    | .node _ kids => Tpl.noTempKids kids
  def Tpl.noTempKids : List (String × Tpl) → Bool
    | [] => true
    | (_, t) :: r => Tpl.noTemp t && Tpl.noTempKids r
end

/-- The steps covered by the separation theorem under table `T`, in world `w`: every value that
    enters the store or a cursor's cache has been deep-copied on the way (or is a scalar), every
    value that leaves the store or a cache likewise; arguments are objects of the caller (held
    already, or new). -/
def Step.safe (T : Table) (w : World) : Step → Bool
  | .pass args => (idsL args).all (fun a => (idsL w.held).contains a || decide (w.next ≤ a))
  | .calleeWrite .. => true
  | .scribble .. => true
  | .write temps edits newDocs _ =>
    let e : Env := ⟨w.store, w.held, (evalTemps T w.held temps w.next).1, w.cache⟩
    edits.all (fun ie => Tpl.copiedKids T e ie.2.add) &&
    newDocs.all (fun tp => chainDeep (T.disc tp.2) || Tpl.copied T e tp.1)
  | .fill results =>
    let e : Env := ⟨w.store, w.held, [], w.cache⟩
    results.all (fun t => Tpl.copied T e t && Tpl.noTemp t)
  | .read results =>
    let e : Env := ⟨w.store, w.held, [], w.cache⟩
    results.all (fun t => Tpl.detached T e t && Tpl.noTemp t)

/-- every step of a history is covered, each in the world it runs in -/
def safeRun (T : Table) (w : World) : List Step → Bool
  | [] => true
  | s :: r => s.safe T w && safeRun T (step T w s) r

/-! ### API operations and their rows of the table -/

/-- the entry points (an upsert that inserts and a read with a projection are listed apart,
    because they use further positions) -/
inductive Op where
  | insertOne | insertMany
  | updateOne | updateMany | replaceOne
  | updateUpsert | replaceUpsert            -- the call created a document
  | deleteOne | deleteMany | countDocuments
  | find | findOne                          -- no projection
  | findProjected                           -- find / find_one with a projection
  | findOneAndUpdate | findOneAndReplace | findOneAndDelete          -- no projection, no upsert
  | findOneAndProjected                     -- find_one_and_* with a projection
  | findOneAndUpsert                        -- find_one_and_update/replace that created a document
  | distinct | aggregate
  -- what a `Cursor` the caller keeps hands out (the first use computes and caches the results)
  | cursorNext                              -- `next(cursor)` / iterating it: the first time, again
                                            -- after `rewind()`, on a `clone()`
  | cursorIndex                             -- `cursor[i]`
  | cursorDistinct                          -- `cursor.distinct(key)`
  deriving DecidableEq, Repr, Inhabited

def Op.all : List Op :=
  [.insertOne, .insertMany, .updateOne, .updateMany, .replaceOne, .updateUpsert, .replaceUpsert,
   .deleteOne, .deleteMany, .countDocuments, .find, .findOne, .findProjected, .findOneAndUpdate,
   .findOneAndReplace, .findOneAndDelete, .findOneAndProjected, .findOneAndUpsert, .distinct,
   .aggregate, .cursorNext, .cursorIndex, .cursorDistinct]

def Op.name : Op → String
  | .insertOne => "insert_one" | .insertMany => "insert_many" | .updateOne => "update_one"
  | .updateMany => "update_many" | .replaceOne => "replace_one" | .updateUpsert => "update_upsert"
  | .replaceUpsert => "replace_upsert" | .deleteOne => "delete_one" | .deleteMany => "delete_many"
  | .countDocuments => "count_documents" | .find => "find" | .findOne => "find_one"
  | .findProjected => "find_projected" | .findOneAndUpdate => "find_one_and_update"
  | .findOneAndReplace => "find_one_and_replace" | .findOneAndDelete => "find_one_and_delete"
  | .findOneAndProjected => "find_one_and_projected" | .findOneAndUpsert => "find_one_and_upsert"
  | .distinct => "distinct" | .aggregate => "aggregate" | .cursorNext => "cursor_next"
  | .cursorIndex => "cursor_index" | .cursorDistinct => "cursor_distinct"

def updateRows : List Pos :=
  [.updTemp, .setValDoc, .setValList, .minMaxVal, .pushVal, .pushEach, .addToSetVal, .addToSetEach,
   .positionalSet, .rollbackSnapshot]
def replaceRows : List Pos := [.updTemp, .replaceVal, .rollbackSnapshot]
def upsertRows : List Pos := [.setOnInsertVal, .upsertSeed, .upsertId, .upsertInsert, .upsertedId]
def projRows : List Pos := [.findDoc, .projField, .projId, .projOpStored, .projOpCopied]
/-- a read makes a cursor, which keeps its copy of the query, and hands out what it has cached -/
def readRows : List Pos := [.cursorSpec, .cursorSort, .findDoc, .cursorOut]
def projReadRows : List Pos := [.cursorSpec, .cursorSort, .cursorProj] ++ projRows ++ [.cursorOut]
/-- a cursor the caller keeps: a `clone()` copies the query again -/
def cursorRows : List Pos := [.cloneSpec, .cloneSort, .cloneProj] ++ projRows

/-- the positions an operation can use -/
def Op.rows : Op → List Pos
  | .insertOne | .insertMany => [.insertArg, .insertDoc, .insertedId]
  | .updateOne | .updateMany => updateRows
  | .replaceOne => replaceRows
  | .updateUpsert => updateRows ++ upsertRows
  | .replaceUpsert => replaceRows ++ upsertRows
  | .deleteOne | .deleteMany | .countDocuments => [.updTemp]
  | .find | .findOne => readRows
  | .findProjected => projReadRows
  | .findOneAndUpdate => readRows ++ updateRows
  | .findOneAndReplace => readRows ++ replaceRows
  | .findOneAndDelete => readRows ++ [.updTemp]
  | .findOneAndProjected => projReadRows ++ updateRows ++ replaceRows
  | .findOneAndUpsert => readRows ++ (updateRows ++ replaceRows ++ upsertRows)
  | .distinct => [.cursorSpec, .findDoc, .distinctVal]
  | .aggregate => [.aggDoc, .aggAddFields, .aggUnwind, .aggAddItemVal, .aggLookup, .aggLiteral,
                   .aggAddItemLit]
  | .cursorNext | .cursorIndex => cursorRows ++ [.cursorOut]
  | .cursorDistinct => cursorRows ++ [.distinctVal]

/-- positions whose value lands directly in the store / with the caller (the others feed an
    assembly that goes through a further position: the temporaries of an update, the seed of an
    upsert) -/
def Pos.final : Pos → Bool
  | .insertArg | .updTemp | .upsertSeed | .upsertId => false
  | _ => true

/-- **An operation copies at every position**: every final position of its row carries a deep
    copy. -/
def Op.copying (T : Table) (op : Op) : Bool :=
  op.rows.all (fun p => !p.final || chainDeep (T.disc p))

/-- what a call does to the objects it is given (collection.py 530-531; 1184 `fields =
    dict(fields)`: the projection dictionary is worked on in a copy) -/
inductive ArgFx where
  | untouched
  | addsId          -- insert: `data['_id'] = ObjectId()` when the document has none
  deriving DecidableEq, Repr

inductive ArgRole where
  | document | filter | update | replacement | projection | sort | pipeline | key
  deriving DecidableEq, Repr

def argEffect : Op → ArgRole → ArgFx
  | .insertOne, .document | .insertMany, .document => .addsId
  | _, _ => .untouched

/-! ### steps that stay within given rows -/

def Src.okFor : Src → Flow → Bool
  | .store .., .storeToCaller | .store .., .storeToStore | .store .., .storeToCache => true
  | .cache .., .cacheToCaller | .cache .., .cacheToCache => true
  | .held .., .callerToCaller | .held .., .argToStore | .held .., .argToCache => true
  | .temp .., .argToStore => true
  | _, _ => false

mutual
  /-- every travelling value of the template uses a position of `ps`, takes its value from where
      that position says, and is not an intermediate position -/
  def Tpl.within (ps : List Pos) : Tpl → Bool
    | .atom _ => true
    | .piece pos src => ps.contains pos && src.okFor pos.flow
    | .node _ kids => Tpl.withinKids ps kids
  def Tpl.withinKids (ps : List Pos) : List (String × Tpl) → Bool
    | [] => true
    | (_, t) :: r => Tpl.within ps t && Tpl.withinKids ps r
end

/-- the step only uses positions of `ps` (new documents: only their last position counts, what
    they are assembled from is covered by it) -/
def Step.within (ps : List Pos) : Step → Bool
  | .write _ edits newDocs _ =>
    edits.all (fun ie => Tpl.withinKids ps ie.2.add) && newDocs.all (fun tp => ps.contains tp.2)
  | .fill results => results.all (fun t => Tpl.within ps t && Tpl.noTemp t)
  | .read results => results.all (fun t => Tpl.within ps t && Tpl.noTemp t)
  | _ => true

/-- arguments are objects of the caller: already held, or new -/
def Step.callerOwns (w : World) : Step → Bool
  | .pass args => (idsL args).all (fun a => (idsL w.held).contains a || decide (w.next ≤ a))
  | _ => true

/-- the final positions of the table -/
def finalPositions : List Pos := Pos.all.filter Pos.final

/-- A step is WELL-FORMED when it only names final positions, takes each travelling value from
    where its position says (store → caller and store → cache positions from the store, cache →
    caller positions from a cursor's cache, caller → caller positions from held objects, …), and
    results name no temporary.  No condition on the table, and none on which position is used
    where. -/
def Step.wellFormed (s : Step) : Bool := s.within finalPositions

/-- every step of a history is well-formed and passes only objects of the caller -/
def wfRun (T : Table) (w : World) : List Step → Bool
  | [] => true
  | s :: r => s.wellFormed && s.callerOwns w && wfRun T (step T w s) r

/-! ### which position each field of a projected result travels through

  The control flow of `Collection._copy_only_fields` (collection.py:1171-1222) and
  `_apply_projection_operators` (1108-1169), as far as it decides WHICH copy a field of the
  result went through.  (What the projected value is, is the business of C12.) -/

structure FieldFlow where
  key : String
  pos : Pos
  /-- the field is a NEW list (a slice / `[item]`) whose element objects travelled through `pos`;
      otherwise the field object itself did -/
  elems : Bool
  deriving Repr

def ffHas (k : String) (l : List FieldFlow) : Bool := l.any (·.key == k)
def ffErase (k : String) (l : List FieldFlow) : List FieldFlow := l.filter (·.key != k)

/-- `fields_list_to_dict` for a list of names -/
def projAsDoc : Val → Option Fields
  | .doc fs => some fs
  | .arr xs => some (xs.filterMap (fun x => match x with | .str s => some (s, Val.int 1) | _ => none))
  | _ => none

def distinctVals : List Val → List Val
  | [] => []
  | v :: r => if (distinctVals r).any (pyEq · v) then distinctVals r else v :: distinctVals r

def sliceArgOk : Val → Option Bool
  | .arr [.int _, .int _] => some true
  | .arr [_, _] => none              -- non-integer skip / limit: not modelled
  | .arr _ => some false
  | .int _ => some true
  | .bool _ => some true
  | _ => some false

/-- one projection operator field (1110-1169) -/
def projOpFlow (doc : Fields) (acc : List FieldFlow) (field : String) (op : Fields) :
    R (List FieldFlow) :=
  let present := ffHas field acc
  match (if present then some (Pos.projOpCopied) else if dhas field doc then some Pos.projOpStored else none) with
  | none => .ok acc
  | some pos =>
    let val := (dget field doc).getD .null
    let hasSlice := dhas "$slice" op
    let hasEM := dhas "$elemMatch" op
    let rest := ffErase field acc
    if hasSlice && !val.isArr then .error .opFail
    else if hasSlice && sliceArgOk ((dget "$slice" op).getD .null) == none then .error .unmodelled
    else if hasSlice && sliceArgOk ((dget "$slice" op).getD .null) == some false then .error .opFail
    else if hasEM && !val.isArr then .ok rest
    else if hasSlice || hasEM then .ok (rest ++ [⟨field, pos, true⟩])
    else .ok (rest ++ [⟨field, pos, false⟩])

def projOpsFlow (doc : Fields) : List (String × Fields) → List FieldFlow → R (List FieldFlow)
  | [], acc => .ok acc
  | (f, op) :: r, acc =>
    match projOpFlow doc acc f op with
    | .ok acc' => projOpsFlow doc r acc'
    | .error e => .error e

def projFlows (proj : Option Val) (doc : Fields) : R (List FieldFlow) :=
  let whole : List FieldFlow := doc.map (fun kv => ⟨kv.1, .findDoc, false⟩)
  match proj with
  | none => .ok whole
  | some pv =>
    match projAsDoc pv with
    | none => .error .unmodelled
    | some [] => .ok whole
    | some fields =>
      let idv := (dget "_id" fields).getD (.int 1)
      let fields' := derase "_id" fields
      let ops := fields'.filterMap (fun kv => match kv.2 with | .doc o => some (kv.1, o) | _ => none)
      let rest := fields'.filter (fun kv => !kv.2.isDoc)
      if ops.any (fun fo => fo.2.any (fun kv => kv.1 != "$elemMatch" && kv.1 != "$slice")) then
        .error .valueErr
      else if rest.any (fun kv => kv.2.isArr) then .error .typeErr
      else if (distinctVals (rest.map (·.2))).length > 1 then .error .valueErr
      else if rest.any (fun kv => (splitDots kv.1).contains "$") then .error .unmodelled
      else
        let isInclude := match rest with | kv :: _ => kv.2.truthy | [] => false
        let plain (k : String) : Bool := rest.any (fun kv => kv.1 == k)
        let dotted (k : String) : Bool := rest.any (fun kv => (splitDots kv.1).length > 1 &&
          (splitDots kv.1).head? == some k)
        if doc.any (fun kv => plain kv.1 && dotted kv.1) || rest.any (fun kv => plain kv.1 && dotted kv.1) then
          .error .opFail
        else
          let base : List FieldFlow :=
            if rest.isEmpty then
              (if pyEq idv (.int 1) then [] else doc.map (fun kv => ⟨kv.1, .projField, false⟩))
            else doc.filterMap (fun kv =>
              if dotted kv.1 then
                (if kv.2.isArr || kv.2.isDoc then some ⟨kv.1, .projField, false⟩ else none)
              else if (isInclude && plain kv.1) || (!isInclude && !plain kv.1) then
                some ⟨kv.1, .projField, false⟩
              else none)
          let withId : List FieldFlow :=
            if pyEq idv (.int 0) then ffErase "_id" base
            else if dhas "_id" doc then ffErase "_id" base ++ [⟨"_id", .projId, false⟩]
            else base
          projOpsFlow doc ops withId

end MongoModel.Heap
