/-
  MongoModel.Sort — natural order, sort, skip and limit (property C11), followed line by line
  (line numbers of the tree at the time of writing; the functions are named):

    filtering.resolve_key / resolve_sort_key / BsonComparable   mongomock/filtering.py:521-551
    Collection._get_dataset                                      mongomock/collection.py:1076-1093
    Cursor (__init__, _compute_results, sort/skip/limit,
            __getitem__, clone, rewind)                          mongomock/collection.py:1890-2052
    Collection.count_documents (skip/limit arithmetic)           mongomock/collection.py:1473-1498
    Collection.aggregate, $sort / $skip / $limit stages          mongomock/collection.py:1812,
                                                                 mongomock/aggregate.py:1367-1376,1621,1635
    CollectionStore._documents (OrderedDict = natural order)     mongomock/store.py:67,121-127,135-139

  Core Lean only.
-/
import MongoModel.Bson

namespace MongoModel

/-! ### Python's `sorted` as THE stable sort

`sorted(xs, key=k)` only ever asks `k(a) < k(b)`.  On inputs on which `<` is a strict weak order
every stable sorting algorithm returns the same list (`Props.C11.stable_sort_unique`), so timsort
is modelled by the simplest one: insertion sort. -/

/-- insert `x` in front of the first element that is not smaller than it (`x` stood *before*
    the elements of the list, so it stays before its ties) -/
def insertBy {α} (lt : α → α → Bool) (x : α) : List α → List α
  | [] => [x]
  | y :: ys => if lt y x then y :: insertBy lt x ys else x :: y :: ys

/-- stable insertion sort by the strict comparison `lt` -/
def isort {α} (lt : α → α → Bool) : List α → List α
  | [] => []
  | x :: xs => insertBy lt x (isort lt xs)

def isOk {α} : R α → Bool
  | .ok _ => true
  | .error _ => false

def okTrue : R Bool → Bool
  | .ok true => true
  | _ => false

/-- a Python exception (not the model's "not expressed") -/
def isRaise {α} : R α → Bool
  | .ok _ => false
  | .error .unmodelled => false
  | .error _ => true

/-- every comparison between two positions of the list (in either direction) succeeds -/
def pairsOk {α} (lt : α → α → R Bool) : List α → Bool
  | [] => true
  | x :: xs => xs.all (fun y => isOk (lt x y) && isOk (lt y x)) && pairsOk lt xs

/-- every comparison between two positions of the list raises -/
def pairsFail {α} (lt : α → α → R Bool) : List α → Bool
  | [] => true
  | x :: xs => xs.all (fun y => isRaise (lt x y) && isRaise (lt y x)) && pairsFail lt xs

/-- `sorted(xs, key=…, reverse=…)` where the comparison of two keys may raise.
    * all comparisons defined: the stable sort; `reverse=True` is CPython's
      "reverse, sort, reverse" (`list.sort`, Objects/listobject.c), which keeps ties in their
      original order;
    * all comparisons raise (and there are at least two elements, otherwise `pairsOk` holds):
      any sorting algorithm performs at least one → `TypeError`;
    * some raise, some do not: whether timsort happens to perform a raising comparison depends
      on its internals — not modelled; neither is a sort in which some comparison is one the
      model does not express (the order of two library-generated ObjectIds). -/
def pySorted {α} (lt : α → α → R Bool) (reverse : Bool) (xs : List α) : R (List α) :=
  if pairsOk lt xs then
    .ok (if reverse then (isort (fun a b => okTrue (lt a b)) xs.reverse).reverse
         else isort (fun a b => okTrue (lt a b)) xs)
  else if pairsFail lt xs then .error .typeErr
  else unmodelled

/-! ### sort keys: `resolve_sort_key`, `BsonComparable.__lt__` -/

/-- the Python tuple `(int, BsonComparable(obj))` -/
structure SortKey where
  rank : Nat
  val : Val
  deriving Repr, Inhabited

/-- `resolve_key`: `next(iter(iter_key_candidates(key, doc)), NOTHING)` (no longer used by the
    sort) -/
def resolveKey (key : String) (d : Val) : R (Option Val) :=
  match candsKey key d with
  | .error e => .error e
  | .ok [] => .ok none
  | .ok (c :: _) => .ok c

/-- the body of the loop of `resolve_sort_key` (filtering.py:525-541): what one reached value
    contributes to `sort_keys` — NOTHING → `(1, None)`; a list → `(0, None)` when empty, else one
    `(1, item)` per item; anything else → `(1, value)` -/
def candSortKeys : Option Val → List SortKey
  | none => [⟨1, .null⟩]
  | some (.arr []) => [⟨0, .null⟩]
  | some (.arr xs) => xs.map (fun x => ⟨1, x⟩)
  | some v => [⟨1, v⟩]

/-- `(i, BsonComparable(a)) < (j, BsonComparable(b))`: tuple comparison — the ints decide when
    they differ (`BsonComparable` defines no `__eq__`, two distinct wrappers are never `==`), else
    `BsonComparable.__lt__` = `bson_compare(operator.lt, a, b)` -/
def keyLt (a b : SortKey) : R Bool :=
  if a.rank ≠ b.rank then .ok (decide (a.rank < b.rank))
  else bsonCompare .lt a.val b.val true

/-- `min(sort_keys)` (`reverse = false`: `if item < best: best = item`) and `max(sort_keys)`
    (`reverse = true`: `if item > best: best = item`, where `item > best` on these tuples is
    `best < item` through the reflected `BsonComparable.__lt__`); a comparison that raises makes
    the whole key computation raise -/
def pickSortKey (reverse : Bool) : SortKey → List SortKey → R SortKey
  | best, [] => .ok best
  | best, k :: r =>
    match (if reverse then keyLt best k else keyLt k best) with
    | .error e => .error e
    | .ok b => pickSortKey reverse (if b then k else best) r

/-- `resolve_sort_key(key, doc, reverse)`: the smallest (largest when `reverse`) of the keys of
    all reached values; nothing reached → `(1, None)` -/
def resolveSortKey (key : String) (reverse : Bool) (d : Val) : R SortKey :=
  match candsKey key d with
  | .error e => .error e
  | .ok cs =>
    match cs.flatMap candSortKeys with
    | [] => .ok ⟨1, .null⟩
    | k :: r => pickSortKey reverse k r

def Val.isScalar : Val → Bool
  | .doc _ | .arr _ => false
  | _ => true

/-- key values on which `bson_compare` is followed by the model as a strict weak order whenever
    it does not raise: scalars and flat documents of scalars.  (On deeper values Python's `==`
    skips items that BSON distinguishes — `[true]` against `[1]` — and `<` need not be
    transitive, so the outcome of timsort is not determined by the order alone.) -/
def keyShallow : Val → Bool
  | .doc fs => fs.all (fun kv => kv.2.isScalar)
  | .arr _ => false
  | _ => true

def mapR {α β} (f : α → R β) : List α → R (List β)
  | [] => .ok []
  | x :: xs =>
    match f x with
    | .error e => .error e
    | .ok y =>
      match mapR f xs with
      | .error e => .error e
      | .ok ys => .ok (y :: ys)

/-- the comparison `sorted` performs between two documents under one sort key -/
def docKeyLt (key : String) (reverse : Bool) (a b : Val) : R Bool :=
  match resolveSortKey key reverse a, resolveSortKey key reverse b with
  | .ok ka, .ok kb => keyLt ka kb
  | .error e, _ => .error e
  | _, .error e => .error e

/-- `sorted(dataset, key=lambda x: resolve_sort_key(sort_key, x, reverse), reverse=reverse)`: all
    keys are computed first (decorate), then compared -/
def sortedByKey (key : String) (reverse : Bool) (docs : List Val) : R (List Val) :=
  match mapR (resolveSortKey key reverse) docs with
  | .error e => .error e
  | .ok ks =>
    if !(ks.all (fun k => keyShallow k.val)) then unmodelled
    else pySorted (docKeyLt key reverse) reverse docs

/-! ### `_get_dataset`, `$sort` -/

abbrev SortSpec := List (String × Int)

/-- `sort_key.startswith('$')` -/
def startsWithDollar (s : String) : Bool :=
  match s.toList with
  | c :: _ => c == '$'
  | [] => false

/-- one round of the loop of `_get_dataset` -/
def applySortKey (kd : String × Int) (docs : List Val) : R (List Val) :=
  if kd.1 = "$natural" then .ok (if kd.2 < 0 then docs.reverse else docs)
  else if startsWithDollar kd.1 then .error .notImpl
  else sortedByKey kd.1 (decide (kd.2 < 0)) docs

def bindR {α β} (x : R α) (f : α → R β) : R β :=
  match x with
  | .error e => .error e
  | .ok a => f a

/-- `for sort_key, sort_direction in reversed(sort)`: the last key is applied first -/
def sortRounds (round : String × Int → List Val → R (List Val)) :
    SortSpec → List Val → R (List Val)
  | [], docs => .ok docs
  | kd :: rest, docs => bindR (sortRounds round rest docs) (round kd)

/-- `_get_dataset` after the filter: `if sort:` — `None` and `[]` mean natural order -/
def getDataset (sort : Option SortSpec) (docs : List Val) : R (List Val) :=
  match sort with
  | none => .ok docs
  | some spec => sortRounds applySortKey spec docs

/-- `_handle_sort_stage`: the same successive sorts, without the `$natural` / `$…` cases -/
def aggSort (spec : SortSpec) (docs : List Val) : R (List Val) :=
  sortRounds (fun kd ds => sortedByKey kd.1 (decide (kd.2 < 0)) ds) spec docs

/-! ### Python slices `xs[s:]`, `xs[:e]` -/

def pyDropFrom {α} (s : Int) (xs : List α) : List α :=
  if 0 ≤ s then xs.drop s.toNat else xs.drop (xs.length - s.natAbs)

def pyTakeTo {α} (e : Int) (xs : List α) : List α :=
  if 0 ≤ e then xs.take e.toNat else xs.take (xs.length - e.natAbs)

/-! ### The cursor as a state machine -/

structure Cursor where
  sort : Option SortSpec
  skip : Int
  limit : Option Int        -- `None`, or an int (0 only through a slice)
  empty : Bool              -- `self.__empty`: the last slice was empty (`cursor[a:a]`)
  deriving Repr, Inhabited, DecidableEq

/-- `Cursor.__init__`: `self._limit = limit if limit != 0 else None; self.__empty = False` -/
def Cursor.new (sort : Option SortSpec) (skip limit : Int) : Cursor :=
  ⟨sort, skip, if limit ≠ 0 then some limit else none, false⟩

inductive CurOp where
  | skip (n : Int)                              -- `.skip(n)`
  | limit (n : Int)                             -- `.limit(n)`
  | sortKey (key : String) (dir : Option Int)   -- `.sort(key)` / `.sort(key, dir)`
  | sortList (spec : SortSpec)                  -- `.sort([(key, dir), …])`
  | slice (start stop : Option Int)             -- `cursor[start:stop]`
  | clone                                       -- `cursor = cursor.clone()`
  | rewind                                      -- `.rewind()` (before any iteration: no effect)
  deriving Repr, Inhabited

/-- the `index.stop` half of `Cursor.__getitem__` with a slice: `limit = index.stop - skip`,
    `empty = (limit == 0)`; an open-ended slice stores limit 0 (= no limit) and is not empty -/
def sliceStop (c : Cursor) (skip : Int) : Option Int → R Cursor
  | some stop =>
    if stop - skip < 0 then .error .indexErr
    else .ok { c with skip := skip, limit := some (stop - skip),
                      empty := decide (stop - skip = 0) }
  | none => .ok { c with skip := skip, limit := some 0, empty := false }

def Cursor.step (c : Cursor) : CurOp → R Cursor
  | .skip n => .ok { c with skip := n }
  | .limit n => .ok { c with limit := if n ≠ 0 then some n else none, empty := false }
  | .sortKey k d =>
    -- helpers.create_index_list: `[(key, direction or ASCENDING)]`
    .ok { c with sort := some [(k, match d with
                                   | some d => if d ≠ 0 then d else 1
                                   | none => 1)] }
  | .sortList [] => .error .valueErr           -- 'key_or_list must not be the empty list'
  | .sortList (kd :: r) => .ok { c with sort := some (kd :: r) }
  | .slice start stop =>
    match start with
    | some s => if s < 0 then .error .indexErr else sliceStop c s stop
    | none => sliceStop c 0 stop
  | .clone =>
    -- Cursor(…, self._skip, self._limit) runs `limit if limit != 0 else None` again;
    -- `cursor.__empty = self.__empty`
    .ok { c with limit := match c.limit with
                          | some l => if l ≠ 0 then some l else none
                          | none => none }
  | .rewind => .ok c

def Cursor.run (c : Cursor) : List CurOp → R Cursor
  | [] => .ok c
  | op :: ops => bindR (c.step op) (fun c' => c'.run ops)

/-- `_compute_results(with_limit_and_skip=True)`:
    `results = self._results[self._skip:]`
    `if self.__empty: results = []`
    `elif self._limit: results = results[:abs(self._limit)]` -/
def Cursor.window {α} (c : Cursor) (data : List α) : List α :=
  if c.empty then []
  else match c.limit with
    | some l => if l ≠ 0 then (pyDropFrom c.skip data).take l.natAbs else pyDropFrom c.skip data
    | none => pyDropFrom c.skip data

/-- `list(cursor)` on a cursor that has not been iterated yet; `docs` = the documents selected
    by the filter, in natural order -/
def Cursor.results (c : Cursor) (docs : List Val) : R (List Val) :=
  match getDataset c.sort docs with
  | .error e => .error e
  | .ok ds => .ok (c.window ds)

/-- `cursor[i]` with an int -/
def Cursor.getIndex (c : Cursor) (docs : List Val) (i : Int) : R Val :=
  if i < 0 then .error .indexErr
  else match c.results docs with
    | .error e => .error e
    | .ok rs =>
      match rs[i.toNat]? with
      | some d => .ok d
      | none => .error .indexErr

/-! ### `count_documents(filter, skip=…, limit=…)` -/

inductive CountLimit where
  | absent                  -- no `limit` keyword
  | notNumber               -- `limit=None`, a string, …
  | num (n : Int)
  deriving Repr, Inhabited

/-- `n` = number of documents selected by the filter -/
def countDocuments (n : Nat) (skip : Int) (limit : CountLimit) : R Int :=
  match limit with
  | .notNumber => .error .opFail          -- 'the limit must be specified as a number'
  | .num l =>
    if l ≤ 0 then .error .opFail          -- 'the limit must be positive'
    else .ok (min (max ((n : Int) - skip) 0) l)
  | .absent => .ok (max ((n : Int) - skip) 0)

/-! ### `$skip`, `$limit`, pipelines of `$sort/$skip/$limit` -/

/-- the count `_handle_skip_stage` / `_handle_limit_stage` read from their argument: a float that
    `is_integer()` is first turned into `int(options)`; a bool or anything else that is no `int`
    is then refused (`none`) -/
def stageCount : Val → Option Int
  | .int n => some n
  | .dbl m e => if m % (2 ^ e : Int) = 0 then some (m / (2 ^ e : Int)) else none
  | _ => none

inductive Stage where
  | sort (spec : SortSpec)
  | skip (n : Int)          -- `_handle_skip_stage`: a negative count is an OperationFailure
  | limit (n : Int)         -- `_handle_limit_stage`: a count that is not positive is an OperationFailure
  deriving Repr, Inhabited

def Stage.apply (docs : List Val) : Stage → R (List Val)
  | .sort spec => aggSort spec docs
  | .skip n => if n < 0 then .error .opFail else .ok (docs.drop n.toNat)
  | .limit n => if n ≤ 0 then .error .opFail else .ok (docs.take n.toNat)

/-- `process_pipeline`: `for stage in pipeline: collection = handler(collection, …)` -/
def runPipeline : List Stage → List Val → R (List Val)
  | [], docs => .ok docs
  | st :: rest, docs => bindR (st.apply docs) (runPipeline rest)

/-! ### Natural order: the store is an insertion-ordered dict keyed by `_id`

Documents are opaque values; only the store key matters.  `update_*`/`replace_one` mutate the
stored dict object in place (`Collection._apply_update`: no store operation; the rollback of `_update` is
`self._store[key] = snapshot` on a key that is present, which keeps the position too), modelled
as `rewrite`; `insert` is `self._store[object_id] = data` on a key that is not present
(`Collection._insert`); `delete` is `del self._store[doc_id]` (`Collection._delete`). -/

abbrev Store := List (Val × Val)

def Store.has (k : Val) (s : Store) : Bool := s.any (fun kd => pyEq kd.1 k)

def Store.ids (s : Store) : List Val := s.map (·.1)
def Store.docs (s : Store) : List Val := s.map (·.2)

/-- rewrite the document stored under `k`, where it is -/
def Store.rewrite (k d : Val) : Store → Store
  | [] => []
  | (k', d') :: r => if pyEq k' k then (k', d) :: r else (k', d') :: Store.rewrite k d r

def Store.delete (k : Val) : Store → Store
  | [] => []
  | (k', d') :: r => if pyEq k' k then r else (k', d') :: Store.delete k r

inductive StoreOp where
  | insert (k d : Val)      -- insert_one of a document whose `_id` is `k`
  | rewrite (k d : Val)     -- update_one / replace_one on the document whose `_id` is `k`
  | delete (k : Val)        -- delete_one({'_id': k})
  deriving Repr, Inhabited

/-- one write; a duplicate insert raises and leaves the store as it was -/
def Store.step (s : Store) : StoreOp → Store × Option Err
  | .insert k d => if s.has k then (s, some .dupKey) else (s ++ [(k, d)], none)
  | .rewrite k d => (Store.rewrite k d s, none)
  | .delete k => (Store.delete k s, none)

def Store.runOps (s : Store) : List StoreOp → Store
  | [] => s
  | op :: ops => Store.runOps (s.step op).1 ops

end MongoModel
