/-
  MongoModel.DateTime — datetime normalisation (mongomock/helpers.py:322-353).

    patch      = helpers.patch_datetime_awareness_in_document
    makeAware  = helpers.make_datetime_timezone_aware_in_document

  A datetime is `Val.date us off`: `us` = wall-clock microseconds since 1970-01-01T00:00:00
  (negative before 1970), `off` = `utcoffset()` in minutes when the value is aware.

  `patch` (helpers.py:322-340):
      dict / OrderedDict  -> same mapping type, values patched (keys, order kept)
      tuple / list        -> *list* of patched items (the wire format has one array type, so a
                             tuple and a list are the same `Val.arr`; the harness checks the
                             result type on the Python side)
      datetime            -> `mongo_us = (value.microsecond // 1000) * 1000`; aware:
                             `(value - value.utcoffset()).replace(tzinfo=None, microsecond=mongo_us)`,
                             naive: `value.replace(microsecond=mongo_us)`.
                             `microsecond` is the non-negative sub-second part, the offset is a
                             whole number of minutes, 10^6 is a multiple of 1000, so this is the
                             floor of the UTC instant to a whole millisecond — Python `//` floors
                             and so does Lean's `Int./` for a positive divisor, also before 1970.
      anything else       -> unchanged (bson absent: the `Timestamp` branch is dead)
  `makeAware` (helpers.py:343-353): dict -> dict, tuple / list -> list,
      datetime -> `value.replace(tzinfo=utc)` (whatever tzinfo it had), else unchanged.

  Where the two helpers are applied (the paths of the property):
      writes    `_insert` patches the document; `_apply_update` patches filter and update document
                (the clock value of `$currentDate` too); the upsert seed passes `_insert` again
                (MongoModel/Store.lean follows these call sites, `patchDT`)
      filters   every filter-taking entry point patches its filter (`Cursor.__init__`, `_update`,
                `_delete`, `count_documents`, `distinct`, `find_one_and_*`); the `$match` stage
                patches the filter and each document it is matched against
      reads     `Cursor._compute_results`: stored documents as they are, or `makeAware` of them under
                `tz_aware=True`                                             — `readDoc`
      aggregate `Collection.aggregate` (after the collation / array_filters / let checks):
                `pipeline = patch(pipeline)`                                — `aggPipeline`
                the input is `list(self._get_dataset({}, None, None, dict))`: a copy of every stored
                document, naive datetimes whatever `tz_aware` says          — `aggInput`
                `$lookup` / `$graphLookup` patch every document they fetch; so every datetime
                `process_pipeline` meets — stored, fetched, written in the pipeline (`$addFields`,
                `$project`, `$literal`, `$group` keys and accumulator arguments, `$bucket`
                boundaries, `$facet` and its sub-pipelines, `$replaceRoot`, expression operands,
                `$match`, `$out`) or computed by it (`$dateFromParts`, `$add` of a date) — is naive;
                under `tz_aware=True` the results are rebuilt at the end:
                `CommandCursor(makeAware(list(results)))` — every datetime at any depth, `$group`
                ids and `$facet` branches included                          — `aggResult`
                the caller's pipeline object is not written to (containers rebuilt, tuples
                become lists)

  Scope limits (outside the model): PEP 495 `fold`, tzinfo objects whose offset is not a fixed
  whole number of minutes or whose truth value is false, `bson.Timestamp`, datetimes within one
  offset of `datetime.min` / `datetime.max` (Python raises OverflowError).

  Core Lean only.
-/
import MongoModel.Value

namespace MongoModel

/-- floor to a whole millisecond (`(x // 1000) * 1000`) -/
def floorMs (us : Int) : Int := us / 1000 * 1000

/-- the millisecond (UTC, since the epoch) a datetime denotes -/
def msOf (us : Int) (off : Option Int) : Int := dateUtc us off / 1000

mutual
  /-- `helpers.patch_datetime_awareness_in_document` -/
  def patch : Val → Val
    | .null => .null
    | .bool b => .bool b
    | .int i => .int i
    | .dbl m e => .dbl m e
    | .str s => .str s
    | .oid n => .oid n
    | .date us off => .date (floorMs (dateUtc us off)) none
    | .doc fs => .doc (patchFields fs)
    | .arr xs => .arr (patchList xs)
  def patchFields : Fields → Fields
    | [] => []
    | (k, v) :: r => (k, patch v) :: patchFields r
  def patchList : List Val → List Val
    | [] => []
    | x :: r => patch x :: patchList r
end

mutual
  /-- `helpers.make_datetime_timezone_aware_in_document` -/
  def makeAware : Val → Val
    | .null => .null
    | .bool b => .bool b
    | .int i => .int i
    | .dbl m e => .dbl m e
    | .str s => .str s
    | .oid n => .oid n
    | .date us _ => .date us (some 0)
    | .doc fs => .doc (makeAwareFields fs)
    | .arr xs => .arr (makeAwareList xs)
  def makeAwareFields : Fields → Fields
    | [] => []
    | (k, v) :: r => (k, makeAware v) :: makeAwareFields r
  def makeAwareList : List Val → List Val
    | [] => []
    | x :: r => makeAware x :: makeAwareList r
end

/-! ### predicates on the datetimes of a value -/

/-- a predicate on one datetime: wall-clock µs, offset -/
abbrev DatePred := Int → Option Int → Prop

mutual
  /-- every datetime occurring in the value, at any depth, satisfies `P` -/
  def AllDates (P : DatePred) : Val → Prop
    | .null => True
    | .bool _ => True
    | .int _ => True
    | .dbl _ _ => True
    | .str _ => True
    | .oid _ => True
    | .date us off => P us off
    | .doc fs => AllDatesF P fs
    | .arr xs => AllDatesL P xs
  def AllDatesF (P : DatePred) : Fields → Prop
    | [] => True
    | (_, v) :: r => AllDates P v ∧ AllDatesF P r
  def AllDatesL (P : DatePred) : List Val → Prop
    | [] => True
    | x :: r => AllDates P x ∧ AllDatesL P r
end

mutual
  /-- executable form of `AllDates` -/
  def allDatesB (p : Int → Option Int → Bool) : Val → Bool
    | .null => true
    | .bool _ => true
    | .int _ => true
    | .dbl _ _ => true
    | .str _ => true
    | .oid _ => true
    | .date us off => p us off
    | .doc fs => allDatesFB p fs
    | .arr xs => allDatesLB p xs
  def allDatesFB (p : Int → Option Int → Bool) : Fields → Bool
    | [] => true
    | (_, v) :: r => allDatesB p v && allDatesFB p r
  def allDatesLB (p : Int → Option Int → Bool) : List Val → Bool
    | [] => true
    | x :: r => allDatesB p x && allDatesLB p r
end

/-- stored form: naive, whole milliseconds -/
def Normal : DatePred := fun us off => off = none ∧ us % 1000 = 0

def normalB (us : Int) (off : Option Int) : Bool := off.isNone && us % 1000 == 0

/-- what a `tz_aware=True` client hands out: aware, offset zero -/
def AwareUtc : DatePred := fun _ off => off = some 0

def awareUtcB (_ : Int) (off : Option Int) : Bool := off == some 0

/-- aware, offset zero, whole milliseconds: the stored form as a `tz_aware=True` client reads it -/
def AwareNormal : DatePred := fun us off => off = some 0 ∧ us % 1000 = 0

def awareNormalB (us : Int) (off : Option Int) : Bool := off == some 0 && us % 1000 == 0

/-- naive (no tzinfo) -/
def Naive : DatePred := fun _ off => off = none

/-- two datetimes denote the same millisecond (UTC); false when either is not a datetime -/
def sameMillisecond : Val → Val → Prop
  | .date u o, .date u' o' => msOf u o = msOf u' o'
  | _, _ => False

def Val.isDate : Val → Bool
  | .date _ _ => true
  | _ => false

/-! ### "same value up to the representation of its datetimes"

`SameMs a b`: `a` and `b` have the same shape (same keys in the same order, same lengths, equal
non-date leaves) and datetimes at corresponding positions denote the same millisecond. -/

mutual
  def SameMs : Val → Val → Prop
    | .null, b => b = .null
    | .bool x, b => b = .bool x
    | .int i, b => b = .int i
    | .dbl m e, b => b = .dbl m e
    | .str s, b => b = .str s
    | .oid n, b => b = .oid n
    | .date u o, b => ∃ u' o', b = .date u' o' ∧ msOf u o = msOf u' o'
    | .doc fs, b => ∃ gs, b = .doc gs ∧ SameMsF fs gs
    | .arr xs, b => ∃ ys, b = .arr ys ∧ SameMsL xs ys
  def SameMsF : Fields → Fields → Prop
    | [], gs => gs = []
    | (k, v) :: r, gs => ∃ v' r', gs = (k, v') :: r' ∧ SameMs v v' ∧ SameMsF r r'
  def SameMsL : List Val → List Val → Prop
    | [], ys => ys = []
    | x :: r, ys => ∃ y r', ys = y :: r' ∧ SameMs x y ∧ SameMsL r r'
end

/-! ### shape: everything of a value except its datetimes

`shape v` replaces every datetime by one fixed token; two values have the same shape iff they
have the same keys in the same order, the same lengths and the same non-date leaves. -/

mutual
  def shape : Val → Val
    | .null => .null
    | .bool b => .bool b
    | .int i => .int i
    | .dbl m e => .dbl m e
    | .str s => .str s
    | .oid n => .oid n
    | .date _ _ => .date 0 none
    | .doc fs => .doc (shapeFields fs)
    | .arr xs => .arr (shapeList xs)
  def shapeFields : Fields → Fields
    | [] => []
    | (k, v) :: r => (k, shape v) :: shapeFields r
  def shapeList : List Val → List Val
    | [] => []
    | x :: r => shape x :: shapeList r
end

mutual
  /-- the datetimes of a value in document order (pre-order, left to right) -/
  def datesOf : Val → List (Int × Option Int)
    | .null => []
    | .bool _ => []
    | .int _ => []
    | .dbl _ _ => []
    | .str _ => []
    | .oid _ => []
    | .date us off => [(us, off)]
    | .doc fs => datesOfF fs
    | .arr xs => datesOfL xs
  def datesOfF : Fields → List (Int × Option Int)
    | [] => []
    | (_, v) :: r => datesOf v ++ datesOfF r
  def datesOfL : List Val → List (Int × Option Int)
    | [] => []
    | x :: r => datesOf x ++ datesOfL r
end

/-- the store-level invariant: every stored document holds only normal datetimes -/
def DateInv (s : List Val) : Prop := ∀ d ∈ s, AllDates Normal d

/-! ### the read side and the aggregation pipeline -/

/-- what a reader is handed for a stored value (`Cursor._compute_results`, collection.py): the
    value itself, or `makeAware` of it when the client was created with `tz_aware=True` -/
def readDoc (tzAware : Bool) (v : Val) : Val := if tzAware then makeAware v else v

/-- the form of every datetime a client with this `tz_aware` setting is to see -/
def ReadForm (tzAware : Bool) : DatePred := if tzAware then AwareNormal else Normal

def readFormB (tzAware : Bool) (us : Int) (off : Option Int) : Bool :=
  if tzAware then awareNormalB us off else normalB us off

/-- `Collection.aggregate` (collection.py): the pipeline `process_pipeline` is handed for the
    pipeline the caller wrote —
        pipeline = helpers.patch_datetime_awareness_in_document(pipeline)
    whatever the client's `tz_aware` -/
def aggPipeline (pipeline : Val) : Val := patch pipeline

/-- the input of the pipeline for a stored document: `list(self._get_dataset({}, None, None, dict))`
    — a copy of the document as stored, not what `find()` would hand this client -/
def aggInput (d : Val) : Val := d

/-- one result document as the caller gets it:
        if self.codec_options.tz_aware:
            results = CommandCursor(make_datetime_timezone_aware_in_document(list(results))) -/
def aggResult (tzAware : Bool) (r : Val) : Val := if tzAware then makeAware r else r

/-- `Collection.aggregate` before the repair d1da933: the pipeline went to `process_pipeline` as
    written (only the `$match` stage normalised its own filter) -/
def aggPipelineUnrepaired (_tzAware : Bool) (pipeline : Val) : Val := pipeline

/-- `Collection.aggregate` between d1da933 and e05c961: the input was read with `self.find()`
    (`readDoc tz`), and the results were handed out as `process_pipeline` computed them -/
def aggInputUnrepaired (tzAware : Bool) (d : Val) : Val := readDoc tzAware d

def aggResultUnrepaired (_tzAware : Bool) (r : Val) : Val := r

end MongoModel
