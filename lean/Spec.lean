import Spec.Match
import Spec.MatchDomain
