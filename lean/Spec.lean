import Spec.Match
import Spec.MatchDomain
import Spec.MatchClasses
import Spec.StoreInv
import Spec.Ttl
import Spec.Unique
