import Spec.Match
import Spec.MatchDomain
import Spec.MatchClasses
