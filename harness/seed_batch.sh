#!/bin/sh
# development: keep + try a delivered seed:  seed_batch.sh <IDw4> <name> <check ids...>
id=$1; name=$2; shift 2
cd /verif
harness/keep_seed.sh $id $name 2>&1 | tail -3
for c in "$@"; do
  out=$(VERIF_DEV_REPO=/tmp/seed/$id/repo PYTHONPATH=/tmp/seed/$id/repo ./check $c --tier quick 2>&1 | grep -v KNOWN-FINDING | head -3)
  echo "== $name vs $c quick: ${out:-<silent, exit 0>}"
done
git -C /verif checkout -- lean/Generated evidence 2>/dev/null
