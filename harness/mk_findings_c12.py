"""(re)generate the C12 entries of known_findings.json from hand-written witnesses; each witness is
checked against the real code (it must deviate) and, where the full-document oracle speaks,
against the Lean Spec (the expected value must be what Spec.Proj.project says)."""
import copy, json, os, sys
HERE = os.path.dirname(os.path.abspath(__file__))
sys.path.insert(0, HERE)
import common, wire
from props import c12

W = [
 ('mixedarray', 'find', 'find-path inclusion/exclusion of a dotted path over an array that mixes '
  'scalars and sub-documents raises AttributeError instead of projecting the sub-documents',
  {'_id': 1, 'l': [1, {'x': 1, 'y': 2}]}, {'l.x': 1}, {'_id': 1, 'l': [{'x': 1}]}, None),
 ('exclscalar', 'find', "find-path exclusion of a dotted path that runs into a scalar or null drops "
  "the scalar itself: {'s.q': 0} removes s when s is a scalar",
  {'_id': 1, 's': 3, 'a': 5}, {'s.q': 0}, {'_id': 1, 's': 3, 'a': 5}, None),
 ('aggdroparr', 'aggregate', '$project exclusion of a dotted path over an array drops the '
  'non-document elements of the array',
  {'_id': 1, 'l': [1, {'x': 1, 'y': 2}]}, {'l.x': 0}, {'_id': 1, 'l': [1, {'y': 2}]}, None),
 ('slicelimit', 'find', '$slice: [skip, limit] with limit <= 0 is answered (Python slice with a '
  'negative stop) instead of refused',
  {'_id': 1, 'l': [1, 2, 3, 4, 5]}, {'l': {'$slice': [0, -1]}}, '!', None),
 ('sliceskip', 'find', '$slice: [skip, limit] with a negative skip beyond the start of the array '
  'returns an empty / wrong part instead of starting at the first element',
  {'_id': 1, 'l': [1, 2, 3, 4, 5]}, {'l': {'$slice': [-7, 2]}}, {'_id': 1, 'l': [1, 2]}, None),
 ('slicealone', 'find', 'a projection made only of $slice fields drops every other field (it is '
  'treated as an inclusion); the other fields should be kept',
  {'_id': 1, 'l': [1, 2, 3], 's': 3}, {'l': {'$slice': 1}}, {'_id': 1, 'l': [1], 's': 3}, None),
]

def main():
    path = os.path.join(common.VERIF, 'known_findings.json')
    data = json.load(open(path))
    data['findings'] = [e for e in data['findings'] if e.get('property') != 'C12' or
                        e.get('status') != 'known']
    ctx = None
    for fid, entry, what, doc, proj, expected, check in W:
        oids = wire.Oids()
        wt = {'entry': entry, 'doc': doc, 'projection': proj,
              'wire_doc': wire.encs(doc, oids), 'wire_proj': wire.encs(proj, oids),
              'expected': expected if expected == '!' else wire.encs(expected, oids)}
        if check:
            wt['check'] = check
        coll = c12.fresh([doc])
        arg = copy.deepcopy(proj)
        if entry == 'aggregate':
            r = c12.attempt(lambda: list(coll.aggregate([{'$project': arg}]))[0])
        else:
            r = c12.attempt(lambda: list(coll.find({}, arg))[0])
        wt['python'] = r if c12.is_err(r) else wire.pretty(r)
        if check == 'arg':
            wt['python_arg_after'] = wire.pretty(arg)
        e = {'property': 'C12', 'id': fid, 'status': 'known', 'what': what, 'witness': wt}
        assert c12.replay_finding(ctx, e), fid
        # the oracle
        if not any(isinstance(v, dict) for v in proj.values()) and check is None:
            cmd = ('c12a %s %s' if entry == 'aggregate' else 'c12p %s %s')
            args = (wt['wire_proj'], wt['wire_doc']) if entry == 'aggregate' else (wt['wire_doc'], wt['wire_proj'])
            out = [x.strip() for x in wire.run_driver([cmd % args])[0].split('|')]
            spec = out[1]
            want = wt['expected'] if entry != 'aggregate' else '[ %s ]' % wt['expected']
            assert spec == want, (fid, spec, want)
            assert fid in out[2 if entry == 'aggregate' else 3].split(), (fid, out)
        data['findings'].append(e)
        print('ok', fid, wt['python'])
    with open(path, 'w') as fh:
        json.dump(data, fh, indent=1)
        fh.write('\n')

main()
