"""(development helper) build the C11 entries of known_findings.json from literal witnesses,
checking each against the real code, the model and the oracle."""
import json, sys, os
sys.exit('obsolete: emptyslice, objectid and arraykey were repaired in the library (905fac1, '
         '014e9e3, 63b3a8a); known_findings.json holds them as "fixed" and their witnesses are '
         'replayed as corpus cases by props/c11.py — running this would overwrite those records')
sys.path.insert(0, os.path.dirname(os.path.abspath(__file__)))
import wire
from props import c11

o = wire.Oids()
W = [
 ('emptyslice',
  "an empty cursor slice returns the tail: find()[2:2] stores limit 0, which means 'no limit'",
  [{'_id': 0}, {'_id': 1}, {'_id': 2}, {'_id': 3}],
  ('find', {}, None, 0, 0, [['slice', 2, 2]], None), '[ ]'),
 ('arraykey',
  "an array-valued sort key is sorted by its first element (MongoDB: smallest element for an "
  "ascending key, largest for a descending key): sort a descending puts {a: [3]} before {a: [1, 5]}",
  [{'_id': 0, 'a': [1, 5]}, {'_id': 1, 'a': [3]}],
  ('find', {}, [['a', -1]], 0, 0, [], None), '[ I0 I1 ]'),
 ('objectid',
  "sorting by a field holding ObjectIds raises TypeError (mongomock.ObjectId defines no ordering), "
  "e.g. sort('_id') over auto-generated ids",
  [{'_id': 0, 'a': o.make(0)}, {'_id': 1, 'a': o.make(1)}],
  ('find', {}, [['a', 1]], 0, 0, [], None), '[ I0 I1 ]'),
]
out, lines = [], []
for label, what, docs, case, spec in W:
    sc = {'docs': docs, 'oids': o, 'cases': [case]}
    line = c11.enc_case(sc, case)
    py, _ = c11.py_case(c11.mk_coll(docs), case)
    py = c11.canon_py(py, o)
    assert c11.norm(py) != c11.norm(spec), (label, py, spec)
    lines.append(line)
    out.append({'property': 'C11', 'id': label, 'status': 'known', 'what': what,
                'witness': {'docs': [wire.pretty(d) for d in docs], 'call': wire.pretty(list(case)),
                            'line': line, 'spec': spec, 'python': py}})
for e, r in zip(out, wire.run_driver(lines)):
    impl, spec, reasons = c11.parse_out(r)
    assert c11.norm(impl) == c11.norm(e['witness']['python']), (e['id'], impl)
    assert c11.norm(spec) == c11.norm(e['witness']['spec']), (e['id'], spec)
    assert e['id'] in reasons, (e['id'], reasons)
    print(e['id'], 'ok', reasons, '| python', e['witness']['python'], '| rules', spec)
path = os.path.join(wire.VERIF, 'known_findings.json')
data = json.load(open(path))
data['findings'] = [x for x in data['findings'] if x['property'] != 'C11'] + out
json.dump(data, open(path, 'w'), indent=1)
