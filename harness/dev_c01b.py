import sys, random, collections
sys.path.insert(0, '/verif/harness')
import wire, gen, gen_filter
from mongomock.filtering import filter_applies
seed = int(sys.argv[1]) if len(sys.argv) > 1 else 0
N = int(sys.argv[2]) if len(sys.argv) > 2 else 5000
rng = random.Random(seed)
cases = []; lines = []
for i in range(N):
    oids = wire.Oids(); g = gen.Gen(rng, oids); fg = gen_filter.FilterGen(g)
    d = g.doc(3, maxf=4); f = fg.filter(d)
    try: line = 'c01 ' + wire.encs(f, oids) + ' ' + wire.encs(d, oids)
    except wire.Unencodable: continue
    try: py = 'T' if filter_applies(f, d) else 'F'
    except Exception as e: py = '!' + wire.err_name(e)
    cases.append((f, d, py)); lines.append(line)
out = wire.run_driver(lines)
cnt = collections.Counter(); rc = collections.Counter(); fc=collections.Counter()
badD = 0; shown=collections.Counter()
for (f, d, py), o in zip(cases, out):
    impl, spec, reasons = [x.strip() for x in o.split('|')]
    reasons = reasons.split()
    inD = not reasons
    if impl == '!?unmodelled': cnt['unmodelled'] += 1; continue
    if inD:
        cnt['D'] += 1
        cnt['D:'+impl]+=1
        if impl != spec:
            badD += 1
            if badD <= 10: print('D-DIFF impl=%s spec=%s\n  f=%r\n  d=%r' % (impl, spec, f, d))
    else:
        cnt['FD'] += 1
        for r in reasons: rc[r] += 1
        if spec != '!?unmodelled' and impl != spec and not (impl.startswith('!') and spec.startswith('!')):
            for r in reasons: fc[r]+=1
            key=tuple(reasons)
            shown[key]+=1
            if shown[key]<=1 and len(shown)<25: print('FINDING', reasons, 'impl=%s spec=%s f=%r d=%r' % (impl, spec, f, d))
print(cnt); print('reasons', rc); print('finding reasons', fc); print('badD', badD)
