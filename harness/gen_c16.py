"""Generator for C16: collection states (two collections) and pipelines whose stages EDIT documents.

Two streams:
  * `rich`  — the whole supported stage vocabulary, each stage with all the options it accepts (in
              particular every option that is itself a document of the caller's pipeline: the
              filter documents of `$match` and `$graphLookup.restrictSearchWithMatch`, `$bucket`
              output / boundaries / default, accumulator and expression documents); direct
              oracles on /repo only;
  * `model` — the fragment MongoModel.AggHeap models concretely (direct oracles AND correspondence).
"""

INTS = [0, 1, 2]


def gen_doc(rng, i, coll):
    d = {'_id': i if coll == 'a' else 10 + i}
    if rng.random() < 0.9:
        d['k'] = rng.choice(INTS)
    r = rng.random()
    if r < 0.6:
        sub = {'x': rng.choice(INTS)}
        if rng.random() < 0.5:
            sub['y'] = {'z': rng.choice(INTS)}
        d['a'] = sub
    elif r < 0.75:
        d['a'] = rng.choice(INTS)
    r = rng.random()
    if r < 0.45:
        d['arr'] = [{'p': rng.choice(INTS)} for _ in range(rng.choice([1, 2, 2, 3]))]
    elif r < 0.6:
        d['arr'] = [rng.choice(INTS) for _ in range(rng.choice([1, 2]))]
    elif r < 0.7:
        d['arr'] = []
    elif r < 0.75:
        d['arr'] = None
    if rng.random() < 0.3:
        d['s'] = rng.choice(['', 'a', 'b'])
    return d


def gen_state(rng):
    na = rng.choice([1, 2, 2, 3, 3, 4])
    nb = rng.choice([0, 1, 2, 3])
    state = {'a': [gen_doc(rng, i, 'a') for i in range(na)],
             'b': [gen_doc(rng, i, 'b') for i in range(nb)],
             'indexes': []}
    if rng.random() < 0.4:
        state['indexes'].append([rng.choice(['a', 'b']), rng.choice(['k', 'a.x', 's'])])
    if rng.random() < 0.15:
        state['c'] = [{'_id': 100 + i, 'k': i} for i in range(rng.choice([1, 2]))]
    return state


# ---- expressions (only what matters for identity: references, literals, constructors) ----

def gen_expr(rng, model):
    r = rng.random()
    if r < 0.16:
        return rng.choice(INTS)
    if r < 0.30:
        return '$k'
    if r < 0.48:
        return rng.choice(['$a', '$a', '$a.y', '$arr'] if not model else ['$a', '$a', '$a.y'])
    if r < 0.56:
        return '$$ROOT'
    if r < 0.70:
        return {'$literal': rng.choice([{'q': 1}, {'q': {'r': 1}}, [1], 7])}
    if r < 0.82:
        return {'u': rng.choice(['$k', '$a', 1]), 'v': rng.choice(['$a.x', '$missing', 2])}
    if r < 0.88:
        # an array in expression position: every item is an expression of its own
        return rng.choice([[1, 2], [1, 2], ['$a', '$k'], ['$a', '$a'], ['$a.y', '$missing'],
                           [{'u': '$a'}, ['$k', 1]], ['$$ROOT'], [{'$literal': {'q': 1}}, '$a']])
    if model:
        return rng.choice(['$a', '$k'])
    return rng.choice([{'$add': ['$k', 1]}, {'$ifNull': ['$a', {'d': 1}]},
                       {'$arrayElemAt': ['$arr', 0]}, {'$cond': ['$k', '$a', '$arr']}])


PATHS = ['n', 'n', 'a.w', 'a.w', 'a.y.w', 'a.x.q', 'm.p', 'arr.w', 'arr.w', 'arr.p.q', 'arr.w.z', 'k', 'a',
         'n.w', 'j.w', 'j.a.w', 'f.w', 'q.w']


def gen_addfields(rng, model):
    op = rng.choice(['$addFields', '$set'])
    spec = {}
    for _ in range(rng.choice([1, 1, 2])):
        spec[rng.choice(PATHS)] = gen_expr(rng, model)
    return {op: spec}


# ---- filter documents (every stage that takes one from the pipeline: $match, and
# ---- $graphLookup.restrictSearchWithMatch) -------------------------------------------------

FILTER_FIELDS = ['k', 'k', 'a.x', 'a', 'arr.p', 'arr', 's', '_id', 'a.y.z']


def gen_clause_value(rng, field):
    """the right-hand side of one clause: a scalar, a sub-document, an array, or a document of
    one or two operators (each with its own nested containers)"""
    r = rng.random()
    if r < 0.30:
        return rng.choice(INTS)
    if r < 0.36:
        return rng.choice([None, 'a', {'x': 1}, {'p': 1}, [1, 2], []])
    ops = {}
    for _ in range(rng.choice([1, 1, 1, 2])):
        o = rng.choice(['$gte', '$lte', '$gt', '$lt', '$ne', '$eq', '$in', '$in', '$nin',
                        '$exists', '$not', '$elemMatch', '$all', '$size', '$type'])
        if o in ('$in', '$nin', '$all'):
            ops[o] = [rng.choice(INTS + [None, {'x': 1}]) for _ in range(rng.choice([1, 2, 2, 3]))]
        elif o == '$exists':
            ops[o] = rng.choice([True, False])
        elif o == '$not':
            ops[o] = rng.choice([{'$gte': rng.choice(INTS)}, {'$lt': rng.choice(INTS)},
                                 {'$in': [0, 1]}])
        elif o == '$elemMatch':
            ops[o] = rng.choice([{'p': rng.choice(INTS)}, {'p': {'$gte': 1}}, {'$gte': 1}])
        elif o == '$size':
            ops[o] = rng.choice([0, 1, 2])
        elif o == '$type':
            ops[o] = rng.choice(['int', 'object', 'array', 'string'])
        else:
            ops[o] = rng.choice(INTS)
    return ops


def gen_filter_doc(rng, depth=0, about=None):
    """a filter document: 0-3 clauses on fields of the generated documents (`about`: a field the
    host stage itself works with, favoured), logical operators over lists of filter documents,
    $expr"""
    spec = {}
    n = rng.choice([0, 1, 1, 1, 2, 2, 3]) if depth == 0 else rng.choice([1, 1, 2])
    for _ in range(n):
        r = rng.random()
        if r < 0.12 and depth < 2:
            spec[rng.choice(['$and', '$or', '$or', '$nor'])] = [
                gen_filter_doc(rng, depth + 1, about) for _ in range(rng.choice([1, 2, 2]))]
        elif r < 0.17:
            spec['$expr'] = rng.choice([{'$eq': ['$k', 1]}, {'$gte': ['$k', '$a.x']},
                                        {'$ne': ['$a', {'$literal': {'x': 1}}]}])
        else:
            f = about if (about is not None and rng.random() < 0.3) else rng.choice(FILTER_FIELDS)
            spec[f] = gen_clause_value(rng, f)
    return spec


def gen_match(rng, model):
    if model:
        return {'$match': rng.choice([{}, {'k': 1}, {'k': 0}, {'k': 2}])}
    if rng.random() < 0.4:
        return {'$match': rng.choice([{}, {'k': 1}, {'k': 0}, {'k': {'$gte': 1}}, {'a.x': 1}])}
    return {'$match': gen_filter_doc(rng)}


def gen_lookup(rng, model):
    return {'$lookup': {'from': rng.choice(['b', 'b', 'a']),
                        'localField': rng.choice(['k', 'k', 'a.x'] if not model else ['k']),
                        'foreignField': rng.choice(['k', 'k', '_id'] if not model else ['k']),
                        'as': rng.choice(['j', 'j', 'a', 'arr'])}}


def gen_unwind(rng, model):
    p = rng.choice(['$arr', '$arr', '$arr', '$a', '$j', '$p'])
    r = rng.random()
    if r < 0.5:
        return {'$unwind': p}
    o = {'path': p}
    if rng.random() < 0.7:
        o['preserveNullAndEmptyArrays'] = True
    if rng.random() < 0.4:
        # a dotted index name goes through sub-documents (there or created); 'arr.ix' / 'j.ix' go
        # through the unwound field itself (outside the heap model, direct oracles only)
        o['includeArrayIndex'] = rng.choice(['ix', 'ix', 'a.ix', 'a.y.ix', 'm.ix', 'k.ix', 'arr.ix',
                                             'k', 'arr'])
    return {'$unwind': o}


def gen_project(rng, model):
    r = rng.random()
    if r < 0.3:
        return {'$project': rng.choice([{'k': 1, 'a': 1}, {'a': 1, 'arr': 1}, {'_id': 0, 'a': 1},
                                        {'_id': 0, 'k': 1, 'arr': 1}, {'j': 1, 'a': 1}])}
    if r < 0.45 and not model:
        return {'$project': rng.choice([{'a': 0}, {'_id': 0}, {'a.x': 1}, {'arr.p': 1, 'k': 1},
                                        {'a.y': 0}])}
    spec = {}
    if rng.random() < 0.4:
        spec['_id'] = 0
    if rng.random() < 0.5:
        spec[rng.choice(['k', 'a', 'arr'])] = 1
    spec[rng.choice(['n', 'm', 'a'])] = gen_expr(rng, model)
    return {'$project': spec}


def gen_group(rng, model):
    gid = rng.choice([None, None, '$k', '$k', '$a'] if not model else [None, None, '$k', '$k'])
    spec = {'_id': gid}
    accs = [('f', {'$first': '$a'}), ('p', {'$push': '$a'}), ('c', {'$sum': 1}),
            ('r', {'$push': '$$ROOT'}), ('l', {'$last': '$arr'}), ('f', {'$first': '$$ROOT'})]
    if not model:
        accs += [('s', {'$addToSet': '$k'}), ('m', {'$max': '$k'}), ('g', {'$avg': '$k'})]
    for _ in range(rng.choice([1, 1, 2])):
        k, v = rng.choice(accs)
        spec[k] = v
    return {'$group': spec}


def gen_replace_root(rng, model):
    return {'$replaceRoot': {'newRoot': rng.choice(
        ['$a', '$a', {'q': '$a', 'k': '$k'}, {'$literal': {'q': {'r': 1}}}, '$$ROOT', '$a.y'])}}


def gen_graph_lookup(rng):
    """`$graphLookup` with every option it takes (python-only: outside the heap model): the
    search filter `restrictSearchWithMatch` (any filter document, also one with a clause on
    connectToField itself), depthField, maxDepth, expression-valued startWith, dotted and
    array-valued connect fields, from = another / the same / an absent collection"""
    to = rng.choice(['k', 'k', 'k', 'a.x', '_id', 'arr.p', 's'])
    o = {'from': rng.choice(['b', 'b', 'b', 'a', 'a', 'c']),
         'startWith': rng.choice(['$k', '$k', '$k', '$a.x', '$arr.p', '$arr', '$_id', '$nope', 1,
                                  [0, 1], {'$literal': 1}, {'$add': ['$k', 1]},
                                  {'$ifNull': ['$a.x', '$k']}]),
         'connectFromField': rng.choice(['k', 'k', 'k', 'a.x', 'arr.p', 'arr', '_id', 'nope']),
         'connectToField': to,
         'as': rng.choice(['g', 'g', 'g', 'j', 'a', 'arr'])}
    if rng.random() < 0.6:
        o['maxDepth'] = rng.choice([0, 0, 1, 2, 3])
    if rng.random() < 0.35:
        o['depthField'] = rng.choice(['d', 'd', 'k', 'depth'])
    if rng.random() < 0.65:
        o['restrictSearchWithMatch'] = gen_filter_doc(rng, 0, to)
    if rng.random() < 0.3:
        # option order is the caller's: any
        ks = list(o)
        rng.shuffle(ks)
        o = {k: o[k] for k in ks}
    return {'$graphLookup': o}


def gen_bucket(rng):
    """`$bucket` with every option it takes: expression-valued groupBy, boundaries, default (a
    scalar or absent), output (a document of accumulators, or absent)"""
    o = {'groupBy': rng.choice(['$k', '$k', '$a.x', '$_id', {'$add': ['$k', 1]},
                                {'$ifNull': ['$a.x', 0]}]),
         'boundaries': rng.choice([[0, 1, 3], [0, 1, 3], [0, 2], [1, 2, 3], [0, 1, 2, 3]])}
    if rng.random() < 0.7:
        o['default'] = rng.choice(['other', 'other', -1, 9, None])
    if rng.random() < 0.7:
        accs = [('p', {'$push': '$a'}), ('p', {'$push': '$a'}), ('r', {'$push': '$$ROOT'}),
                ('f', {'$first': '$a'}), ('l', {'$last': '$arr'}), ('c', {'$sum': 1}),
                ('s', {'$addToSet': '$k'}), ('m', {'$max': '$k'}),
                ('q', {'$push': {'u': '$a', 'v': '$k'}})]
        out = {}
        for _ in range(rng.choice([1, 1, 2])):
            k, v = rng.choice(accs)
            out[k] = v
        o['output'] = out
    return {'$bucket': o}


def gen_simple(rng, model, in_facet):
    r = rng.random()
    if r < 0.22:
        return gen_addfields(rng, model)
    if r < 0.34:
        return gen_lookup(rng, model)
    if r < 0.46:
        return gen_unwind(rng, model)
    if r < 0.56:
        return gen_project(rng, model)
    if r < 0.64 and not model:
        return gen_group(rng, model)
    if r < 0.70:
        return gen_match(rng, model)
    if r < 0.75:
        return gen_replace_root(rng, model)
    if r < 0.79:
        return {'$sort': rng.choice([{'k': 1}, {'k': -1}, {'_id': -1}, {'k': 1, '_id': -1},
                                     {'a.x': -1, 'k': 1}] if not model
                                    else [{'_id': -1}, {'_id': 1}])}
    if r < 0.83:
        # `$limit` needs a positive, `$skip` a non-negative integer (OperationFailure otherwise)
        if rng.random() < 0.5:
            return {'$skip': rng.choice([0, 1, 2, 2, -1, 1.0, 0.5])}
        return {'$limit': rng.choice([1, 1, 2, 2, 3, 0, 2.0, 1.5])}
    if r < 0.88:
        return {'$sample': {'size': rng.choice([0, 1, 2, 5])}}
    if r < 0.91:
        return {'$count': 'n'}
    if r < 0.94 and not model:
        return gen_bucket(rng) if rng.random() < 0.5 else rng.choice([
            {'$sample': {'size': 1, 'bogus': 1}},
            {'$sample': {}},
        ])
    if r < 0.985 and not model:
        return gen_graph_lookup(rng)
    return gen_addfields(rng, model)


def gen_facet(rng, model):
    titles = ['x', 'y', 'z'][:rng.choice([2, 2, 3])]
    spec = {}
    for t in titles:
        n = rng.choice([0, 1, 1, 2, 2, 3])
        spec[t] = [gen_simple(rng, model, True) for _ in range(n)]
    return {'$facet': spec}


def gen_pipeline(rng, model=False):
    n = rng.choice([1, 1, 2, 2, 3, 4])
    p = []
    for _ in range(n):
        r = rng.random()
        if r < 0.28:
            p.append(gen_facet(rng, model))
        elif r < 0.30:
            # a stage document must hold exactly one operator: rejected when it is reached
            p.append(rng.choice([{}, {'$match': {}, '$limit': 1},
                                 {'$addFields': {'a.w': 1}, '$unwind': '$arr'}]))
        else:
            p.append(gen_simple(rng, model, False))
    if rng.random() < 0.15:
        p.append({'$out': rng.choice(['c', 'c', 'c', 'b', 'a'])})
    return p


def stage_ops(p, acc=None):
    acc = acc if acc is not None else []
    for st in p:
        for op, opts in st.items():
            acc.append(op)
            if op == '$facet' and isinstance(opts, dict):
                for sub in opts.values():
                    stage_ops(sub, acc)
    return acc
