"""Generator for C16: collection states (two collections) and pipelines whose stages EDIT documents.

Two streams:
  * `rich`  — the whole supported stage vocabulary (direct oracles on /repo only);
  * `model` — the fragment MongoModel.AggHeap models concretely (direct oracles AND correspondence).
"""

INTS = [0, 1, 2]


def gen_doc(rng, i, coll):
    d = {'_id': i if coll == 'a' else 10 + i}
    if rng.random() < 0.9:
        d['k'] = rng.choice(INTS)
    r = rng.random()
    if r < 0.6:
        sub = {'x': rng.choice(INTS)}
        if rng.random() < 0.5:
            sub['y'] = {'z': rng.choice(INTS)}
        d['a'] = sub
    elif r < 0.75:
        d['a'] = rng.choice(INTS)
    r = rng.random()
    if r < 0.45:
        d['arr'] = [{'p': rng.choice(INTS)} for _ in range(rng.choice([1, 2, 2, 3]))]
    elif r < 0.6:
        d['arr'] = [rng.choice(INTS) for _ in range(rng.choice([1, 2]))]
    elif r < 0.7:
        d['arr'] = []
    elif r < 0.75:
        d['arr'] = None
    if rng.random() < 0.3:
        d['s'] = rng.choice(['', 'a', 'b'])
    return d


def gen_state(rng):
    na = rng.choice([1, 2, 2, 3, 3, 4])
    nb = rng.choice([0, 1, 2, 3])
    state = {'a': [gen_doc(rng, i, 'a') for i in range(na)],
             'b': [gen_doc(rng, i, 'b') for i in range(nb)],
             'indexes': []}
    if rng.random() < 0.4:
        state['indexes'].append([rng.choice(['a', 'b']), rng.choice(['k', 'a.x', 's'])])
    if rng.random() < 0.15:
        state['c'] = [{'_id': 100 + i, 'k': i} for i in range(rng.choice([1, 2]))]
    return state


# ---- expressions (only what matters for identity: references, literals, constructors) ----

def gen_expr(rng, model):
    r = rng.random()
    if r < 0.16:
        return rng.choice(INTS)
    if r < 0.30:
        return '$k'
    if r < 0.48:
        return rng.choice(['$a', '$a', '$a.y', '$arr'] if not model else ['$a', '$a', '$a.y'])
    if r < 0.56:
        return '$$ROOT'
    if r < 0.70:
        return {'$literal': rng.choice([{'q': 1}, {'q': {'r': 1}}, [1], 7])}
    if r < 0.82:
        return {'u': rng.choice(['$k', '$a', 1]), 'v': rng.choice(['$a.x', '$missing', 2])}
    if r < 0.88:
        return [1, 2]
    if model:
        return rng.choice(['$a', '$k'])
    return rng.choice([{'$add': ['$k', 1]}, {'$ifNull': ['$a', {'d': 1}]},
                       {'$arrayElemAt': ['$arr', 0]}, {'$cond': ['$k', '$a', '$arr']}])


PATHS = ['n', 'n', 'a.w', 'a.w', 'a.y.w', 'a.x.q', 'm.p', 'arr.w', 'k', 'a', 'n.w', 'j.w', 'f.w', 'q.w']


def gen_addfields(rng, model):
    op = rng.choice(['$addFields', '$set'])
    spec = {}
    for _ in range(rng.choice([1, 1, 2])):
        spec[rng.choice(PATHS)] = gen_expr(rng, model)
    return {op: spec}


def gen_match(rng, model):
    return {'$match': rng.choice([{}, {'k': 1}, {'k': 0}, {'k': {'$gte': 1}}, {'a.x': 1}]
                                  if not model else [{}, {'k': 1}, {'k': 0}, {'k': 2}])}


def gen_lookup(rng, model):
    return {'$lookup': {'from': rng.choice(['b', 'b', 'a']),
                        'localField': rng.choice(['k', 'k', 'a.x'] if not model else ['k']),
                        'foreignField': rng.choice(['k', 'k', '_id'] if not model else ['k']),
                        'as': rng.choice(['j', 'j', 'a', 'arr'])}}


def gen_unwind(rng, model):
    p = rng.choice(['$arr', '$arr', '$arr', '$a', '$j', '$p'])
    r = rng.random()
    if r < 0.5:
        return {'$unwind': p}
    o = {'path': p}
    if rng.random() < 0.7:
        o['preserveNullAndEmptyArrays'] = True
    if not model and rng.random() < 0.3:
        o['includeArrayIndex'] = 'ix'
    return {'$unwind': o}


def gen_project(rng, model):
    r = rng.random()
    if r < 0.3:
        return {'$project': rng.choice([{'k': 1, 'a': 1}, {'a': 1, 'arr': 1}, {'_id': 0, 'a': 1},
                                        {'_id': 0, 'k': 1, 'arr': 1}, {'j': 1, 'a': 1}])}
    if r < 0.45 and not model:
        return {'$project': rng.choice([{'a': 0}, {'_id': 0}, {'a.x': 1}, {'arr.p': 1, 'k': 1},
                                        {'a.y': 0}])}
    spec = {}
    if rng.random() < 0.4:
        spec['_id'] = 0
    if rng.random() < 0.5:
        spec[rng.choice(['k', 'a', 'arr'])] = 1
    spec[rng.choice(['n', 'm', 'a'])] = gen_expr(rng, model)
    return {'$project': spec}


def gen_group(rng, model):
    gid = rng.choice([None, None, '$k', '$k', '$a'] if not model else [None, None, '$k', '$k'])
    spec = {'_id': gid}
    accs = [('f', {'$first': '$a'}), ('p', {'$push': '$a'}), ('c', {'$sum': 1}),
            ('r', {'$push': '$$ROOT'}), ('l', {'$last': '$arr'}), ('f', {'$first': '$$ROOT'})]
    if not model:
        accs += [('s', {'$addToSet': '$k'}), ('m', {'$max': '$k'}), ('g', {'$avg': '$k'})]
    for _ in range(rng.choice([1, 1, 2])):
        k, v = rng.choice(accs)
        spec[k] = v
    return {'$group': spec}


def gen_replace_root(rng, model):
    return {'$replaceRoot': {'newRoot': rng.choice(
        ['$a', '$a', {'q': '$a', 'k': '$k'}, {'$literal': {'q': {'r': 1}}}, '$$ROOT', '$a.y'])}}


def gen_simple(rng, model, in_facet):
    r = rng.random()
    if r < 0.22:
        return gen_addfields(rng, model)
    if r < 0.34:
        return gen_lookup(rng, model)
    if r < 0.46:
        return gen_unwind(rng, model)
    if r < 0.56:
        return gen_project(rng, model)
    if r < 0.64 and not model:
        return gen_group(rng, model)
    if r < 0.70:
        return gen_match(rng, model)
    if r < 0.75:
        return gen_replace_root(rng, model)
    if r < 0.79:
        return {'$sort': rng.choice([{'k': 1}, {'k': -1}, {'_id': -1}] if not model
                                    else [{'_id': -1}, {'_id': 1}])}
    if r < 0.83:
        return {rng.choice(['$skip', '$limit']): rng.choice([0, 1, 2])}
    if r < 0.88:
        return {'$sample': {'size': rng.choice([0, 1, 2, 5])}}
    if r < 0.91:
        return {'$count': 'n'}
    if r < 0.94 and not model:
        return rng.choice([
            {'$graphLookup': {'from': 'b', 'startWith': '$k', 'connectFromField': 'k',
                              'connectToField': 'k', 'as': 'g', 'maxDepth': 0}},
            {'$bucket': {'groupBy': '$k', 'boundaries': [0, 1, 3], 'default': 'other',
                         'output': {'p': {'$push': '$a'}}}},
            {'$sample': {'size': 1, 'bogus': 1}},
            {'$sample': {}},
        ])
    return gen_addfields(rng, model)


def gen_facet(rng, model):
    titles = ['x', 'y', 'z'][:rng.choice([2, 2, 3])]
    spec = {}
    for t in titles:
        n = rng.choice([0, 1, 1, 2, 2, 3])
        spec[t] = [gen_simple(rng, model, True) for _ in range(n)]
    return {'$facet': spec}


def gen_pipeline(rng, model=False):
    n = rng.choice([1, 1, 2, 2, 3, 4])
    p = []
    for _ in range(n):
        if rng.random() < 0.28:
            p.append(gen_facet(rng, model))
        else:
            p.append(gen_simple(rng, model, False))
    if rng.random() < 0.15:
        p.append({'$out': rng.choice(['c', 'c', 'c', 'b', 'a'])})
    return p


def stage_ops(p, acc=None):
    acc = acc if acc is not None else []
    for st in p:
        for op, opts in st.items():
            acc.append(op)
            if op == '$facet' and isinstance(opts, dict):
                for sub in opts.values():
                    stage_ops(sub, acc)
    return acc
