"""(development helper) build the C01 entries of known_findings.json from literal witnesses,
checking each against the real code and the model."""
import json, sys, os
sys.path.insert(0, os.path.dirname(os.path.abspath(__file__)))
import wire
from mongomock.filtering import filter_applies

W = [
 ('boolnum', "Python == identifies True/False with 1/0: {a: 1} selects {a: true}",
  {'a': 1}, {'a': True}, 'F'),
 ('docoperand', "sub-document equality ignores field order: {a: {x:1,y:2}} selects {a: {y:2,x:1}}",
  {'a': {'x': 1, 'y': 2}}, {'a': {'y': 2, 'x': 1}}, 'F'),
 ('arrayoperand', "explicit $eq/$in with an array operand does not try the elements: {a: {$in: [[1,2]]}} misses {a: [1,2]}",
  {'a': {'$in': [[1, 2]]}}, {'a': [1, 2]}, 'T'),
 ('deadend', "a path that dead-ends in a scalar yields no candidate: {'a.b': null} misses {a: 5}",
  {'a.b': None}, {'a': 5}, 'T'),
 ('multicand', "$exists:false over an array of sub-documents holds when ANY element lacks the field",
  {'b.b': {'$exists': False}}, {'b': [{'b': 1}, {}]}, 'F'),
 ('multiop', "a multi-operator condition must be met by ONE candidate: {a: {$gt:1, $lt:5}} misses {a: [0, 10]}... and $ne mixed with positives on no candidate",
  {'c.d': {'$lte': None, '$exists': 0}}, {}, 'T'),
 ('emptydocoperand', "equality with an empty sub-document selects documents lacking the field: {a: {}} selects {}",
  {'a': {}}, {}, 'F'),
 ('nullorder', "{$lte: null} / {$gte: null} do not select a missing field",
  {'c': {'$lte': None}}, {'a': 2}, 'T'),
 ('ext:$all', "$all: [] selects everything",
  {'a': {'$all': []}}, {'a': -1}, 'F'),
 ('ext:$size', "$size: 1 selects truthy scalars and one-field sub-documents",
  {'a': {'$size': 1}}, {'a': 'ba'}, 'F'),
 ('ext:$elemMatch', "$elemMatch inherits the $all/$size deviations for its element conditions",
  {'c': {'$elemMatch': {'$size': 1}}}, {'c': ['b', 2]}, 'F'),
 ('lazyvalidation', "a malformed part of a filter is only rejected if evaluation reaches it: {c: 1, $or: []} is accepted when c differs",
  {'c': 1, '$or': []}, {'c': 2}, 'E'),
]
out = []
lines = []
for label, what, f, d, spec in W:
    o = wire.Oids()
    wf, wd = wire.encs(f, o), wire.encs(d, o)
    try: py = 'T' if filter_applies(f, d) else 'F'
    except Exception as e: py = 'E'
    assert py != spec, (label, py, spec)
    lines.append('c01 %s %s' % (wf, wd))
    out.append({'property': 'C01', 'id': label, 'status': 'known', 'what': what,
                'witness': {'filter': f, 'doc': d, 'wire_filter': wf, 'wire_doc': wd, 'spec': spec, 'python': py}})
res = wire.run_driver(lines)
for e, r in zip(out, res):
    impl, spec, reasons = [x.strip() for x in r.split('|')]
    n = lambda x: '?' if x.startswith('!?') else 'E' if x.startswith('!') else x
    assert n(impl) == e['witness']['python'], (e['id'], impl)
    assert n(spec) == e['witness']['spec'], (e['id'], spec)
    assert e['id'] in reasons.split() or e['id'] == 'lazyvalidation', (e['id'], reasons)
    print(e['id'], 'ok', reasons)
path = os.path.join(wire.VERIF, 'known_findings.json')
data = json.load(open(path)) if os.path.exists(path) else {'findings': []}
data['findings'] = [x for x in data['findings'] if x['property'] != 'C01'] + out
json.dump(data, open(path, 'w'), indent=1)
