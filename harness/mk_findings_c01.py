"""(development helper) build the C01 entries of known_findings.json from literal witnesses,
checking each against the real code and the model: a known finding must still deviate from the
rules (code = model != rules, under its label), a fixed one must follow them (code = model =
rules)."""
import json, sys, os
sys.path.insert(0, os.path.dirname(os.path.abspath(__file__)))
import wire
from mongomock.filtering import filter_applies

W = [
 ('boolnum', "Python == identifies True/False with 1/0: {a: 1} selects {a: true}",
  {'a': 1}, {'a': True}, 'F'),
 ('docoperand', "sub-document equality ignores field order: {a: {x:1,y:2}} selects {a: {y:2,x:1}}",
  {'a': {'x': 1, 'y': 2}}, {'a': {'y': 2, 'x': 1}}, 'F'),
 ('arrayoperand', "explicit $eq/$in with an array operand does not try the elements: {a: {$in: [[1,2]]}} misses {a: [1,2]}",
  {'a': {'$in': [[1, 2]]}}, {'a': [1, 2]}, 'T'),
 ('notnocand', "$not does not hold on a path that reaches nothing (an index past the end of an array, a field name over an array of scalars): {'a.b': {$not: {$size: 2}}} misses {a: []}",
  {'a.b': {'$not': {'$size': 2}}}, {'a': []}, 'T'),
 ('multicand', "$exists:false over an array of sub-documents holds when ANY element lacks the field",
  {'b.b': {'$exists': False}}, {'b': [{'b': 1}, {}]}, 'F'),
 ('multiop', "a multi-operator condition must be met by ONE candidate: {'a.b': {$gt: 1, $lt: 5}} misses {a: [{b: 0}, {b: 10}]}... and $ne mixed with positives on no candidate",
  {'a.b': {'$gt': 1, '$lt': 5}}, {'a': [{'b': 0}, {'b': 10}]}, 'T'),
 ('allelem', "an $elemMatch item of $all is applied to the list of candidates as if it were the array: {b: {$all: [{$elemMatch: {$eq: 2}}]}} selects {b: 2}",
  {'b': {'$all': [{'$elemMatch': {'$eq': 2}}]}}, {'b': 2}, 'F'),
 ('allmulticand', "$all over several candidates does not search the array-valued ones (TypeError when the first one is an array and another is not iterable): {'a.b': {$all: [2]}} misses {a: [{b: 1}, {b: [2, 3]}]}",
  {'a.b': {'$all': [2]}}, {'a': [{'b': 1}, {'b': [2, 3]}]}, 'T'),
 ('lazyvalidation', "a malformed part of a filter is only rejected if evaluation reaches it: {c: 1, $or: []} is accepted when c differs (reached by evaluation only: every key after one that already failed and every sub-filter of $and/$or/$nor after the one that decides, the names inside $not and $elemMatch, and the arguments of the operators - e.g. {'a.0': {$in: 5}} and {'a.0': {$not: {$foo: 1}}} are accepted on {a: []}, {a: {$gt: 1, $in: 5}} on {a: 0}; the operator names of a condition itself are checked whatever its key reaches, see the fixed record lazyunknownop) (Lean: Props.C01.rejects_malformed_full_fails)",
  {'c': 1, '$or': []}, {'c': 2}, 'E'),
]

# (id, what, filter, doc, what the rules say, commit in the library, python before the repair)
FIXED = [
 ('emptydocoperand', "equality with an empty sub-document selects documents lacking the field: {a: {}} selects {}",
  {'a': {}}, {}, 'F', '247c965', 'T'),
 ('nullorder', "{$lte: null} / {$gte: null} do not select a missing field",
  {'c': {'$lte': None}}, {'a': 2}, 'T', '133fdcf', 'F'),
 ('ext:$all', "$all: [] selects everything",
  {'a': {'$all': []}}, {'a': -1}, 'F', '37df98d', 'T'),
 ('allnull', "a null item of $all is not met by a missing field: {a: {$all: [null]}} misses {}",
  {'a': {'$all': [None]}}, {}, 'T', '42c4894', 'F'),
 ('ext:$size', "$size: 1 selects truthy scalars and one-field sub-documents",
  {'a': {'$size': 1}}, {'a': 'ba'}, 'F', '6050070', 'T'),
 ('ext:$elemMatch', "$elemMatch inherits the $all/$size deviations for its element conditions",
  {'c': {'$elemMatch': {'$size': 1}}}, {'c': ['b', 2]}, 'F', '6050070', 'T'),
 ('deadend', "a path that dead-ends in a scalar yields no candidate: {'a.b': null} misses {a: 5}",
  {'a.b': None}, {'a': 5}, 'T', '69ced08', 'F'),
 ('toplevelnot', "a top-level $not is accepted and always true, so that an operator query of $elemMatch made of $not selects every element: {a: {$elemMatch: {$not: {$ne: 5}}}} selects {a: [1]}",
  {'a': {'$elemMatch': {'$not': {'$ne': 5}}}}, {'a': [1]}, 'F', 'b0b21d1', 'T'),
 ('emptykey', "the empty field name is read as the document itself instead of a field name: {'': 1} misses {'': 1} (and 'a.' is read as 'a')",
  {'': 1}, {'': 1}, 'T', 'a1a344b', 'F'),
 ('lazyunknownop', "an unknown operator in a condition is accepted when the key reaches no value: {'a.0': {$foo: 1}} is accepted (and selects nothing) on {a: []}",
  {'a.0': {'$foo': 1}}, {'a': []}, 'E', '6c55e75', 'F'),
]
n = lambda x: '?' if x.startswith('!?') else 'E' if x.startswith('!') else x
out = []
lines = []
for label, what, f, d, spec in W:
    o = wire.Oids()
    wf, wd = wire.encs(f, o), wire.encs(d, o)
    try: py = 'T' if filter_applies(f, d) else 'F'
    except Exception as e: py = 'E'
    assert py != spec, (label, py, spec)
    lines.append('c01 %s %s' % (wf, wd))
    out.append({'property': 'C01', 'id': label, 'status': 'known', 'what': what,
                'witness': {'filter': f, 'doc': d, 'wire_filter': wf, 'wire_doc': wd, 'spec': spec, 'python': py}})
for label, what, f, d, spec, commit, before in FIXED:
    o = wire.Oids()
    wf, wd = wire.encs(f, o), wire.encs(d, o)
    try: py = 'T' if filter_applies(f, d) else 'F'
    except Exception as e: py = 'E'
    assert py == spec, (label, py, spec)
    lines.append('c01 %s %s' % (wf, wd))
    out.append({'property': 'C01', 'id': label, 'status': 'fixed', 'commit': commit, 'what': what,
                'fixed': 'fixed: property=C01 %s %s' % (commit, what),
                'witness': {'filter': f, 'doc': d, 'wire_filter': wf, 'wire_doc': wd, 'spec': spec, 'python': before}})
res = wire.run_driver(lines)
for e, r in zip(out, res):
    impl, spec, reasons, deep = [x.strip() for x in r.split('|')]
    labels = reasons.split() + deep.split()
    assert n(spec) == e['witness']['spec'], (e['id'], spec)
    if e['status'] == 'known':
        assert n(impl) == e['witness']['python'], (e['id'], impl)
        assert e['id'] in labels or e['id'] == 'lazyvalidation', (e['id'], labels)
    else:
        assert n(impl) == n(spec), (e['id'], impl, spec)
    print(e['id'], e['status'], 'ok', labels)
path = os.path.join(wire.VERIF, 'known_findings.json')
data = json.load(open(path)) if os.path.exists(path) else {'findings': []}
# C01 entries keep their place (before the other properties' entries they preceded)
first = min([i for i, x in enumerate(data['findings']) if x['property'] == 'C01'] or [0])
rest = [x for x in data['findings'] if x['property'] != 'C01']
nbefore = len([x for x in data['findings'][:first] if x['property'] != 'C01'])
data['findings'] = rest[:nbefore] + out + rest[nbefore:]
json.dump(data, open(path, 'w'), indent=1)
