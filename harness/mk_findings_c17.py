"""one-off: (re)write the C17 entries of known_findings.json; each witness is replayed on the
library here.  Entries repaired in the library (status "fixed") are kept as they are - all seven
are by now (vanish_last_doc / vanish_last_index by fix 93f3c92: existence is recorded); an entry of
W that is not yet recorded as fixed must still deviate, or this script stops."""
import json, os, sys
sys.path.insert(0, os.path.dirname(os.path.abspath(__file__)))
import common, wire
from props import c17

W = [
 ('vanish_last_doc',
  'existence is derived, not recorded: deleting the last document of a collection that was not '
  'explicitly created removes it from list_collection_names() (and its database from '
  'list_database_names())',
  [['insert', 0, 'd1', 'a', 'new', 1], ['delete_one', 0, 'd1', 'a', 'old', 1],
   ['list_collection_names', 0, 'd1', 'old', None]],
  'names:' + c17.S('a')),
 ('vanish_last_index',
  'dropping the last index (drop_index / drop_indexes) of a document-less collection that was '
  'not explicitly created removes it from the listings',
  [['create_index', 0, 'd1', 'a', 'new', [['x', 1]], None, False, False],
   ['drop_index', 0, 'd1', 'a', 'old', 'x_1', None],
   ['list_collection_names', 0, 'd1', 'old', None]],
  'names:' + c17.S('a')),
 ('rename_self_droptarget',
  'rename_collection(n, n, dropTarget=True) succeeds and destroys the documents and indexes '
  '(MongoDB refuses to rename a collection to itself)',
  [['insert', 0, 'd1', 'a', 'new', 1], ['rename_collection', 0, 'd1', 'old', 'a', 'a', True],
   ['find', 0, 'd1', 'a', 'old']],
  'ids:1'),
 ('filter_lists_uncreated',
  'list_collection_names(filter=...) iterates over every lazily created store: it lists names '
  'that were only read (or were dropped) and do not exist',
  [['find', 0, 'd1', 'a', 'new'], ['list_collection_names', 0, 'd1', 'old', ['e', 'a']]],
  'names:'),
 ('drop_database_foreign_handle',
  'drop_database(<Database handle of another client>) raises StopIteration instead of dropping '
  'the database of that name',
  [['insert', 0, 'd1', 'a', 'new', 1], ['drop_database_h', 0, 1, 'd1', 'new']],
  'ok'),
 ('drop_collection_foreign_handle',
  'db.drop_collection(<Collection handle of another database>) drops that other collection '
  'instead of db\'s collection of that name (pymongo uses only the name of the handle)',
  [['insert', 0, 'd1', 'a', 'new', 1], ['insert', 0, 'd2', 'a', 'new', 2],
   ['drop_collection_h', 0, 'd1', 'old', 0, 'd2', 'a', 'old'], ['find', 0, 'd1', 'a', 'old']],
  'ids:'),
 ('system_create_existing',
  'create_collection on an existing system.* collection succeeds: the existence check goes '
  'through list_collection_names(), which hides system collections',
  [['create_collection', 0, 'd1', 'new', 'system.js'],
   ['create_collection', 0, 'd1', 'old', 'system.js']],
  '!CollectionInvalid'),
]

path = os.path.join(common.VERIF, 'known_findings.json')
data = json.load(open(path))
# entries repaired in the library (status "fixed") are kept as they are
FIXED = {e['id'] for e in data['findings'] if e.get('property') == 'C17' and e.get('status') == 'fixed'}
data['findings'] = [e for e in data['findings'] if e.get('property') != 'C17' or e['id'] in FIXED]
for fid, what, actions, spec in W:
    if fid in FIXED:
        continue
    ex = c17.Exec('light')
    for i, a in enumerate(actions):
        ex.cur = i
        ex.act(a)
    py = c17.canon(ex.py[-1])
    assert py != spec, (fid, py, spec)
    data['findings'].append({'property': 'C17', 'id': fid, 'status': 'known', 'what': what,
                             'witness': {'actions': actions, 'model_line': ex.line(),
                                         'observed_by': ex.ops[-1], 'spec': spec, 'python': py}})
    print(fid, 'python', py, 'spec', spec)
json.dump(data, open(path, 'w'), indent=1)
