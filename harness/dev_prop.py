"""development: run a property module's correspondence without the proof step"""
import sys, importlib, json
sys.path.insert(0, '/verif/harness')
import common, histcheck
prop = sys.argv[1]; n = int(sys.argv[2]); seed = int(sys.argv[3]) if len(sys.argv) > 3 else 0
ctx = common.Ctx(prop.upper(), 'quick' if n < 5000 else 'thorough', seed)
mod = importlib.import_module('props.' + prop.lower())
ctx.n = lambda q, t: n
cov = mod.run(ctx, {}, True)
cov.pop('samples', None)
print(json.dumps({k: cov[k] for k in cov if k in ('evaluations', 'histories', 'distinct_nontrivial', 'stats')}, default=repr))
print('known seen', ctx.known_seen)
for rank, _, r, no_input in sorted(ctx.violations, key=lambda v: (v[3], v[0]))[:5]:
    print('VIOL', no_input, json.dumps(r, default=repr)[:1800])
print(len(ctx.violations), 'violations')
