"""C19: every iterating reader of the store against every kind of writer, judged directly on the
real `Collection` / `CollectionStore` (mongomock/collection.py + store.py), no model involved.

The property: "Writers exclude ... all readers" and "a reader iterating the collection sees it as
it was at one instant".  The readers that ITERATE `_documents` are the `documents` generator of the
store — consumed directly, or by the public operations that go through it (find, find_one,
count_documents, distinct, aggregate, the read phase of delete_many / update_many, the pre-check
of create_index(unique=True), which consumes it step by step and may throw into it) — and the
collection of the expired keys of a TTL expiry pass.  The writers are whatever ends in a write
section of the store: insert, delete (one / many), the insert of an upsert (update_one /
replace_one), the deletes of a TTL expiry pass.

For every (reader, writer) pair ALL single-preemption schedules are run under the deterministic
scheduler of `sched.py` (switch points: lock operations and every document an iteration hands
out): the reader (thread 0) runs k steps, k = 0, 1, 2, … until it finishes on its own; then the
writer (thread 1) runs as far as it can (to completion, or until it blocks); then the reader runs
to its end; then the writer.  The store is traced by `sched.trace_store` (wrappers that only
observe) and the log of the run is judged by `sched.judge_iterations`:
  (a) no other thread enters a write section between the first document an iteration hands out
      and the last time its consumer comes back to it;
  (b) the documents an iteration hands out are, in order, the content of the collection at one
      instant between its beginning and its end;
and, as for every schedule: both operations complete, no exception other than the one the
operation is meant to raise, the lock is free afterwards, the monitor saw no writer inside together
with anybody else.
"""
import datetime

import mongomock
import mongomock.thread as mthread

import sched

OLD = datetime.datetime(2000, 1, 1)
FAR = datetime.datetime(2999, 1, 1)
NDOCS = 4
EXPIRED = (0, 3)


# ---------------------------------------------------------------------------------------------
# set-ups: four documents 0..3; documents 0 and 3 carry a date long past (they expire once a TTL
# index on `t` exists); every `t` is an object of its own

def _docs():
    out = []
    for i in range(NDOCS):
        t = (OLD if i in EXPIRED else FAR) + datetime.timedelta(seconds=i)
        out.append({'_id': i, 'k': 'v%d' % i, 'g': i % 2, 't': t})
    return out


def _setup_plain(c):
    c.insert_many(_docs())


def _setup_ttl(c):
    c.create_index('t', expireAfterSeconds=1)
    # straight into the store: an insert through the collection would run an expiry pass
    for d in _docs():
        c._store._documents[d['_id']] = d


SETUPS = {
    'plain': (_setup_plain,
              "c.insert_many([{'_id': i, 'k': 'v%d' % i, 'g': i % 2, 't': (datetime(2000, 1, 1) if "
              "i in (0, 3) else datetime(2999, 1, 1)) + timedelta(seconds=i)} for i in range(4)])"),
    'ttl': (_setup_ttl,
            "c.create_index('t', expireAfterSeconds=1); the same four documents put into the store "
            "(0 and 3 are expired and not yet removed)"),
}


def _consume(c):
    for _ in c._store.documents:
        pass


def _consume_some(c):
    g = c._store.documents
    for n, _ in enumerate(g):
        if n == 1:
            break
    g.close()


class Op(object):
    """name, python text, operation, names of the exceptions it is meant to raise, the _ids it
    deletes (through `del store[_id]`, which presumes that the key is still there)"""

    def __init__(self, name, text, fn, raises=(), deletes=(), quick=True):
        self.name = name
        self.text = text
        self.fn = fn
        self.raises = tuple(raises)
        self.deletes = tuple(deletes)
        self.quick = quick


READERS = [
    Op('documents', "for doc in c._store.documents: pass", _consume),
    Op('documents, closed after two', "g = c._store.documents; next(g, None); next(g, None); g.close()",
       _consume_some),
    Op('find', "list(c.find())", lambda c: list(c.find())),
    Op('find_one', "c.find_one({'_id': 3})", lambda c: c.find_one({'_id': 3})),
    Op('count_documents', "c.count_documents({'g': 0})", lambda c: c.count_documents({'g': 0})),
    Op('distinct', "c.distinct('k')", lambda c: c.distinct('k')),
    Op('aggregate', "list(c.aggregate([{'$match': {'g': 1}}]))",
       lambda c: list(c.aggregate([{'$match': {'g': 1}}]))),
    Op('create_index unique', "c.create_index('k', unique=True)",
       lambda c: c.create_index('k', unique=True)),
    Op('create_index unique, duplicates', "c.create_index('g', unique=True)",
       lambda c: c.create_index('g', unique=True), raises=('DuplicateKeyError',)),
    Op('delete_many', "c.delete_many({'g': 0, '_id': {'$gt': 1}})",
       lambda c: c.delete_many({'g': 0, '_id': {'$gt': 1}}), deletes=(2,)),
    Op('update_many', "c.update_many({'g': 1}, {'$set': {'seen': 1}})",
       lambda c: c.update_many({'g': 1}, {'$set': {'seen': 1}})),
]


def _ttl_delete(c):
    c.create_index('t', expireAfterSeconds=1)
    c.find_one({'_id': 2})


WRITERS = [
    Op('insert_one', "c.insert_one({'_id': 9, 'k': 'v9', 'g': 9})",
       lambda c: c.insert_one({'_id': 9, 'k': 'v9', 'g': 9}), quick=False),
    Op('delete_one', "c.delete_one({'_id': 1})", lambda c: c.delete_one({'_id': 1}),
       deletes=(1,), quick=False),
    Op('delete_many', "c.delete_many({'_id': {'$in': [0, 3]}})",
       lambda c: c.delete_many({'_id': {'$in': [0, 3]}}), deletes=(0, 3)),
    Op('insert_many, delete_one',
       "c.insert_many([{'_id': 7, 'k': 'v7', 'g': 7}, {'_id': 8, 'k': 'v8', 'g': 8}]); "
       "c.delete_one({'_id': 2})",
       lambda c: (c.insert_many([{'_id': 7, 'k': 'v7', 'g': 7}, {'_id': 8, 'k': 'v8', 'g': 8}]),
                  c.delete_one({'_id': 2})), deletes=(2,)),
    Op('update_one upsert', "c.update_one({'_id': 7}, {'$set': {'k': 'v7', 'g': 7}}, upsert=True)",
       lambda c: c.update_one({'_id': 7}, {'$set': {'k': 'v7', 'g': 7}}, upsert=True),
       quick=False),
    Op('replace_one upsert', "c.replace_one({'_id': 8}, {'k': 'v8', 'g': 8}, upsert=True)",
       lambda c: c.replace_one({'_id': 8}, {'k': 'v8', 'g': 8}, upsert=True), quick=False),
    Op('TTL expiry delete', "c.create_index('t', expireAfterSeconds=1); c.find_one({'_id': 2})",
       _ttl_delete),
]

PLAIN_QUICK_TOO = (('documents', 'update_one upsert'), ('find', 'insert_one'),
                   ('create_index unique', 'delete_one'), ('count_documents', 'replace_one upsert'))
# (on the TTL collection 0 and 3 are gone after the reader's own expiry pass: the writers that
# matter there are those that touch 1, 2 or new documents)
TTL_QUICK = (('documents', 'insert_many, delete_one'), ('find', 'delete_one'),
             ('create_index unique', 'insert_many, delete_one'), ('delete_many', 'delete_one'),
             ('count_documents', 'insert_many, delete_one'))


def pairs(tier='quick'):
    """[(setup name, reader, writer)].  thorough: every reader against every writer on the plain
    collection, and against every writer but the TTL one on the collection that has a TTL index
    already (there every read begins with an expiry pass: an iterating reader followed by
    deletes).  quick: on the plain collection every reader against the three writers that make
    two writes (needed for an iteration to come out torn) and each single-write writer against
    one reader; on the TTL collection five pairs."""
    out = []
    for r in READERS:
        for w in WRITERS:
            if tier == 'quick' and not w.quick and (r.name, w.name) not in PLAIN_QUICK_TOO:
                continue
            out.append(('plain', r, w))
    for r in READERS:
        for w in WRITERS:
            if w.name == 'TTL expiry delete':
                continue                       # the index is there already
            if tier == 'quick' and (r.name, w.name) not in TTL_QUICK:
                continue
            out.append(('ttl', r, w))
    return out


# ---------------------------------------------------------------------------------------------

def _collection(s, setup):
    c = mongomock.MongoClient().db.c19
    setup(c)
    orig = mthread.threading
    mthread.threading = sched.CoopThreading(s)
    try:
        rw = mthread.RWLock()
    finally:
        mthread.threading = orig
    st = c._store
    st._rwlock = sched.MonitorRWLock(rw, s)
    sched.trace_store(s, st, hook_steps=True)
    return c


def run_pair(setup_name, reader, writer, k, want_story=False):
    """reader = thread 0, writer = thread 1 (stopped at an explicit switch point before its first
    action).  Returns a dict: status, exceptions, steps thread 0 took before the writer ran, the
    problems found, the log as text"""
    s = sched.Scheduler()
    c = _collection(s, SETUPS[setup_name][0])
    results = {}

    def body_for(op, stop_first):
        def body(w):
            try:
                if stop_first:
                    s.hook(('yield',))
                results[w.idx] = op.fn(c)
            except Exception as e:  # pylint: disable=broad-except
                w.events.append((type(e).__name__, '%s: %s' % (type(e).__name__, e), e))
                s.event('the operation RAISES', '%s: %s' % (type(e).__name__, e))
        return body
    s.add_worker(body_for(reader, False))
    s.add_worker(body_for(writer, True))
    status, used, blocked = s.run([0] * k + [1] * 400)
    before = 0
    for t in used:
        if t != 0:
            break
        before += 1
    problems = []
    if status != 'completed':
        problems.append({'clause': 'completion',
                         'what': 'deadlock: blocked %r' % (blocked,)})
    ops = (reader, writer)
    for w in s.workers:
        for name, text, exc in w.events:
            if name in ops[w.idx].raises:
                continue
            p = {'clause': 'no internal error', 'what': 'thread %d raised %s' % (w.idx, text),
                 'thread': w.idx}
            # two threads deleting the same document: the one that comes second finds the key
            # gone (`del self._store[doc_id]` in Collection._delete)
            if (isinstance(exc, KeyError) and exc.args and exc.args[0] in ops[w.idx].deletes
                    and exc.args[0] in ops[1 - w.idx].deletes):
                p['class'] = 'concurrent-delete-keyerror'
            problems.append(p)
    if status == 'completed' and not all(l.count == 0 for l in s.locks):
        problems.append({'clause': 'lock released', 'what': 'the lock is still held at the end'})
    if s.exclusion_violated:
        problems.append({'clause': 'exclusion',
                         'what': 'a writer was inside a section together with somebody else'})
    if status == 'completed':
        problems += sched.judge_iterations(s)
    iters = [it for it in s.iterations if it.first is not None]
    contended = False                 # the writer got to run while an iteration was under way
    for it in iters:
        if it.thread == 0 and any(e[0] == 1 for e in s.trace[it.first:max(it.last, it.resumed or 0) + 1]):
            contended = True
    # thread 0's iterations as ranges of its own step count (how many steps it had taken when
    # the first / the last document was handed out)
    windows = []
    for it in iters:
        if it.thread == 0:
            def taken(pos):
                return len([1 for e in s.trace[:pos] if e[0] == 0 and
                            e[1] in ('acq', 'rel', 'yield')])
            windows.append((taken(it.first), taken(it.last)))
    mark = None
    for p in problems:
        if 'position_in_log' in p:
            mark = p['position_in_log']
            break
    return {'status': status, 'before': before, 'problems': problems,
            'iterations': len(iters), 'contended': contended, 'windows': windows,
            'results': results,
            'exceptions': [(w.idx, ev[1]) for w in s.workers for ev in w.events],
            'final_ids': list(c._store._documents.keys()),
            'story': sched.story(s, c._store, mark) if (problems or want_story) else None}


def describe(setup_name, reader, writer, k, res, problems=None):
    problems = res['problems'] if problems is None else problems
    return {
        'iter_probe': {'setup': setup_name, 'reader': reader.name, 'writer': writer.name, 'k': k},
        'setup': "c = mongomock.MongoClient().db.c; " + SETUPS[setup_name][1],
        'reader (thread 0)': reader.text,
        'writer (thread 1)': writer.text,
        'schedule': 'thread 0 runs %d steps (a step = one lock operation, or one document handed '
                    'out by an iteration); then thread 1 runs as far as it can; then thread 0 '
                    'runs to its end; then thread 1' % k,
        'violated': [p['what'] for p in problems],
        'problems': problems,
        'what_happened': res['story'],
        'observed': {'status': res['status'], 'exceptions': res['exceptions'],
                     'final _ids in the store': res['final_ids']},
        'python': ('# deterministic replay:\nimport sys; sys.path.insert(0, "harness")\n'
                   'import c19_iter_probe as p\nr = p.rerun(%r, %r, %r, %d)\n'
                   'print(r["problems"]); print("\\n".join(r["story"]))\n'
                   % (setup_name, reader.name, writer.name, k)),
    }


def rerun(setup_name, reader_name, writer_name, k):
    reader = [r for r in READERS if r.name == reader_name][0]
    writer = [w for w in WRITERS if w.name == writer_name][0]
    return run_pair(setup_name, reader, writer, k, want_story=True)


def sweep(tier='quick', known=(), kmax=400):
    """returns (coverage dict, [replay dict] of the failing pairs — per pair the earliest
    preemption point for each clause that fails (quick: the earliest failing one only) —,
    {known class: count}).  known: the classes
    listed in known_findings.json (a problem of such a class is counted, not reported).
    Preemption points: thorough — every step of the reader; quick — the steps at which one of the
    reader's iterations is under way (from one step before its first document to one step after
    its last), found by running the reader alone first"""
    bad = []
    runs = contended = iterations = 0
    failing_pairs = 0
    known_seen = {}
    rows = pairs(tier)
    per_reader = {}
    for setup_name, reader, writer in rows:
        seen_clauses = set()
        alone = run_pair(setup_name, reader, writer, kmax)      # the reader first, then the writer
        if tier == 'quick':
            ks = sorted({k for lo, hi in alone['windows'] for k in range(max(lo - 1, 0), hi + 2)})
        else:
            ks = list(range(alone['before'] + 1))
        for k in ks + [kmax]:
            res = alone if k == kmax else run_pair(setup_name, reader, writer, k)
            runs += 1
            iterations += res['iterations']
            if res['contended']:
                contended += 1
                per_reader[reader.name] = per_reader.get(reader.name, 0) + 1
            fresh = []
            for p in res['problems']:
                if p.get('class') in known:
                    known_seen[p['class']] = known_seen.get(p['class'], 0) + 1
                elif p['clause'] not in seen_clauses:
                    fresh.append(p)
            if fresh:
                if not seen_clauses:
                    failing_pairs += 1
                seen_clauses.update(p['clause'] for p in fresh)
                bad.append(describe(setup_name, reader, writer, k, res, fresh))
                if tier == 'quick':
                    break                # quick: the earliest failing preemption point will do
    cov = {'pairs': len(rows), 'readers': len(READERS), 'writers': len(WRITERS),
           'schedules_run': runs, 'iterations_judged': iterations,
           'schedules_in_which_the_writer_ran_while_the_reader_was_iterating': contended,
           'of_which_per_reader': per_reader, 'failing_pairs': failing_pairs}
    return cov, bad, known_seen


DELETE_ONE_2 = Op('delete_one of 2', "c.delete_one({'_id': 2})",
                  lambda c: c.delete_one({'_id': 2}), deletes=(2,))


# the smallest instance of the class `concurrent-delete-keyerror` (witness of the finding, repaired
# in the library by a0040b0: `_delete` removes through `store.discard`, which tells whether it
# removed something)
def delete_delete_witness(k=None, any_problem=False):
    """two threads delete the same document; the first is preempted between reading the
    collection and deleting.  Returns (k, result) of a preemption point at which a thread raises
    KeyError (any_problem: at which anything at all goes wrong — an exception, a deadlock, a
    writer admitted during an iteration, or the two calls not reporting one removed document
    between them), or (None, None)"""
    a = b = DELETE_ONE_2
    found = (None, None)
    for kk in ([k] if k is not None else range(60)):
        res = run_pair('plain', a, b, kk, want_story=True)
        if res['status'] == 'completed' and not res['exceptions']:
            counts = [getattr(res['results'].get(t), 'deleted_count', None) for t in (0, 1)]
            if sorted(counts, key=repr) != [0, 1]:
                res['problems'].append({
                    'clause': 'a delete counts what it removes',
                    'what': 'two delete_one of the one document _id 2 report deleted_count %r '
                            'and %r: exactly one of them removed it' % tuple(counts)})
        for p in res['problems']:
            if p.get('class') == 'concurrent-delete-keyerror':
                if p['thread'] == 0:       # thread 1 ran from its beginning to its end in one go
                    return kk, res
                if found[0] is None:
                    found = (kk, res)
        if any_problem and res['problems'] and found[0] is None:
            found = (kk, res)
        if res['before'] < kk:
            break
    return found
