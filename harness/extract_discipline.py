"""C19 translator: record the lock discipline of `CollectionStore` (mongomock/store.py) by tracing.

Per store method we record, in order, the reader/writer sections it opens and the reads,
iterations and mutations of `_documents`, `indexes`, `_ttl_indexes` (recording dict subclasses,
a recording wrapper around the RWLock, and call markers on the store's own methods so that a
nested call such as `self._remove_expired_documents()` appears as ONE step).  Loops are folded:
`iterBegin d, (iterNext d, body)*, iterEnd d` becomes `forBegin d, body, forEnd d` when all
bodies agree (an iteration over `_documents` with empty bodies is the atomic `collect`), and a
run of identical blocks whose keys are the ids collected before becomes `collBegin, block,
collEnd`.

The snapshot idiom `for x in list(d.values()): body` is recognised as ONE atomic action followed
by a loop over the thread's own list: every `next()` on the dict iterator is issued by one C call
(`list(...)`: the frame that owns the iterator sits at a CALL instruction all the time, no
bytecode of store.py runs between two elements — under the GIL no other thread can get in), and
the blocks that follow use the snapshotted VALUES one after the other (checked by object
identity): `snapBegin d, block, snapEnd d`.  An iteration driven by FOR_ITER (a `for` statement
or a comprehension over the live dict) is NOT that: it stays `forBegin d, body, forEnd d`, the
iteration the model can interrupt.  Anything that does not fit is emitted as `.unknown` for that
method.
"""
import collections
import contextlib
import datetime
import dis
import sys

from mongomock import store as mstore

import extract_rwlock

DICTS = {'_documents': 'docs', 'indexes': 'indexes', '_ttl_indexes': 'ttl'}
METHODS = collections.OrderedDict([
    ('__contains__', 'contains'), ('__getitem__', 'getItem'), ('__setitem__', 'setItem'),
    ('__delitem__', 'delItem'), ('discard', 'discard'), ('__len__', 'len'), ('documents', 'documents'),
    ('is_empty', 'isEmpty'), ('_expire_documents', 'expireDocuments'),
    ('_remove_expired_documents', 'removeExpired'), ('create_index', 'createIndex'),
    ('create_index_ttl', 'createIndexTtl'), ('drop_index', 'dropIndex')])
OLD = datetime.datetime(2000, 1, 1)


def _driver_of_next():
    """what asks the recording iterator for its next element: 'call' when the nearest Python frame
    (the C caller has none) is executing a CALL* instruction — `list(it)`, `tuple(it)`, … consume
    the iterator inside one C call — and 'for' when it is executing FOR_ITER or anything else"""
    f = sys._getframe(2)
    op = None
    for ins in dis.get_instructions(f.f_code):
        if ins.offset > f.f_lasti:
            break
        op = ins.opname
    return 'call' if op is not None and op.startswith('CALL') else 'for'


class RecIter(object):
    def __init__(self, it, name, log, keyof):
        self.it, self.name, self.log, self.keyof = it, name, log, keyof
        log.append(('iterBegin', name))

    def __iter__(self):
        return self

    def __next__(self):
        via = _driver_of_next()
        try:
            x = next(self.it)
        except StopIteration:
            self.log.append(('iterEnd', self.name, via))
            raise
        self.log.append(('iterNext', self.name, self.keyof(x), via))
        return x


def _rec_dict_class(base):
    class Rec(base):
        _c19 = None   # (name, log)

        def __getitem__(self, k):
            self._c19[1].append(('getItem', self._c19[0], k))
            return base.__getitem__(self, k)

        def __contains__(self, k):
            self._c19[1].append(('read', self._c19[0]))
            return base.__contains__(self, k)

        def __len__(self):
            self._c19[1].append(('read', self._c19[0]))
            return base.__len__(self)

        def get(self, k, d=None):
            self._c19[1].append(('read', self._c19[0]))
            return base.get(self, k, d)

        def __setitem__(self, k, v):
            self._c19[1].append(('setItem', self._c19[0], k))
            base.__setitem__(self, k, v)

        def __delitem__(self, k):
            self._c19[1].append(('delItem', self._c19[0], k))
            base.__delitem__(self, k)

        def pop(self, k, *d):
            self._c19[1].append(('popItem', self._c19[0], k))
            return base.pop(self, k, *d)

        def values(self):
            if self._c19[0] == 'docs':
                return RecIter(iter(base.values(self)), self._c19[0], self._c19[1],
                               lambda v: v.get('_id') if isinstance(v, dict) else None)
            # index specifications have no id of their own: identify them by object identity
            return RecIter(iter(base.values(self)), self._c19[0], self._c19[1],
                           lambda v: ('obj', id(v)))

        def items(self):
            return RecIter(iter(base.items(self)), self._c19[0], self._c19[1], lambda kv: kv[0])

        def keys(self):
            return RecIter(iter(base.keys(self)), self._c19[0], self._c19[1], lambda k: k)

        def __iter__(self):
            return RecIter(base.__iter__(self), self._c19[0], self._c19[1], lambda k: k)
    return Rec


RecOrdered = _rec_dict_class(collections.OrderedDict)
RecPlain = _rec_dict_class(dict)


class RecRWLock(object):
    def __init__(self, inner, log):
        self.inner, self.log = inner, log

    @contextlib.contextmanager
    def _section(self, w):
        self.log.append(('enter', w))
        try:
            with (self.inner.writer() if w else self.inner.reader()):
                yield
        finally:
            self.log.append(('leave', w))

    def reader(self):
        return self._section(False)

    def writer(self):
        return self._section(True)


def _traced_class(log):
    base = mstore.CollectionStore

    def wrap(name):
        orig = getattr(base, name)

        def f(self, *a, **kw):
            log.append(('call', name, a[0] if a else None))
            try:
                return orig(self, *a, **kw)
            finally:
                log.append(('ret', name))
        return f

    ns = {}
    for name in ('__contains__', '__getitem__', '__setitem__', '__delitem__', 'discard', '__len__',
                 '_expire_documents', '_remove_expired_documents', 'create_index', 'drop_index'):
        if hasattr(base, name):
            ns[name] = wrap(name)
    if isinstance(getattr(base, 'is_empty', None), property):
        orig_ie = base.is_empty.fget

        def is_empty(self):
            log.append(('call', 'is_empty', None))
            try:
                return orig_ie(self)
            finally:
                log.append(('ret', 'is_empty'))
        ns['is_empty'] = property(is_empty)
    return type('TracedStore', (base,), ns)


def make_store(log, docs, ttl_names, idx_names=()):
    st = mstore.CollectionStore('c19')
    d = RecOrdered()
    for k, expired in docs:
        collections.OrderedDict.__setitem__(d, k, {'_id': k, 't': OLD} if expired else {'_id': k})
    d._c19 = ('docs', log)
    st._documents = d
    ix, tt = RecPlain(), RecPlain()
    for n in idx_names:
        dict.__setitem__(ix, n, {'key': [('x', 1)]})
    for n in ttl_names:
        spec = {'key': [('t', 1)], 'expireAfterSeconds': 1}
        dict.__setitem__(ix, n, spec)
        dict.__setitem__(tt, n, spec)
    ix._c19 = ('indexes', log)
    tt._c19 = ('ttl', log)
    st.indexes, st._ttl_indexes = ix, tt
    st._rwlock = RecRWLock(st._rwlock, log)
    st.__class__ = _traced_class(log)
    return st


TTL_SPEC = {'key': [('t', 1)], 'expireAfterSeconds': 1}
KEY = 7


def run_method(pyname):
    """returns (events, key argument of the call)"""
    log = []
    if pyname == '_remove_expired_documents':
        st = make_store(log, [(0, False)], ['ta', 'tb'])
    elif pyname == '_expire_documents':
        st = make_store(log, [(0, True), (1, False), (2, True)], ['ta'])
    elif pyname == 'drop_index':
        st = make_store(log, [(0, False), (KEY, False)], [], idx_names=[KEY])
    else:
        st = make_store(log, [(0, False), (KEY, False)], [])
    del log[:]
    if pyname == '__contains__':
        KEY in st
    elif pyname == '__getitem__':
        st[KEY]
    elif pyname == '__setitem__':
        st[KEY + 1] = {'_id': KEY + 1}
        return log, KEY + 1
    elif pyname == '__delitem__':
        del st[KEY]
    elif pyname == 'discard':
        # what Collection._delete removes a document with; whatever it returns is not an event
        # of the discipline (the correspondence compares it: sched.py `discard`)
        st.discard(KEY)
    elif pyname == '__len__':
        len(st)
    elif pyname == 'is_empty':
        st.is_empty
    elif pyname == 'documents':
        log.append(('call', 'documents', None))
        for _ in st.documents:
            log.append(('yield',))
        log.append(('ret', 'documents'))
    elif pyname == '_remove_expired_documents':
        st._remove_expired_documents()
    elif pyname == '_expire_documents':
        st._expire_documents(dict(TTL_SPEC))
    elif pyname == 'create_index':
        st.create_index(KEY, {'key': [('x', 1)]})
    elif pyname == 'create_index_ttl':
        st.create_index(KEY, dict(TTL_SPEC))
    elif pyname == 'drop_index':
        st.drop_index(KEY)
    return log, KEY


class Untranslatable(Exception):
    pass


def top_level(events):
    """own events of the outermost call; nested calls collapsed to ('call', name, key)"""
    out, depth = [], 0
    for ev in events:
        if ev[0] == 'call':
            depth += 1
            if depth == 2:
                out.append(ev)
        elif ev[0] == 'ret':
            depth -= 1
        elif depth == 1:
            out.append(ev)
    if depth != 0:
        raise Untranslatable('unbalanced calls')
    return out


def fold_loops(evs, snaps=None):
    """fold iterBegin/iterNext/iterEnd into forBegin/body/forEnd, collect or snapshot; returns
    (events, ids collected by the last `collect`); the values taken by a `snapshot d` are stored
    in `snaps[d]`"""
    out, collected, i = [], None, 0
    snaps = {} if snaps is None else snaps
    while i < len(evs):
        ev = evs[i]
        if ev[0] != 'iterBegin':
            if ev[0] in ('iterNext', 'iterEnd'):
                raise Untranslatable('iteration step outside a loop')
            out.append(ev)
            i += 1
            continue
        d = ev[1]
        j = i + 1
        bodies, keys, cur, started, vias = [], [], [], False, []
        while j < len(evs) and not (evs[j][0] == 'iterEnd' and evs[j][1] == d):
            if evs[j][0] == 'iterBegin' and evs[j][1] == d:
                raise Untranslatable('nested iteration over one dict')
            if evs[j][0] == 'iterNext' and evs[j][1] == d:
                if started:
                    bodies.append(cur)
                started, cur = True, []
                keys.append(evs[j][2])
                vias.append(evs[j][3])
            else:
                if not started:
                    raise Untranslatable('event before first element')
                cur.append(evs[j])
            j += 1
        if j == len(evs):
            raise Untranslatable('iteration not finished')
        vias.append(evs[j][2])
        if started:
            bodies.append(cur)
        if len(bodies) < 2:
            raise Untranslatable('loop observed with fewer than two elements')
        folded = [fold_loops(b, snaps)[0] for b in bodies]
        if any(b != folded[0] for b in folded):
            raise Untranslatable('loop bodies differ')
        if not folded[0] and d == 'docs':
            out.append(('collect',))
            collected = keys
        elif not folded[0] and all(v == 'call' for v in vias):
            # the whole dict is read by one C call: an atomic snapshot of its values
            if d in snaps:
                raise Untranslatable('two snapshots of one dict')
            out.append(('snapshot', d))
            snaps[d] = keys
        else:
            out += [('forBegin', d)] + folded[0] + [('forEnd', d)]
        i = j + 1
    return out, collected


def strip_keys(block, key):
    res = []
    for ev in block:
        if ev[0] in ('getItem', 'setItem', 'delItem', 'popItem'):
            if ev[2] != key:
                raise Untranslatable('key of %s is not the loop id' % ev[0])
            res.append((ev[0], ev[1], 'ck'))
        elif ev[0] == 'call':
            if ev[2] != key:
                raise Untranslatable('argument of nested call is not the loop id')
            res.append(('call', ev[1], 'ck'))
        else:
            res.append(ev)
    return res


def fold_collected(evs, collected, expired_expected):
    """the events after the last `leave` following `collect`: k identical blocks, block i using
    the i-th collected id"""
    if collected is None:
        return evs
    ci = max(i for i, e in enumerate(evs) if e[0] == 'collect')
    li = next(i for i in range(ci, len(evs)) if evs[i][0] == 'leave')
    head, tail = evs[:li + 1], evs[li + 1:]
    ids = [k for k in collected if k in expired_expected]
    if not tail:
        return evs
    if len(ids) < 2 or len(tail) % len(ids):
        raise Untranslatable('cannot split the per-id blocks')
    n = len(tail) // len(ids)
    blocks = [strip_keys(tail[i * n:(i + 1) * n], ids[i]) for i in range(len(ids))]
    if any(b != blocks[0] for b in blocks):
        raise Untranslatable('per-id blocks differ')
    return head + [('collBegin',)] + blocks[0] + [('collEnd',)]


def fold_snapshots(evs, snaps):
    """`snapshot d` followed by one block per snapshotted value, block i using exactly the i-th
    value (as the argument of a nested call) → `snapBegin d, block, snapEnd d`"""
    for d, vals in snaps.items():
        at = [i for i, e in enumerate(evs) if e == ('snapshot', d)]
        if len(at) != 1:
            raise Untranslatable('snapshot of %s not at top level' % d)
        head, tail = evs[:at[0]], evs[at[0] + 1:]
        k = len(vals)
        if k < 2 or len(set(vals)) != k:
            raise Untranslatable('snapshot observed with fewer than two distinct values')

        def uses(ev):
            return [v for v in vals if ev[0] == 'call' and isinstance(ev[2], dict)
                    and ('obj', id(ev[2])) == v]

        done = False
        for n in range(1, len(tail) // k + 1):
            blocks = [tail[i * n:(i + 1) * n] for i in range(k)]
            ok = all(sorted(set(sum((uses(e) for e in b), []))) == [vals[i]]
                     for i, b in enumerate(blocks))
            if not ok:
                continue
            abstract = [[('call', e[1], None) if uses(e) else e for e in b] for b in blocks]
            if any(b != abstract[0] for b in abstract):
                continue
            if any(uses(e) for e in tail[k * n:]):
                continue
            evs = head + [('snapBegin', d)] + abstract[0] + [('snapEnd', d)] + tail[k * n:]
            done = True
            break
        if not done:
            raise Untranslatable('cannot split the blocks over the snapshot of ' + d)
    return evs


def to_dsteps(evs, key):
    steps = []
    for ev in evs:
        k = ev[0]
        if k in ('enter', 'leave'):
            steps.append('.%s %s' % (k, 'true' if ev[1] else 'false'))
        elif k == 'read':
            steps.append('.read .%s' % ev[1])
        elif k in ('getItem', 'setItem', 'delItem', 'popItem'):
            if ev[2] == 'ck':
                ck = 'true'
            elif ev[2] == key:
                ck = 'false'
            else:
                raise Untranslatable('%s with a key that is not the argument' % k)
            steps.append('.%s .%s %s' % (k, ev[1], ck))
        elif k == 'collect':
            steps.append('.collect')
        elif k in ('forBegin', 'forEnd', 'snapBegin', 'snapEnd'):
            steps.append('.%s .%s' % (k, ev[1]))
        elif k == 'yield':
            steps.append('.yield')
        elif k in ('collBegin', 'collEnd'):
            steps.append('.' + k)
        elif k == 'call':
            if ev[1] not in METHODS:
                raise Untranslatable('call of ' + ev[1])
            if ev[2] == 'ck':
                ck = 'true'
            elif ev[2] is None or ev[2] == key or isinstance(ev[2], dict):
                ck = 'false'
            else:
                raise Untranslatable('nested call with a foreign key')
            steps.append('.call .%s %s' % (METHODS[ev[1]], ck))
        else:
            raise Untranslatable('event ' + k)
    return steps


def extract():
    """returns (OrderedDict lean method name -> list of DStep strings or None, notes)"""
    res, notes = collections.OrderedDict(), []
    for pyname, lname in METHODS.items():
        try:
            if pyname != 'create_index_ttl' and not hasattr(mstore.CollectionStore, pyname):
                raise Untranslatable('method missing')
            events, key = run_method(pyname)
            evs = top_level(events)
            snaps = {}
            evs, collected = fold_loops(evs, snaps)
            evs = fold_snapshots(evs, snaps)
            evs = fold_collected(evs, collected, {0, 2})
            res[lname] = to_dsteps(evs, key)
        except Untranslatable as e:
            notes.append('%s: %s' % (pyname, e))
            res[lname] = None
        except Exception as e:  # pylint: disable=broad-except
            notes.append('%s: tracing raised %s: %s' % (pyname, type(e).__name__, e))
            res[lname] = None
    return res, notes


def render(res, notes):
    lines = ['-- GENERATED by harness/extract_discipline.py from mongomock/store.py — do not edit',
             'import MongoModel.RWLock', 'namespace MongoModel.Generated',
             'open MongoModel.RWLock', '']
    for n in notes:
        lines.append('-- NOTE: ' + n)
    lines.append('def discipline : Discipline :=')
    rows = []
    for lname, steps in res.items():
        body = '[.unknown]' if steps is None else '[' + ', '.join(steps) + ']'
        rows.append('    (.%s, %s)' % (lname, body))
    lines.append('  [\n' + ',\n'.join(rows) + ' ]')
    lines += ['', 'end MongoModel.Generated', '']
    return '\n'.join(lines)


write_if_changed = extract_rwlock.write_if_changed

if __name__ == '__main__':
    r, n = extract()
    print(render(r, n))
