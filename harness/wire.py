"""Wire codec between Python values and the Lean model driver (see lean/MongoModel/Wire.lean)."""
import datetime as _dt
import os
import subprocess

from sentinels import NOTHING

import mongomock
from mongomock import ObjectId

EPOCH = _dt.datetime(1970, 1, 1)
VERIF = os.path.dirname(os.path.dirname(os.path.abspath(__file__)))
DRIVER = os.path.join(VERIF, 'lean', '.lake', 'build', 'bin', 'mmdriver')


class Unencodable(Exception):
    pass


class FixedOffset(_dt.tzinfo):
    def __init__(self, minutes):
        self._m = minutes

    def __getinitargs__(self):
        # tzinfo.__reduce__ rebuilds through the constructor: without this a decoded (replayed)
        # history that holds a tz-aware datetime cannot be deep-copied
        return (self._m,)

    def utcoffset(self, dt):
        return _dt.timedelta(minutes=self._m)

    def tzname(self, dt):
        return 'FO%+d' % self._m

    def dst(self, dt):
        return _dt.timedelta(0)

    def __repr__(self):
        return 'FixedOffset(%d)' % self._m

    def __eq__(self, other):
        return isinstance(other, _dt.tzinfo) and other.utcoffset(None) == self.utcoffset(None)

    def __hash__(self):
        return hash(self._m)


def _oid_of_value(n):
    """the ObjectId whose underlying value is n (mongomock's stand-in wraps a 16-byte UUID,
    bson.ObjectId holds 12 bytes)"""
    for width in (32, 24):
        try:
            return ObjectId('%0*x' % (width, n))
        except Exception:  # pylint: disable=broad-except
            continue
    raise ValueError('cannot build ObjectId %d' % n)


class Oids(object):
    """ObjectIds numbered by first appearance; numbers below FRESH are generator-made: number n is
    the ObjectId of value n, so that generator-made ids are ordered like their numbers (the order
    MongoModel/Bson.lean `oidCmp` gives them).  Numbers from FRESH on are ids the library
    generated; their order is not modelled."""
    FRESH = 1000

    def __init__(self):
        self.by_obj = {}
        self.by_num = {}
        self.next_fresh = self.FRESH

    def make(self, n):
        if n not in self.by_num:
            o = _oid_of_value(n)
            self.by_num[n] = o
            self.by_obj[o] = n
        return self.by_num[n]

    def num(self, o):
        if o not in self.by_obj:
            n = self.next_fresh
            self.next_fresh += 1
            self.by_obj[o] = n
            self.by_num[n] = o
        return self.by_obj[o]


def _us(delta):
    return (delta.days * 86400 + delta.seconds) * 1000000 + delta.microseconds


def enc(v, oids, out=None):
    """Append the tokens of value v to out (a list) and return it."""
    if out is None:
        out = []
    if v is NOTHING:
        out.append('_')
    elif v is None:
        out.append('N')
    elif v is True:
        out.append('T')
    elif v is False:
        out.append('F')
    elif isinstance(v, int):
        out.append('I%d' % v)
    elif isinstance(v, float):
        if v != v or v in (float('inf'), float('-inf')):
            raise Unencodable('non-finite float')
        m, d = v.as_integer_ratio()
        out.append('D%d/%d' % (m, d.bit_length() - 1))
    elif isinstance(v, str):
        out.append('S' + v.encode('utf-8').hex())
    elif isinstance(v, _dt.datetime):
        us = _us(v.replace(tzinfo=None) - EPOCH)
        if v.tzinfo is None:
            out.append('t%d' % us)
        else:
            off = v.utcoffset()
            offus = _us(off)
            if offus % 60000000:
                raise Unencodable('sub-minute offset')
            out.append('t%d@%d' % (us, offus // 60000000))
    elif isinstance(v, ObjectId):
        out.append('O%d' % oids.num(v))
    elif isinstance(v, dict):
        out.append('{')
        for k, x in v.items():
            if not isinstance(k, str):
                raise Unencodable('non-string key')
            out.append('S' + k.encode('utf-8').hex())
            enc(x, oids, out)
        out.append('}')
    elif isinstance(v, (list, tuple)):
        out.append('[')
        for x in v:
            enc(x, oids, out)
        out.append(']')
    else:
        raise Unencodable(type(v).__name__)
    return out


def encs(v, oids):
    return ' '.join(enc(v, oids))


def dec_tokens(ts, i, oids):
    t = ts[i]
    if t == '_':
        return NOTHING, i + 1
    if t == 'N':
        return None, i + 1
    if t == 'T':
        return True, i + 1
    if t == 'F':
        return False, i + 1
    if t == '{':
        d = {}
        i += 1
        while ts[i] != '}':
            k = bytes.fromhex(ts[i][1:]).decode('utf-8')
            d[k], i = dec_tokens(ts, i + 1, oids)
        return d, i + 1
    if t == '[':
        l = []
        i += 1
        while ts[i] != ']':
            x, i = dec_tokens(ts, i, oids)
            l.append(x)
        return l, i + 1
    c, body = t[0], t[1:]
    if c == 'I':
        return int(body), i + 1
    if c == 'D':
        m, e = body.split('/')
        return int(m) / float(2 ** int(e)), i + 1
    if c == 'S':
        return bytes.fromhex(body).decode('utf-8'), i + 1
    if c == 't':
        if '@' in body:
            us, off = body.split('@')
            return (EPOCH + _dt.timedelta(microseconds=int(us))).replace(
                tzinfo=FixedOffset(int(off))), i + 1
        return EPOCH + _dt.timedelta(microseconds=int(body)), i + 1
    if c == 'O':
        return oids.make(int(body)) if int(body) < Oids.FRESH else ('O', int(body)), i + 1
    raise ValueError('bad token %r' % t)


def dec(s, oids=None):
    ts = s.split()
    v, i = dec_tokens(ts, 0, oids or Oids())
    return v


def pretty(v):
    """A JSON-able, human readable rendering for samples and replays."""
    if v is NOTHING:
        return '<NOTHING>'
    if isinstance(v, dict):
        return {k: pretty(x) for k, x in v.items()}
    if isinstance(v, (list, tuple)):
        return [pretty(x) for x in v]
    if isinstance(v, _dt.datetime):
        return 'datetime(%s)' % v.isoformat()
    if isinstance(v, ObjectId):
        return 'ObjectId(..)'
    if isinstance(v, (int, float, str, bool)) or v is None:
        return v
    return repr(v)


def run_driver(lines, timeout=3600):
    """Feed lines to the compiled model driver, return its output lines."""
    if not lines:
        return []
    if not os.path.exists(DRIVER):
        raise RuntimeError('model driver not built: ' + DRIVER)
    data = ('\n'.join(lines) + '\n').encode('ascii')
    p = subprocess.run([DRIVER], input=data, stdout=subprocess.PIPE, stderr=subprocess.PIPE,
                       timeout=timeout)
    if p.returncode != 0:
        raise RuntimeError('model driver failed: ' + p.stderr.decode('utf-8', 'replace')[-2000:])
    out = p.stdout.decode('ascii').split('\n')
    if out and out[-1] == '':
        out.pop()
    if len(out) != len(lines):
        raise RuntimeError('model driver answered %d lines for %d' % (len(out), len(lines)))
    return out


def err_name(exc):
    """Map a Python exception to the model's error enum name."""
    from mongomock import (DuplicateKeyError, WriteError, OperationFailure, BulkWriteError,
                           InvalidOperation, CollectionInvalid, InvalidName)
    if isinstance(exc, DuplicateKeyError):
        return 'DuplicateKeyError'
    if isinstance(exc, WriteError):
        return 'WriteError'
    if isinstance(exc, BulkWriteError):
        return 'BulkWriteError'
    if isinstance(exc, OperationFailure):
        return 'OperationFailure'
    if isinstance(exc, NotImplementedError):
        return 'NotImplementedError'
    if isinstance(exc, InvalidOperation):
        return 'InvalidOperation'
    if isinstance(exc, CollectionInvalid):
        return 'CollectionInvalid'
    if isinstance(exc, InvalidName):
        return 'InvalidName'
    if isinstance(exc, TypeError):
        return 'TypeError'
    if isinstance(exc, ValueError):
        return 'ValueError'
    if isinstance(exc, KeyError):
        return 'KeyError'
    if isinstance(exc, IndexError):
        return 'IndexError'
    if isinstance(exc, AttributeError):
        return 'AttributeError'
    return 'Error'


def assert_repo():
    """The implementation under test must be /repo's working tree."""
    p = os.path.realpath(mongomock.__file__)
    # development only: VERIF_DEV_REPO=<scratch worktree> (with PYTHONPATH pointing there) lets a
    # seeded change be tried without touching /repo; the registered commands never set it
    dev = os.environ.get('VERIF_DEV_REPO')
    root = os.path.realpath(dev) + '/' if dev else '/repo/'
    if not p.startswith(root):
        raise RuntimeError('mongomock imported from %s, not %s' % (p, root))
