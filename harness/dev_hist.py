import sys, random, collections, json
sys.path.insert(0, '/verif/harness')
import wire, hist
seed = int(sys.argv[1]); N = int(sys.argv[2]); L = int(sys.argv[3]) if len(sys.argv) > 3 else 12
ttl = len(sys.argv) > 4 and sys.argv[4] == 'ttl'
rng = random.Random(seed)
cases = []; lines = []
for i in range(N):
    oids = wire.Oids()
    hg = hist.HistGen(rng, oids, ttl=ttl)
    h = hg.history(rng.randint(1, L))
    try: line = hist.model_line(h, oids)
    except wire.Unencodable: continue
    pyres = hist.run_python(h, oids)
    cases.append((h, oids, pyres)); lines.append(line)
out = wire.run_driver(lines)
def split_array(tokens):
    assert tokens[0] == '[' and tokens[-1] == ']', tokens
    items = []; depth = 0; cur = []
    for t in tokens[1:-1]:
        cur.append(t)
        if t in '{[': depth += 1
        elif t in '}]': depth -= 1
        if depth == 0: items.append(' '.join(cur)); cur = []
    return items
stats = collections.Counter(); bad = 0; errs = collections.Counter()
for (h, oids, pyres), o in zip(cases, out):
    steps = hist.split_steps(o)
    assert len(steps) == len(h), (len(steps), len(h), o[:200])
    pyseq = []; mseq = []
    for op, (po, pobs, extra, _, _), (mo, mobs) in zip(h, pyres, steps):
        if op[0] == 'distinct' and mo and mo[0] == '[':
            mo = ['set'] + sorted(split_array(mo))
            mo = ' '.join(mo).split()
        pyseq.append((po.split(), pobs.split())); mseq.append((mo, mobs))
    # renumber fresh oids consistently
    flat_p = hist.renumber_fresh([t for a, b in pyseq for t in a + ['|'] + b + [';']])
    flat_m = hist.renumber_fresh([t for a, b in mseq for t in a + ['|'] + b + [';']])
    sp = ' '.join(flat_p).split(' ; '); sm = ' '.join(flat_m).split(' ; ')
    for i, (a, b) in enumerate(zip(sp, sm)):
        stats[h[i][0]] += 1
        if a.startswith('!'): errs[a.split()[0]] += 1
        if '!?unmodelled' in b:
            stats['unmodelled'] += 1
            break
        if a != b:
            # allow error-class differences (both raise) for now but count them
            if a.split(' | ')[0].startswith('!') and b.split(' | ')[0].startswith('!') and a.split(' | ')[1:] == b.split(' | ')[1:] and 'Bulk' not in a:
                stats['errclass'] += 1; errs['cls:%s/%s' % (a.split()[0], b.split()[0])] += 1
                continue
            bad += 1
            if bad <= 6:
                print('DIFF at step', i, 'op', json.dumps(wire.pretty(h[i]), default=repr))
                print('  py   :', a[:400]); print('  model:', b[:400])
                print('  history:', json.dumps(wire.pretty(h[:i]), default=repr)[:1200])
            break
print(stats); print(errs); print('bad', bad, 'of', len(cases))
