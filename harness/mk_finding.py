"""(development helper) add a history-witnessed known finding after checking that the property's
own oracle reports exactly that label on the real code.
usage: mk_finding.py <PROP> <label> <what> <python literal history>"""
import ast, json, os, sys, importlib
sys.path.insert(0, os.path.dirname(os.path.abspath(__file__)))
import wire, histcheck
prop, label, what, lit = sys.argv[1:5]
mod = importlib.import_module('props.' + prop.lower())
history = ast.literal_eval(lit)
oids = wire.Oids()
py = histcheck.run_history(history, oids, getattr(mod, 'server_version', '5.0.5'), getattr(mod, 'probe', None),
                           getattr(mod, 'pre_probe', None))
fails = mod.oracle(history, py)
assert any(l == label for (_, l, _) in fails), fails
print('oracle reports:', fails)
path = os.path.join(wire.VERIF, 'known_findings.json')
data = json.load(open(path))
data['findings'] = [x for x in data['findings'] if not (x['property'] == prop and x['id'] == label)]
data['findings'].append({'property': prop, 'id': label, 'status': 'known', 'what': what,
                         'witness': {'history': history, 'wire_history': wire.encs(history, oids)}})
json.dump(data, open(path, 'w'), indent=1)
