"""(development helper) merge an agent's delivery from /tmp/agents/<id>/verif into /verif:
copies untracked (new) files, appends import lines to the lake root files, registers the driver
handler, merges the known_findings entries of the given property."""
import json, os, re, shutil, subprocess, sys
aid, prop = sys.argv[1], sys.argv[2].upper()
src = '/tmp/agents/%s/verif' % aid
dst = '/verif'
out = subprocess.run(['git', 'status', '--short', '-uall'], cwd=src, stdout=subprocess.PIPE).stdout.decode()
base = sys.argv[3] if len(sys.argv) > 3 else None
if base:
    out2 = subprocess.run(['git', 'diff', '--name-status', base, 'HEAD'], cwd=src, stdout=subprocess.PIPE).stdout.decode()
    out += ''.join('?? %s\n' % l.split('\t')[1] for l in out2.splitlines() if l.startswith('A'))
for line in out.splitlines():
    st, path = line[:2], line[3:]
    if st == '??' and not path.startswith(('evidence/', 'replays/', '.work/')):
        os.makedirs(os.path.dirname(os.path.join(dst, path)) or dst, exist_ok=True)
        shutil.copy2(os.path.join(src, path), os.path.join(dst, path))
        print('new', path)
# root import files
for root in ['lean/MongoModel.lean', 'lean/Spec.lean', 'lean/Proofs.lean', 'lean/Props.lean', 'lean/Generated.lean']:
    a = os.path.join(src, root); b = os.path.join(dst, root)
    if not os.path.exists(a): continue
    have = open(b).read().splitlines() if os.path.exists(b) else []
    add = [l for l in open(a).read().splitlines() if l.startswith('import') and l not in have]
    if add:
        open(b, 'a').write('\n'.join(add) + '\n'); print('imports', root, add)
# driver
m = open(os.path.join(src, 'lean/Driver/Main.lean')).read()
d = open(os.path.join(dst, 'lean/Driver/Main.lean')).read()
for imp in re.findall(r'^import (Driver\.\w+)', m, re.M):
    if 'import ' + imp not in d:
        d = d.replace('open MongoModel.Wire', 'import %s\nopen MongoModel.Wire' % imp, 1) if False else re.sub(r'(import Driver\.\w+\n)(?!import)', r'\1import %s\n' % imp, d, count=1)
for h in re.findall(r'Driver\.handle\w+', m):
    if h not in d:
        d = re.sub(r'\[(Driver\.handle[^\]]*)\]', lambda mm: '[' + mm.group(1) + ', ' + h + ']', d, count=1)
        print('handler', h)
open(os.path.join(dst, 'lean/Driver/Main.lean'), 'w').write(d)
# known findings
a = json.load(open(os.path.join(src, 'known_findings.json')))
b = json.load(open(os.path.join(dst, 'known_findings.json')))
mine = [e for e in a['findings'] if e['property'] == prop]
b['findings'] = [e for e in b['findings'] if e['property'] != prop] + mine
json.dump(b, open(os.path.join(dst, 'known_findings.json'), 'w'), indent=1)
print('findings', [e['id'] for e in mine])
# lakefile differences
if open(os.path.join(src, 'lean/lakefile.toml')).read() != open(os.path.join(dst, 'lean/lakefile.toml')).read():
    print('NOTE: lakefile.toml differs')
