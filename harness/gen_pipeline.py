"""Generator of aggregation pipelines and of the collections they run on (C03).

Documents share one schema (the typed fields of gen_expr plus a join / group key `k` and a
category `g`, small alphabets, present / null / missing) so that groups have several members,
arrays can be unwound and join keys hit and miss; a second collection `other` is the `$lookup`
target.  Stage parameters reuse the filter generator (gen_filter) and the type-directed expression
generator (gen_expr).  The generator tracks the shape of the documents flowing between stages
only loosely: accumulator fields of `$group` are named after input fields of the same type, so
later stages still mostly make sense.  All randomness comes from the one random.Random passed in.
"""
import collections
import copy
import datetime as _dt

import gen
import gen_expr
import gen_filter
import wire

KEYS = [1, 2, 3, 'a', None, 2.0, True]
CATS = ['x', 'y', 'z']
NONE_HANDLERS = ['$unset', '$sortByCount', '$replaceWith', '$merge', '$redact', '$bucketAuto']
OTHER_HANDLERS = ['$sample', '$out', '$graphLookup']
SORT_FIELDS = ['a', 'b', 's', 'k', 'g', 'f', 't', 'l', 'd.n', '_id', 'zz', 'x', 'm', 'q.n', 'u']
PROJ_FIELDS = ['a', 'b', 's', 'u', 'f', 'l', 'm', 't', 'd', 'x', 'q', 'k', 'g', 'zz']
PROJ_DOTTED = ['d.n', 'd.s', 'd.l', 'q.n', 'q.p', 'd.zz', 'x.n', 'a.b', 'd.n.z']


ODD_TZ = _dt.timezone(_dt.timedelta(hours=5, minutes=30))


def oddify(v, r):
    """the same pipeline with its datetimes written the way a caller may write them: with
    microseconds below the millisecond, or timezone-aware (same instant up to the millisecond) —
    `Collection.aggregate` reads them as UTC milliseconds"""
    if isinstance(v, dict):
        return type(v)((k, oddify(x, r)) for k, x in v.items())
    if isinstance(v, list):
        return [oddify(x, r) for x in v]
    if isinstance(v, _dt.datetime) and v.tzinfo is None:
        x = r.random()
        if x < 0.4:
            return v + _dt.timedelta(microseconds=r.choice([1, 456, 999]))
        if x < 0.8:
            return (v + _dt.timedelta(hours=5, minutes=30)).replace(tzinfo=ODD_TZ)
        return (v + _dt.timedelta(hours=5, minutes=30, microseconds=456)).replace(tzinfo=ODD_TZ)
    return v


class PipeGen(object):
    def __init__(self, rng, anomaly=0.02):
        self.r = rng
        self.anomaly = anomaly
        self.eg = gen_expr.ExprGen(rng, max_depth=3, anomaly=anomaly)
        self.vg = gen.Gen(rng, wire.Oids())
        self.fg = gen_filter.FilterGen(self.vg, malformed=anomaly, elem=True, regex=True)
        self.stages = collections.Counter()

    # -- collections ----------------------------------------------------------------------------
    def key_value(self):
        x = self.r.random()
        if x < 0.72:
            return self.r.choice(KEYS)
        if x < 0.84:
            return [self.r.choice(KEYS[:4]) for _ in range(self.r.choice([0, 1, 2]))]
        return {'p': self.r.choice([1, 2])}

    def docs(self):
        n = self.r.choice([0, 1, 2, 3, 4, 4, 5, 6, 7])
        if n == 0:
            return []
        base = self.eg.docs(n)
        out = []
        for d in base:
            o = dict(d)
            if self.r.random() < 0.85:
                o['k'] = self.key_value()
            if self.r.random() < 0.9:
                o['g'] = self.r.choice(CATS)
            out.append(o)
        return out

    def other_docs(self):
        n = self.r.choice([0, 1, 2, 3, 4, 5])
        out = []
        for i in range(n):
            o = {'_id': 10 + i}
            if self.r.random() < 0.88:
                o['fk'] = self.key_value()
            o['v'] = self.r.choice([1, 2, 3, 'a', None])
            if self.r.random() < 0.3:
                o['g'] = self.r.choice(CATS)
            out.append(o)
        return out

    # -- stages ---------------------------------------------------------------------------------
    def st_match(self, docs):
        x = self.r.random()
        if x < 0.05:
            # a datetime written in the filter, against the stored ones
            op = self.r.choice(['$gt', '$gte', '$lt', '$lte', '$ne', '$eq', '$in', None])
            v = self.r.choice(gen_expr.DATES)
            if op == '$in':
                v = [v, self.r.choice(gen_expr.DATES)]
            return {'$match': {'t': v if op is None else {op: v}}}
        if x < 0.12:
            e, _ = self.eg.top('bool')
            return {'$match': {'$expr': e}}
        if x < 0.4:
            f = self.r.choice(['a', 'b', 'k', 'g', 's', 'f', '_id', 'd.n', 'l', 'q.n'])
            op = self.r.choice(['$gt', '$gte', '$lt', '$lte', '$ne', '$eq', '$in', '$exists'])
            if op == '$in':
                v = [self.r.choice(KEYS + gen_expr.INTS) for _ in range(self.r.choice([1, 2, 3]))]
            elif op == '$exists':
                v = self.r.random() < 0.5
            else:
                v = self.r.choice(gen_expr.INTS + [0.5, 'a', 'x', 'y', None, True])
            return {'$match': {f: {op: v}}}
        if x < 0.5:
            return {'$match': {}}
        doc = self.r.choice(docs) if docs else None
        return {'$match': self.fg.filter(doc, depth=2)}

    def direction(self):
        x = self.r.random()
        if x < 0.9:
            return self.r.choice([1, -1])
        return self.r.choice([0, 2, -3, 1.0, -0.5, True, False, 'x', None])

    def st_sort(self, docs):
        n = self.r.choice([1, 1, 1, 2, 2, 3])
        spec = {}
        for f in self.r.sample(SORT_FIELDS, n):
            spec[f] = self.direction()
        if self.r.random() < 0.03:
            spec = self.r.choice([{}, None, 'a', [('a', 1)]])
        return {'$sort': spec}

    def slice_arg(self):
        x = self.r.random()
        if x < 0.85:
            return self.r.choice([0, 1, 1, 2, 2, 3, 5, 10])
        if x < 0.93:
            return self.r.choice([-1, -2, -10])
        return self.r.choice([None, True, False, 1.0, '1', [1], {}])

    def st_skip(self, docs):
        return {'$skip': self.slice_arg()}

    def st_limit(self, docs):
        return {'$limit': self.slice_arg()}

    def st_count(self, docs):
        x = self.r.random()
        if x < 0.85:
            return {'$count': self.r.choice(['n', 'count', 'a', '_id'])}
        return {'$count': self.r.choice(['', '$n', 'a.b', 5, None, {}])}

    def flag(self, on):
        return self.r.choice([1, 1, 1, True, 1.0] if on else [0, 0, 0, False, 0.0])

    def st_project(self, docs):
        x = self.r.random()
        spec = {}
        if x < 0.45:         # inclusion / exclusion only
            on = self.r.random() < 0.6
            pool = PROJ_FIELDS if self.r.random() < 0.65 else PROJ_FIELDS + PROJ_DOTTED * 2
            for f in self.r.sample(pool, self.r.choice([1, 1, 2, 2, 3])):
                spec[f] = self.flag(on)
            y = self.r.random()
            if y < 0.3:
                spec['_id'] = self.flag(False)
            elif y < 0.4:
                spec['_id'] = self.flag(True)
            if self.r.random() < 0.05:       # mixed modes
                spec[self.r.choice(PROJ_FIELDS)] = self.flag(not on)
            if self.r.random() < 0.3:        # `_id` first
                spec = dict([(k, v) for k, v in spec.items() if k == '_id'] +
                            [(k, v) for k, v in spec.items() if k != '_id'])
        elif x < 0.9:        # computed fields, possibly with inclusions
            for _ in range(self.r.choice([1, 1, 2])):
                name = self.r.choice(['r', 'r2', 'a', 's', 'l', 'd', 'n.m'])
                spec[name] = self.eg.top()[0]
            if self.r.random() < 0.5:
                for f in self.r.sample(PROJ_FIELDS + PROJ_DOTTED, self.r.choice([1, 2])):
                    spec.setdefault(f, self.flag(True))
            if self.r.random() < 0.3:
                spec['_id'] = self.flag(self.r.random() < 0.3)
            if self.r.random() < 0.5:
                items = list(spec.items())
                self.r.shuffle(items)
                spec = dict(items)
        else:
            spec = self.r.choice([{}, {'_id': 0}, {'_id': 1}, {'_id': 0, 'r': '$a'},
                                  {'a': 1, 'b': 0}, {'r': None}, {'r': ''}, {'r': {}},
                                  {'a': 0, 'r': '$b'}, {'a': 1, 'a.b': 1}, {'d.n': 1, 'd': 1},
                                  None, 'a', {'_id': '$a', 'b': 1}, {'r': [1, '$a']}])
        return {'$project': spec}

    def acc_arg(self, t):
        x = self.r.random()
        if x < 0.7:
            return self.eg.field(t)
        if x < 0.8:
            return self.eg.literal(t)
        return self.eg.expr(t, 2)

    def accumulators(self):
        """field name -> accumulator; names follow the type of what they hold"""
        out = {}
        for _ in range(self.r.choice([0, 1, 1, 2, 2, 3])):
            kind = self.r.choice(['sum', 'sum', 'avg', 'min', 'max', 'first', 'last', 'push',
                                  'push', 'addToSet', 'count', 'root', 'other'])
            if kind == 'sum':
                out[self.r.choice(['a', 'b', 'n'])] = {'$sum': self.acc_arg('num')}
            elif kind == 'count':
                out[self.r.choice(['n', 'a'])] = {'$sum': self.r.choice([1, 1, 2, 0.5, True, 'x'])}
            elif kind == 'avg':
                out[self.r.choice(['a', 'b'])] = {'$avg': self.acc_arg('num')}
            elif kind in ('min', 'max'):
                t = self.r.choice(['num', 'num', 'str', 'date', 'any'])
                name = {'num': 'a', 'str': 's', 'date': 't', 'any': 'x'}[t]
                out[name] = {'$' + kind: self.acc_arg(t)}
            elif kind in ('first', 'last'):
                t = self.r.choice(['num', 'str', 'doc', 'any', 'arr', 'bool'])
                name = {'num': 'b', 'str': 'u', 'doc': 'd', 'any': 'x', 'arr': 'l', 'bool': 'f'}[t]
                out[name] = {'$' + kind: self.acc_arg(t)}
            elif kind == 'push':
                t = self.r.choice(['num', 'num', 'str', 'doc', 'any'])
                name = {'num': 'l', 'str': 'm', 'doc': 'q', 'any': 'x'}[t]
                out[name] = {'$push': self.acc_arg(t)}
            elif kind == 'addToSet':
                t = self.r.choice(['num', 'str', 'bool', 'any'])
                name = {'num': 'l', 'str': 'm', 'bool': 'x', 'any': 'x'}[t]
                out[name] = {'$addToSet': self.acc_arg(t)}
            elif kind == 'root':
                out['q'] = {self.r.choice(['$push', '$first', '$last']): '$$ROOT'}
            else:
                out['x'] = self.r.choice([{'$mergeObjects': '$d'}, {'$stdDevPop': '$a'},
                                          {'$foo': '$a'}, {}, {'$sum': '$a', '$max': '$a'}, 5,
                                          {'$push': {'n': '$a', 's': '$s'}}])
        return out

    def group_id(self):
        x = self.r.random()
        if x < 0.3:
            return '$k'
        if x < 0.45:
            return '$g'
        if x < 0.55:
            return {'k': '$k', 'g': '$g'} if self.r.random() < 0.7 else {'g': '$g', 'n': '$d.n'}
        if x < 0.65:
            return None
        if x < 0.72:
            return self.r.choice([0, '', 1, 'all', False, True, {}, [], gen_expr.DATES[1]])
        if x < 0.9:
            return self.r.choice(['$a', '$b', '$f', '$s', '$d.n', '$zz', '$t', '$x', '$d', '$l'])
        return self.eg.top(self.r.choice(['num', 'str', 'bool']))[0]

    def st_group(self, docs):
        if self.r.random() < 0.03:
            return {'$group': self.r.choice([{}, {'a': {'$sum': 1}}, None, 'x'])}
        spec = {'_id': self.group_id()}
        spec.update(self.accumulators())
        if self.r.random() < 0.15:     # `_id` not first
            items = list(spec.items())
            self.r.shuffle(items)
            spec = dict(items)
        return {'$group': spec}

    def st_unwind(self, docs):
        path = '$' + self.r.choice(['l', 'l', 'm', 'q', 'd.l', 'x', 'zz', 'k', 'a', 'd', 'q.n',
                                    'l.0', 'd.zz'])
        x = self.r.random()
        if self.r.random() < 0.15:
            # one source document, several outputs that must not share what they hold: the index
            # goes into an existing sub-document
            return {'$unwind': {'path': self.r.choice(['$l', '$m', '$q']),
                                'includeArrayIndex': self.r.choice(['d.i', 'd.n', 'x.i'])}}
        if x < 0.45:
            return {'$unwind': path}
        if x < 0.95:
            o = {'path': path}
            if self.r.random() < 0.6:
                o['preserveNullAndEmptyArrays'] = self.r.choice([True, True, False, 1, 0, None])
            if self.r.random() < 0.5:
                o['includeArrayIndex'] = self.r.choice(['i', 'i', 'a', 'd.i', 'zz.i', '', 'l'])
            return {'$unwind': o}
        return {'$unwind': self.r.choice(['l', '', '$', 5, None, {}, {'path': 'l'}, {'path': 5},
                                          {'path': '$l', 'includeArrayIndex': 5}])}

    def st_lookup(self, docs):
        o = {'from': self.r.choice(['other', 'other', 'other', 'c', 'nowhere']),
             'localField': self.r.choice(['k', 'k', 'k', 'a', 'l', 'd.n', 'zz', 'g', '_id', 'q.n']),
             'foreignField': self.r.choice(['fk', 'fk', 'fk', 'v', '_id', 'g', 'zz', 'k', 'fk.p']),
             'as': self.r.choice(['j', 'j', 'j', 'k', 'q', 'l'])}
        if self.r.random() < 0.06:
            x = self.r.choice(['drop', 'let', 'pipeline', 'nonstr', 'dollar', 'dot'])
            if x == 'drop':
                del o[self.r.choice(list(o))]
            elif x == 'let':
                o['let'] = {}
            elif x == 'pipeline':
                o['pipeline'] = []
            elif x == 'nonstr':
                o[self.r.choice(list(o))] = 5
            elif x == 'dollar':
                o[self.r.choice(list(o))] = '$k'
            else:
                o['as'] = 'j.x'
        return {'$lookup': o}

    def st_addfields(self, docs):
        op = self.r.choice(['$addFields', '$addFields', '$set'])
        spec = {}
        for _ in range(self.r.choice([1, 1, 2, 3])):
            # (`q` is an array of documents and scalars, `l` / `m` arrays of scalars, `x` and `k`
            # anything: a dotted name through them writes into every item)
            name = self.r.choice(['r', 'r2', 'a', 's', 'l', 'd', 'k', 'd.z', 'd.n', 'n.m', 'a.z',
                                  'd.l', 'n.m.o', 'q.z', 'q.n', 'l.z', 'x.w', 'k.p', 'q.n.w',
                                  'd.l.z'])
            spec[name] = self.eg.top()[0] if self.r.random() < 0.8 else \
                self.r.choice([1, 0, True, None, 'lit', '$d', '$$ROOT', [1, 2], {'n': '$a'},
                               '$d.n', '$d.z', gen_expr.DATES[0], {'$literal': gen_expr.DATES[1]},
                               {'n': gen_expr.DATES[2]}])
        if self.r.random() < 0.03:
            spec = self.r.choice([{}, None, 'a', 5, []])
        elif self.r.random() < 0.1:
            # constants under dotted names, through documents, arrays and scalars
            spec = {}
            for name in self.r.sample(['q.z', 'l.z', 'd.l.z', 'x.w', 'k.p', 'd.z', 'n.m', 'a.z',
                                       'q.n.w', 'm.v', 'r'], self.r.choice([1, 2, 3])):
                spec[name] = self.r.choice([1, 0, 'lit', None, True, 2.5])
        elif self.r.random() < 0.12:
            # entries that read what other entries of the same stage write
            spec = self.r.choice([{'a': '$k', 'k': '$a'},
                                  {'k': {'$add': ['$k', 1]}, 'r': '$k'},
                                  {'s': '$g', 'g': '$s', 'r': '$g'},
                                  {'a': {'$literal': 7}, 'r2': {'$add': ['$a', 1]}}])
        return {op: spec}

    def st_replaceroot(self, docs):
        x = self.r.random()
        if x < 0.35:
            nr = '$d'
        elif x < 0.75:
            nr = self.eg.top('doc')[0]
        elif x < 0.85:
            nr = self.r.choice(['$$ROOT', '$x', '$zz', '$a', {'_id': '$_id', 'v': '$a'},
                                {'$arrayElemAt': ['$q', 0]}, {'$mergeObjects': ['$d', '$$ROOT']}])
        else:
            return {'$replaceRoot': self.r.choice([{}, {'newroot': '$d'}, None, 'x',
                                                   {'newRoot': 5}, {'newRoot': None}])}
        return {'$replaceRoot': {'newRoot': nr}}

    def st_bucket(self, docs):
        if self.r.random() < 0.3:
            # inside the domain of the oracle (Spec.Pipe.bucketReasons = []) more often than not:
            # the integer `_id` (or a numeric field) against integer / double boundaries, a
            # default below, above or of another type — or none —, plain accumulators
            o = {'groupBy': self.r.choice(['$_id', '$_id', '$a', '$b']),
                 'boundaries': sorted(self.r.sample([-1, 0, 1, 1.5, 2, 3, 4, 5, 6.5, 8],
                                                    self.r.choice([2, 3, 3, 4, 5])))}
            x = self.r.random()
            if x < 0.75:
                o['default'] = self.r.choice(['other', 'other', -3, -1.5, 8, 100, 'zz',
                                              gen_expr.DATES[0]])
            if self.r.random() < 0.6:
                o['output'] = self.r.choice([
                    {'n': {'$sum': 1}, 'ids': {'$push': '$_id'}},
                    {'ids': {'$push': '$_id'}, 'lo': {'$min': '$_id'}, 'hi': {'$max': '$_id'}},
                    {'f': {'$first': '$_id'}, 'l': {'$last': '$g'}, 's': {'$addToSet': '$g'}},
                    {}, self.accumulators()])
            return {'$bucket': o}
        bs = sorted(self.r.sample([-2, -1, 0, 0.5, 1, 2, 2.5, 3, 5, 10], self.r.choice([2, 3, 3, 4])))
        o = {'groupBy': self.r.choice(['$a', '$a', '$b', '$d.n', '$k', '$zz', '$s']) if
             self.r.random() < 0.8 else self.eg.top('num')[0],
             'boundaries': bs}
        if self.r.random() < 0.7:
            o['default'] = self.r.choice(['other', 'other', -5, 100, None, 1, True])
        if self.r.random() < 0.5:
            o['output'] = self.accumulators()
        if self.r.random() < 0.06:
            x = self.r.choice(['unsorted', 'short', 'notlist', 'unknown', 'nogroupby', 'mixed',
                               'dup'])
            if x == 'unsorted':
                o['boundaries'] = [3, 1, 2]
            elif x == 'short':
                o['boundaries'] = [1]
            elif x == 'notlist':
                o['boundaries'] = 5
            elif x == 'unknown':
                o['foo'] = 1
            elif x == 'nogroupby':
                del o['groupBy']
            elif x == 'mixed':
                o['boundaries'] = [0, 'a']
            else:
                o['boundaries'] = [0, 1, 1, 2]
        return {'$bucket': o}

    def st_facet(self, docs, depth):
        spec = {}
        simple = ['match', 'sort', 'skip', 'limit', 'count', 'project', 'group', 'unwind',
                  'addfields', 'lookup', 'bucket', 'replaceroot']
        for name in self.r.sample(['p', 'q', 'r'], self.r.choice([1, 2, 2, 3])):
            sub = [self.stage(docs, depth + 1, self.r.choice(simple))
                   for _ in range(self.r.choice([0, 1, 1, 2]))]
            spec[name] = sub
        if self.r.random() < 0.04:
            spec = self.r.choice([{}, None, {'p': 5}, {'p': [{'$foo': 1}]}])
        return {'$facet': spec}

    def st_other(self, docs):
        x = self.r.random()
        if x < 0.35:
            return {self.r.choice(NONE_HANDLERS): self.r.choice(['a', {'a': 1}, 1])}
        if x < 0.5:
            return {self.r.choice(['$foo', 'match', '$Match']): {}}
        if x < 0.65:
            return {'$sample': {'size': 2}} if self.r.random() < 0.5 else {'$out': 'o'}
        if x < 0.8:
            return {}
        if x < 0.93:
            return {'$skip': 1, '$limit': 2} if self.r.random() < 0.5 else \
                {'$limit': 3, '$sort': {'a': 1}}
        return self.r.choice([None, 'x', 5, [('$limit', 1)]])

    KINDS = [('match', 4.0), ('sort', 3.0), ('skip', 1.2), ('limit', 1.5), ('count', 0.8),
             ('project', 4.0), ('group', 4.5), ('unwind', 3.0), ('lookup', 2.5),
             ('addfields', 3.0), ('replaceroot', 1.2), ('bucket', 1.5), ('facet', 1.2),
             ('other', 0.35)]

    def stage(self, docs, depth=0, kind=None):
        if kind is None:
            total = sum(w for _, w in self.KINDS)
            x = self.r.random() * total
            for k, w in self.KINDS:
                x -= w
                if x < 0:
                    kind = k
                    break
        if kind == 'facet' and depth >= 2:
            kind = 'match'
        self.stages[kind] += 1
        if kind == 'facet':
            return self.st_facet(docs, depth)
        return getattr(self, 'st_' + kind)(docs)

    def pipeline(self, docs):
        n = self.r.choice([1, 1, 2, 2, 2, 3, 3, 4, 5])
        return [self.stage(docs) for _ in range(n)]

    # -- the stages the oracle speaks about, parameters inside its domain ------------------------
    def simple_stage(self, docs):
        k = self.r.choice(['match', 'match', 'match', 'sort', 'sort', 'skip', 'limit', 'count',
                           'project', 'project', 'unwind', 'unwind'])
        self.stages['simple:' + k] += 1
        r = self.r
        if k == 'match' and r.random() < 0.1:
            op = r.choice(['$gt', '$gte', '$lt', '$lte', '$ne', '$eq', None])
            v = r.choice(gen_expr.DATES)
            return {'$match': {'t': v if op is None else {op: v}}}
        if k == 'match':
            f = r.choice(['a', 'b', 'g', 's', '_id', 'd.n', 'f', 'u'])
            op = r.choice(['$gt', '$gte', '$lt', '$lte', '$ne', '$eq', '$in', '$exists', None])
            if op == '$in':
                v = [r.choice(gen_expr.INTS + ['x', 'a']) for _ in range(r.choice([1, 2, 3]))]
            elif op == '$exists':
                v = r.random() < 0.5
            else:
                v = r.choice(gen_expr.INTS + [0.5, 'a', 'x', 'y', None])
            return {'$match': {f: v if op is None else {op: v}}}
        if k == 'sort':
            spec = {}
            for f in r.sample(['a', 'b', 's', 'g', '_id', 't', 'd.n', 'u', 'f'], r.choice([1, 1, 2])):
                spec[f] = r.choice([1, -1])
            return {'$sort': spec}
        if k == 'skip':
            return {'$skip': r.choice([0, 1, 1, 2, 3])}
        if k == 'limit':
            return {'$limit': r.choice([1, 2, 3, 5])}
        if k == 'count':
            return {'$count': r.choice(['n', 'count'])}
        if k == 'project':
            on = r.random() < 0.6
            spec = {}
            pool = PROJ_FIELDS if r.random() < 0.7 else PROJ_FIELDS + ['d.n', 'd.s', 'q.n']
            for f in r.sample(pool, r.choice([1, 2, 2, 3])):
                spec[f] = self.flag(on)
            if r.random() < 0.3:
                spec['_id'] = self.flag(False)
            return {'$project': spec}
        path = '$' + r.choice(['l', 'l', 'm', 'q', 'x', 'a', 'zz'])
        if r.random() < 0.5:
            return {'$unwind': path}
        o = {'path': path}
        if r.random() < 0.7:
            o['preserveNullAndEmptyArrays'] = r.random() < 0.7
        if r.random() < 0.25:
            o['includeArrayIndex'] = 'i'
        return {'$unwind': o}

    def odd_dates(self, pipeline):
        # now and then the datetimes of the pipeline are not in stored form
        if self.r.random() < 0.1:
            self.stages['odd dates'] += 1
            return oddify(pipeline, self.r)
        return pipeline

    def simple_case(self):
        docs = self.docs()
        n = self.r.choice([1, 2, 2, 3, 3, 4])
        return {'docs': docs, 'other': self.other_docs(),
                'pipeline': self.odd_dates([self.simple_stage(docs) for _ in range(n)])}

    def case(self):
        docs = self.docs()
        return {'docs': docs, 'other': self.other_docs(),
                'pipeline': self.odd_dates(self.pipeline(docs))}


def stage_names(pipeline):
    out = []
    for st in pipeline if isinstance(pipeline, list) else []:
        if isinstance(st, dict):
            for k, v in st.items():
                out.append(k)
                if k == '$facet' and isinstance(v, dict):
                    for sub in v.values():
                        out.extend('facet/' + n for n in stage_names(sub))
    return out


def clone(case):
    return copy.deepcopy(case)
