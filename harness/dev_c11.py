"""development helper: run the C11 correspondence without the proof step"""
import json
import os
import sys
import time
HERE = os.path.dirname(os.path.abspath(__file__))
sys.path.insert(0, HERE)
import common  # noqa: E402
import wire  # noqa: E402
from props import c11  # noqa: E402

if __name__ == '__main__':
    tier = sys.argv[1] if len(sys.argv) > 1 else 'quick'
    seed = int(os.environ.get('VERIF_SEED') or 0)
    ctx = common.Ctx('C11', tier, seed)
    t = time.time()
    cov = c11.run(ctx, {'ok': True}, True)
    cov.pop('rule')
    print(json.dumps(cov, indent=1, default=repr)[:6000])
    print('violations', len(ctx.violations), 'notes', len(ctx.notes), 'known', ctx.known_seen,
          'time %.1f' % (time.time() - t))
    for v in sorted(ctx.violations, key=lambda v: (v[3], v[0]))[:int(os.environ.get('SHOW') or 5)]:
        print(json.dumps(v[2], default=repr)[:1500])
