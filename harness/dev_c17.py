"""development helper: run the C17 correspondence without the proof step"""
import sys, time, json
import common, wire
from props import c17
wire.assert_repo()
tier = sys.argv[1] if len(sys.argv) > 1 else 'quick'
seed = int(sys.argv[2]) if len(sys.argv) > 2 else 0
ctx = common.Ctx('C17', tier, seed)
t = time.time()
cov = c17.run(ctx, {}, True)
cov.pop('samples', None)
print(json.dumps(cov, indent=1)[:3000])
print('violations', len(ctx.violations), 'wall', round(time.time() - t, 1))
for v in ctx.violations[:3]:
    print(json.dumps(v[2], indent=1, default=repr)[:2500])
print(ctx.notes[:3])
