"""C20 translator 3: the dispatch SITES of the pipeline language.

The 16 positions of extract_vocab.py are the places where the *user* writes an operator name in
the simplest call that reaches each dispatcher.  The dispatchers of the pipeline language are
shared helpers, though: `_accumulate_group` (accumulators), `_parse_expression` (expressions),
`process_pipeline` (stages), `filtering.filter_applies` (query operators) are called from several
stage handlers, each time on another part of the stage's specification - the `output` of
`$bucket`, its `groupBy`, the sub-pipelines of `$facet`, `restrictSearchWithMatch` / `startWith` of
`$graphLookup`, `newRoot` of `$replaceRoot`, the operand of every accumulator, ...  Each of these
is a position at which a `$`-name is dispatched, and a consumer can get the contract of the helper
wrong (validate elsewhere, not at all, swallow the error).  This module derives the list of those
positions FROM THE SOURCE instead of writing it down:

* `static_call_sites()` - syntax tree of mongomock/aggregate.py: every call of a shared dispatch
  helper inside a module-level function (function, helper, line); `found_dispatchers()` - every
  module-level function that consults a table of `$`-names (or builds a `_Parser`) itself: the
  ones that are not in HELPERS (a validation pass hoisted out of a helper, say) are traced and
  probed like the helpers, with the family of the table they consult.
* `derive_sites()` - every stage that has a handler in `_PIPELINE_HANDLERS` is run once on a
  fully-optioned specification (STAGE_FIXTURES, else the argument shapes of the vocabulary file)
  with the helpers wrapped: each call is attributed to its static call site (caller frame) and
  the argument it dispatches on is located inside the stage's specification -> a *site* =
  (stage, key path into the specification, helper family).  A new consumer of a helper inside
  any handler shows up here without any edit of the harness; a static call site that no fixture
  reaches is reported (`uncovered`), it is not silently left out.
* `site_calls()` - the probing calls of one (site, base position, name): the specification of the
  fixture with `{NAME: argument}` put at the key path, in the way the family takes a name (a new
  output field for accumulators, the expression itself, one more stage of the sub-pipeline, the
  filter / a condition of the filter), next to "the same call with the name removed".

The disposition of a name at a site (`classify_site`): the reference table is the one of the base
position the family dispatches through (`FAMILY_POSITIONS`); a name of no table that does not make
the call raise is `ignored`, as at a base position; for a name of the tables the site's duty is to
hand it to the dispatcher (observed by wrapping the helper) - whether the dispatcher then gives
it an effect is judged at the base position, where the result is not hidden by the rest of the
stage (`$sum` of strings, a `startWith` that connects to nothing).

Empty input (`on_empty`): a name that a site REFUSES on the populated collection (every probing
call raises) is tried again, with the same calls, on an EMPTY collection: the refusal must be
repeated there (`raises`) - a stage that looks at the names of its specification only while it
reads documents lets every unsupported name through when there is nothing to read (`silent`).
Since 6f29a71 `$group` / `$bucket` check their accumulator names before reading anything; the
expression parts of the stages (and `restrictSearchWithMatch`) still do not: known findings
`lazy-empty:<site>`.
"""
import ast
import collections
import contextlib
import copy
import inspect
import os
import sys

from mongomock import aggregate as mm_aggregate
from mongomock import filtering as mm_filtering

import extract_vocab

# the shared dispatch helpers of the pipeline language: (module, attribute, family)
HELPERS = [
    (mm_aggregate, '_accumulate_group', 'accumulator'),
    (mm_aggregate, '_parse_expression', 'expr'),
    (mm_aggregate, 'process_pipeline', 'stage'),
    (mm_filtering, 'filter_applies', 'query'),
]
# family -> the base positions (extract_vocab.POSITIONS) whose dispatcher the helper is
FAMILY_POSITIONS = collections.OrderedDict([
    ('accumulator', ['accumulator']),
    ('expr', ['exprProject']),
    ('stage', ['stage']),
    ('query', ['queryTop', 'queryField']),
])
# the vocabulary kinds (extract_vocab.vocab_names) a family is about; the names of the other
# kinds are, for its dispatcher, unknown names like the near-miss and random ones
FAMILY_KINDS = {'accumulator': {'acc'}, 'expr': {'expr'}, 'stage': {'stage'}, 'query': {'query'}}
FAMILY_TABLES = {
    'accumulator': ['groupingMap', 'groupInline', 'groupOperators'],
    'expr': ['exprNI'],
    'stage': ['stagesImpl', 'stagesNone'],
    'query': ['operatorMap', 'logicalOps', 'topLevelNI', 'fieldNI'],
}

# one specification per stage with EVERY option that carries a part of the language filled in;
# the values are pairwise distinct so that an argument is found at one place only
STAGE_FIXTURES = {
    '$addFields': [{'zq': '$a'}],
    '$set': [{'zq': '$a'}],
    '$bucket': [{'groupBy': '$a', 'boundaries': [0, 2, 10], 'default': 'other',
                 'output': {'zn': {'$sum': '$f'}}}],
    '$count': ['zn'],
    '$facet': [{'zp': [{'$limit': 2}]}],
    '$graphLookup': [{'from': 'other', 'startWith': '$a', 'connectFromField': 'a',
                      'connectToField': 'a', 'as': 'zg', 'maxDepth': 1, 'depthField': 'zd',
                      'restrictSearchWithMatch': {'w': {'$ne': 'zz'}}}],
    '$group': [{'_id': '$t', 'zn': {'$sum': '$f'}}],
    '$limit': [2],
    '$lookup': [{'from': 'other', 'localField': 'a', 'foreignField': 'a', 'as': 'zj'}],
    '$match': [{'a': {'$gt': 0}}],
    '$out': ['outcoll'],
    '$project': [{'_id': 1, 'zq': '$a'}],
    '$replaceRoot': [{'newRoot': '$sub'}],
    '$sample': [{'size': 2}],
    '$skip': [1],
    '$sort': [{'a': -1}],
    '$unwind': [{'path': '$arr', 'preserveNullAndEmptyArrays': True, 'includeArrayIndex': 'zi'}],
}


# ---------------------------------------------------------------------------------------------
# the syntax tree: call sites of the helpers, functions that dispatch themselves
# ---------------------------------------------------------------------------------------------

def _module_tree():
    return ast.parse(inspect.getsource(mm_aggregate))


def _called_name(call):
    fn = call.func
    if isinstance(fn, ast.Name):
        return fn.id
    if isinstance(fn, ast.Attribute):
        return fn.attr
    return None


def _dollar_table(node):
    """the `$`-names the expression evaluates to in the module, if it is a table of them"""
    if not isinstance(node, (ast.Name, ast.Attribute)):
        return None
    try:
        value = extract_vocab._eval_in(node, mm_aggregate)   # pylint: disable=protected-access
    except Exception:  # pylint: disable=broad-except
        return None
    return extract_vocab._op_names(value)   # pylint: disable=protected-access


def _family_of_table(names, T):
    """which dispatcher's vocabulary a table of the source belongs to"""
    names = set(names)
    expr = set(T['exprNI'])
    for h in T['exprChain']:
        expr.update(h['names'])
    for fam, own in (('accumulator', set(T['groupingMap']) | set(T['groupInline']) |
                      set(T['groupOperators'])),
                     ('stage', set(T['stagesImpl']) | set(T['stagesNone'])),
                     ('query', set(T['operatorMap']) | set(T['logicalOps']) |
                      set(T['topLevelNI']) | set(T['fieldNI'])),
                     ('expr', expr)):
        if names and names <= own:
            return fam
    return None


def found_dispatchers(T):
    """module-level functions of aggregate.py that look a name up in a table of `$`-names
    themselves (`x in TABLE`, `TABLE[x]`, `TABLE.get(x)`) or build a `_Parser`: the dispatchers
    as the SOURCE has them -> [{function, line, why, family, known}]"""
    known = {attr for mod, attr, _ in HELPERS if mod is mm_aggregate}
    out = []
    for top in _module_tree().body:
        if not isinstance(top, ast.FunctionDef):
            continue
        for node in ast.walk(top):
            names, why = None, None
            if isinstance(node, ast.Compare) and len(node.ops) == 1 and \
                    isinstance(node.ops[0], (ast.In, ast.NotIn)):
                names, why = _dollar_table(node.comparators[0]), 'membership test in a table of $-names'
            elif isinstance(node, ast.Subscript):
                names, why = _dollar_table(node.value), 'lookup in a table of $-names'
            elif isinstance(node, ast.Call) and isinstance(node.func, ast.Attribute) and \
                    node.func.attr == 'get':
                names, why = _dollar_table(node.func.value), 'lookup in a table of $-names'
            elif isinstance(node, ast.Call) and _called_name(node) == '_Parser':
                names, why = [], 'builds a _Parser'
            if names is None:
                continue
            out.append({'function': top.name, 'line': node.lineno, 'why': why,
                        'family': 'expr' if why == 'builds a _Parser' else
                        _family_of_table(names, T),
                        'known': top.name in known})
            break
    return out


def _module_level_callees():
    """the names called from inside a module-level function of aggregate.py"""
    out = set()
    for top in _module_tree().body:
        if isinstance(top, ast.FunctionDef):
            for node in ast.walk(top):
                if isinstance(node, ast.Call) and _called_name(node):
                    out.add(_called_name(node))
    return out


def dispatch_helpers(T):
    """HELPERS, and every further dispatcher the source has (a validation pass hoisted out of a
    helper - `_validate_accumulators` -, a second accumulator loop, ...): its call sites are
    positions as well.  A function that consults a table of `$`-names and is called from inside
    the classes only (`_argument_list`: the arity table, used by `_Parser.parse`) has no call
    site in a stage handler: it belongs to the recursion of the parser (lazy-context probes)."""
    out = list(HELPERS)
    called = _module_level_callees()
    for d in found_dispatchers(T):
        if not d['known'] and d['family'] and d['function'] in called:
            out.append((mm_aggregate, d['function'], d['family']))
    return out


def static_call_sites(T):
    """[{function, helper, family, line, end}] - every call of a dispatch helper in a
    module-level function of mongomock/aggregate.py (nested functions count for their parent)"""
    family = {attr: fam for _, attr, fam in dispatch_helpers(T)}
    out = []
    for top in _module_tree().body:
        if not isinstance(top, ast.FunctionDef):
            continue
        for node in ast.walk(top):
            if isinstance(node, ast.Call) and _called_name(node) in family:
                name = _called_name(node)
                out.append({'function': top.name, 'helper': name, 'family': family[name],
                            'line': node.lineno, 'end': getattr(node, 'end_lineno', node.lineno)})
    out.sort(key=lambda s: (s['line'], s['helper']))
    for i, s in enumerate(out):
        s['index'] = i
    return out


# ---------------------------------------------------------------------------------------------
# tracing: which part of a stage's specification reaches which helper
# ---------------------------------------------------------------------------------------------

_AGG_FILE = os.path.abspath(inspect.getsourcefile(mm_aggregate))


@contextlib.contextmanager
def helper_tracer(static, helpers):
    """wrap the helpers; record (static call site index, positional arguments) of every call that
    comes from a module-level function of aggregate.py"""
    calls = []
    saved = []

    def wrap(owner, attr):
        orig = getattr(owner, attr)

        def wrapper(*a, **kw):
            frame = sys._getframe(1)   # pylint: disable=protected-access
            if os.path.abspath(frame.f_code.co_filename) == _AGG_FILE:
                line = frame.f_lineno
                for s in static:
                    if s['helper'] == attr and s['line'] <= line <= s['end']:
                        calls.append((s['index'], a))
                        break
                else:
                    calls.append((None, (attr, line)))
            return orig(*a, **kw)
        saved.append((owner, attr, orig))
        setattr(owner, attr, wrapper)
    for owner, attr, _ in helpers:
        wrap(owner, attr)
    try:
        yield calls
    finally:
        for owner, attr, orig in reversed(saved):
            setattr(owner, attr, orig)


def _locate(spec, arg, path=()):
    """key paths at which `arg` stands inside `spec` (identity first, else equality of
    containers / strings), outermost first"""
    found = []

    def walk(node, path, same):
        if same(node):
            found.append(path)
            return
        if isinstance(node, dict):
            for k, v in node.items():
                walk(v, path + (k,), same)
        elif isinstance(node, list):
            for i, v in enumerate(node):
                walk(v, path + (i,), same)
    walk(spec, path, lambda n: n is arg and isinstance(n, (dict, list)))
    if not found and isinstance(arg, (dict, list, str)) and arg not in ({}, [], ''):
        walk(spec, path, lambda n: type(n) is type(arg) and n == arg)
    return found


def stage_fixtures(V, T):
    """stage -> list of specifications, for every stage that has a handler"""
    out = collections.OrderedDict()
    for stage in sorted(T['stagesImpl']):
        out[stage] = copy.deepcopy(STAGE_FIXTURES.get(stage) or
                                   V['args'].get('stage', {}).get(stage) or [])
    return out


def site_id(stage, path, family):
    return '%s/%s:%s' % (stage, '.'.join(str(p) for p in path) or '*', family)


CONTEXTS = ['docs', 'empty']   # the collection the pipeline runs on


def context_db(context):
    if context == 'docs':
        return extract_vocab.fresh_db()
    db = extract_vocab.fresh_db([{'_id': 0}])
    db.c.delete_many({})
    return db


def derive_sites(T=None, V=None):
    """-> {'static': [...], 'sites': [...], 'uncovered': [...], 'unknown_dispatchers': [...],
           'stages_without_fixture': [...], 'fixture_errors': {...}}
    A site is probed on the populated collection; the empty collection is only used for the
    call sites that nothing reaches otherwise (validation of a stage that has no input)."""
    T = T or extract_vocab.extract_tables()
    V = V or extract_vocab.load_vocab()
    helpers = dispatch_helpers(T)
    static = static_call_sites(T)
    sites = collections.OrderedDict()
    errors = {}
    no_fixture = []
    unattributed = []
    for context in CONTEXTS:
        covered = {s['call'] for s in sites.values()}
        for stage, specs in stage_fixtures(V, T).items():
            if not specs and stage not in no_fixture:
                no_fixture.append(stage)
            for spec in specs:
                db = context_db(context)
                mine = copy.deepcopy(spec)
                with helper_tracer(static, helpers) as calls:
                    try:
                        list(db.c.aggregate([{stage: mine}]))
                    except Exception as e:  # pylint: disable=broad-except
                        errors['%s on %s' % (stage, context)] = '%s: %s' % (type(e).__name__, e)
                for idx, args in calls:
                    if idx is None:
                        if args not in unattributed:
                            unattributed.append(args)
                        continue
                    if idx in covered:
                        continue
                    paths = []
                    for a in args:
                        paths = _locate(mine, a)
                        if paths:
                            break
                    for path in paths[:1]:
                        fam = static[idx]['family']
                        sid = site_id(stage, path, fam)
                        if context != 'docs':
                            sid += '@' + context
                        if (sid, idx) not in sites:
                            sites[(sid, idx)] = {
                                'id': sid, 'stage': stage, 'path': list(path), 'family': fam,
                                'call': idx, 'context': context,
                                'function': static[idx]['function'],
                                'helper': static[idx]['helper'],
                                'line': static[idx]['line'], 'fixture': spec}
    covered = {s['call'] for s in sites.values()}
    sites = sorted(sites.values(), key=lambda s: (s['id'], s['call']))
    seen_ids = collections.Counter(s['id'] for s in sites)
    for s in sites:
        if seen_ids[s['id']] > 1:      # one part of the specification, several consumers
            s['id'] += '~' + s['helper']
    seen_ids = collections.Counter()
    for s in sites:
        seen_ids[s['id']] += 1
        if seen_ids[s['id']] > 1:
            s['id'] += '#%d' % seen_ids[s['id']]
    for i, s in enumerate(sites):
        s['index'] = i
    found = found_dispatchers(T)
    return {'static': static, 'sites': sites, 'helpers': helpers,
            'uncovered': [s for s in static if s['index'] not in covered],
            'dispatchers_in_source': found,
            'unknown_dispatchers': [d for d in found if not d['known'] and not d['family']],
            'stages_without_fixture': no_fixture, 'fixture_errors': errors,
            'unattributed_calls': unattributed}


# ---------------------------------------------------------------------------------------------
# probing calls of one (site, base position, name)
# ---------------------------------------------------------------------------------------------

_REMOVED = object()


def _put(spec, path, value):
    """a copy of spec with `value` at the key path (`_REMOVED`: the key deleted)"""
    if not path:
        return copy.deepcopy(value)
    out = copy.deepcopy(spec)
    node = out
    for p in path[:-1]:
        node = node[p]
    if value is _REMOVED:
        del node[path[-1]]
    else:
        node[path[-1]] = copy.deepcopy(value)
    return out


def _get(spec, path):
    for p in path:
        spec = spec[p]
    return spec


def site_args(prober, base, name):
    """the argument shapes of the base position (the ones extract_vocab.Prober uses there)"""
    if base == 'accumulator':
        return prober.args_for('acc', 'accumulator', name, ['$a', 1, '$arr'], ['$a', 1])
    if base in extract_vocab.EXPR_POSITIONS:
        return prober._expr_args(base, name)   # pylint: disable=protected-access
    if base == 'stage':
        return prober.args_for('stage', 'stage', name, [1, {'a': 1}, 'n', '$arr'], [1, {'a': 1}])
    if base == 'queryTop':
        return prober.args_for('query', 'queryTop', name, [[{'a': 1}], [{'a': {'$gt': 1}}]],
                               [1, [{'a': 1}], {'a': 1}])
    if base == 'queryField':
        return prober.args_for('query', 'queryField', name, [1, 2, 0, 'x', [1, 2], [3], 'abc'],
                               [1, [1, 2]])
    raise KeyError(base)


def site_variants(site, base, name, arg):
    """[(specification with the name, [specifications with the name removed])]"""
    spec, path = site['fixture'], site['path']
    here = _get(spec, path)
    fam = site['family']
    if fam == 'accumulator':
        # one more output field, last and first (a consumer may stop at the first field)
        with_last = collections.OrderedDict(list(here.items()) + [('zx', {name: arg})])
        with_first = collections.OrderedDict(
            [(k, v) for k, v in here.items() if k == '_id'] + [('zx', {name: arg})] +
            [(k, v) for k, v in here.items() if k != '_id'])
        empty = collections.OrderedDict(list(here.items()) + [('zx', {})])
        return [(_put(spec, path, dict(with_last)), [spec, _put(spec, path, dict(empty))]),
                (_put(spec, path, dict(with_first)), [spec, _put(spec, path, dict(empty))])]
    if fam == 'expr':
        bases = [_put(spec, path, {})]
        if path and isinstance(_get(spec, path[:-1]), dict):
            bases.append(_put(spec, path, _REMOVED))
        return [(_put(spec, path, {name: arg}), bases)]
    if fam == 'stage':
        return [(_put(spec, path, list(here) + [{name: arg}]), [spec]),
                (_put(spec, path, [{name: arg}] + list(here)), [spec])]
    if fam == 'query':
        if base == 'queryTop':
            return [(_put(spec, path, {name: arg}), [_put(spec, path, {})])]
        return [(_put(spec, path, {f: {name: arg}}),
                 [_put(spec, path, {}), _put(spec, path, {f: {}})]) for f in ('a', 'w')]
    raise KeyError(fam)


def site_call(prober, site, spec, bases):
    """one probing call.  Only a sub-pipeline can write (`$out`): the sites of the stage family run
    on a fresh database and show the other collections as well, the others share one."""
    stage, context = site['stage'], site['context']
    fresh = site['family'] == 'stage'
    tag = ('  # fresh database' if fresh else '') + (
        '' if context == 'docs' else '  # collection c empty')

    def run(sp):
        if fresh:
            db = context_db(context)
        else:
            db = prober.rdb if context == 'docs' else prober.edb
        out = list(db.c.aggregate([{stage: copy.deepcopy(sp)}]))
        if not fresh:
            return out
        snap = extract_vocab.snapshot(db)
        snap.pop('c', None)
        return [out, snap]
    return extract_vocab.Call(
        'db.c.aggregate(%r)%s' % ([{stage: spec}], tag), lambda: run(spec),
        [('db.c.aggregate(%r)%s' % ([{stage: b}], tag), (lambda b=b: run(b))) for b in bases])


def site_calls(prober, site, base, name):
    out = []
    for arg in site_args(prober, base, name):
        for spec, bases in site_variants(site, base, name, arg):
            out.append(site_call(prober, site, spec, bases))
    return out


def _mentions(value, name, depth=0):
    """does the `$`-name occur as a key somewhere inside the value?"""
    if depth > 12:
        return False
    if isinstance(value, dict):
        return any(k == name or _mentions(v, name, depth + 1) for k, v in value.items())
    if isinstance(value, (list, tuple)):
        return any(_mentions(v, name, depth + 1) for v in value)
    return False


def classify_site(outcomes, seen, inn, noop_ok):
    """the disposition of a name at a site.  Nothing returns -> it raises.  Something returns and
    no table of the dispatcher has the name -> ignored.  A name of the tables: what the
    DISPATCHER does with it is settled at the base position; the site's part is to hand the name
    over - implemented if the helper was called from the site's call with the name in its
    argument, ignored if the calls return without the dispatcher ever seeing the name."""
    oks = [o for o in outcomes if o[0] == 'ok']
    if not oks:
        nie = sum(1 for o in outcomes if o[1] == 'NotImplementedError')
        return 'raisesNotImplemented' if 2 * nie >= len(outcomes) else 'raisesOther'
    if not inn:
        return 'ignored'
    if noop_ok or any(s for o, s in zip(outcomes, seen) if o[0] == 'ok'):
        return 'implemented'
    return 'ignored'


def site_names(family, T, kinds, everything=False):
    """the names probed at the sites of a family: the family's own vocabulary and code tables,
    and - standing for every other name, which the family's dispatcher does not know - the
    near-miss and the seeded random names (thorough tier: every name)"""
    if everything:
        return sorted(kinds)
    own = set()
    for key in FAMILY_TABLES[family]:
        own.update(T[key])
    if family == 'expr':
        for h in T['exprChain']:
            own.update(h['names'])
    if family == 'query':
        own.update(['$not', '$comment', '$expr'])
    out = []
    for name, ks in kinds.items():
        if name in own or set(ks) & FAMILY_KINDS[family] or \
                set(ks) & {'nearmiss', 'random'}:
            out.append(name)
    return sorted(out)


def probe_site_entry(prober, counters, site, base, name, derived):
    """the same record as extract_vocab.probe_entry, for a site"""
    T, V = prober.T, prober.V
    static, helpers = derived['static'], derived['helpers']
    anchor = extract_vocab.ANCHOR[base]
    before = counters[anchor]
    calls = site_calls(prober, site, base, name)
    outcomes, seen = [], []
    for c in calls:
        with helper_tracer(static, helpers) as traced:
            outcomes.append(prober.run_call(c))
        seen.append(any(idx == site['call'] and _mentions(args, name) for idx, args in traced))
    inn = extract_vocab.in_table(T, base, name)
    noop_ok = name in V.get('noop_by_design', {}).get(base, [])
    disp = classify_site(outcomes, seen, inn, noop_ok)
    if disp == 'implemented' and not name.startswith('$'):
        disp = 'plainKey'
    # a refusal must not depend on there being a document to read
    on_empty, empty_probe = 'notProbed', None
    if disp in ('raisesNotImplemented', 'raisesOther'):
        ecalls = site_calls(prober, dict(site, context='empty'), base, name)
        eouts = [prober.run_call(c) for c in ecalls]
        quiet = [c for c, o in zip(ecalls, eouts) if o[0] == 'ok']
        on_empty = 'silent' if quiet else 'raises'
        empty_probe = quiet[0].code if quiet else None
    errors = collections.Counter(o[1] for o in outcomes if o[0] == 'raise')
    witness = None
    if disp == 'ignored':
        for c, o in zip(calls, outcomes):
            if o[0] == 'ok':
                witness = c
                break
    else:
        witness = calls[0] if calls else None
    return {
        'pos': 'site:' + site['id'], 'site': site['index'], 'base': base, 'name': name,
        'disp': disp, 'in_table': inn, 'calls': len(calls),
        'returned': sum(1 for o in outcomes if o[0] == 'ok'), 'errors': dict(errors),
        'reached': counters[anchor] > before, 'handed_to_dispatcher': sum(1 for x in seen if x),
        'probe': witness.code if witness else None,
        'baseline': [c for c, _ in witness.baselines] if witness else [],
        'on_empty': on_empty, 'empty_probe': empty_probe,
    }


def probe_sites(prober, kinds, derived, everything=False, counters=None):
    """-> entries for every (site, base position of its family, name)"""
    entries = []
    with contextlib.ExitStack() as stack:
        if counters is None:
            counters = stack.enter_context(extract_vocab.reach_counters())
        for site in derived['sites']:
            names = site_names(site['family'], prober.T, kinds, everything)
            for base in FAMILY_POSITIONS[site['family']]:
                for name in names:
                    entries.append(probe_site_entry(prober, counters, site, base, name, derived))
    return entries


def probe_one(site_id_, base, name):
    """re-run the probes of one (site, base, name) on the current code (replays, findings)"""
    T = extract_vocab.extract_tables()
    V = extract_vocab.load_vocab()
    derived = derive_sites(T, V)
    for site in derived['sites']:
        if site['id'] == site_id_:
            prober = extract_vocab.Prober(T, V)
            with extract_vocab.reach_counters() as counters:
                return probe_site_entry(prober, counters, site, base, name, derived)
    return None


if __name__ == '__main__':
    import json
    import time
    t0 = time.time()
    T = extract_vocab.extract_tables()
    V = extract_vocab.load_vocab()
    d = derive_sites(T, V)
    for s in d['static']:
        print('call site', s)
    for s in d['sites']:
        print('site', s['id'], s['function'], s['helper'], s['line'])
    for k in ('uncovered', 'dispatchers_in_source', 'unknown_dispatchers',
              'stages_without_fixture', 'fixture_errors',
              'unattributed_calls'):
        print(k, d[k])
    kinds = extract_vocab.vocab_names(V)
    for n in extract_vocab.random_names(0, set(kinds)):
        kinds[n] = ['random']
    prober = extract_vocab.Prober(T, V)
    entries = probe_sites(prober, kinds, d, everything=len(sys.argv) > 1 and sys.argv[1] == 'all')
    hist = collections.Counter((e['pos'], e['base'], e['disp']) for e in entries)
    for k in sorted(hist):
        print(k, hist[k])
    print(len(entries), 'entries', prober.counts['calls'], 'calls', round(time.time() - t0, 1), 's')
    for e in entries:
        if e['disp'] == 'ignored':
            print(json.dumps(e, default=repr))
