"""C11 — a reference implementation of the BSON comparison / sort order over EVERY kind of value
`mongomock.filtering._get_compare_type` / `bson_compare` know about, written from the property's
text and MongoDB's documented "comparison/sort order" (not from the library's code):

  type brackets     null (and a missing field) < numbers < strings < documents < arrays <
                    binary data < ObjectId < booleans < dates < regular expressions
  numbers           by numeric value, integers against doubles exactly; NaN below every number
  strings           byte by byte on their UTF-8 encoding
  documents         field by field in stored order: the bracket of the two values, then the field
                    names, then the values; a document that runs out of fields first is smaller
  arrays            item by item (items of different brackets by bracket); a proper prefix is
                    smaller
  binary data       the LENGTH of the data, then the subtype (bytes = 0, uuid.UUID = 4, 16 bytes),
                    then the bytes
  ObjectId          by its bytes
  booleans          false < true
  dates             by the instant
  regular expr.     by the pattern, then by the option letters

The Lean model's value universe has no binary / uuid / regex values and no non-finite doubles, so
this order is a python-only oracle (part of the search for a failing input; no theorem rests on
it).  The same module holds the path traversal of the python oracles, the classification of the
listed deviations (known findings) and the JSON codec of replays whose values the wire cannot
carry.
"""
import datetime as _dt
import re
import uuid

from mongomock import ObjectId

RE_TYPE = type(re.compile(''))


class Outside(Exception):
    """no claim is made on this input"""


# ------------------------------------------------------------------------------------------
# the order

NULL, NUMBER, STRING, DOCUMENT, ARRAY, BINARY, OBJECTID, BOOLEAN, DATE, REGEX = \
    2, 3, 4, 5, 6, 7, 8, 9, 10, 12
BRACKET_NAMES = {NULL: 'null', NUMBER: 'number', STRING: 'string', DOCUMENT: 'document',
                 ARRAY: 'array', BINARY: 'binary', OBJECTID: 'objectid', BOOLEAN: 'boolean',
                 DATE: 'date', REGEX: 'regex'}


def bracket(v):
    if v is None:
        return NULL
    if isinstance(v, bool):
        return BOOLEAN
    if isinstance(v, (int, float)):
        return NUMBER
    if isinstance(v, str):
        return STRING
    if isinstance(v, dict):
        return DOCUMENT
    if isinstance(v, list):
        return ARRAY
    if isinstance(v, (bytes, uuid.UUID)):
        return BINARY
    if isinstance(v, ObjectId):
        return OBJECTID
    if isinstance(v, _dt.datetime):
        if v.tzinfo is not None:
            raise Outside('awaredate')
        return DATE
    if isinstance(v, RE_TYPE):
        return REGEX
    raise Outside(type(v).__name__)


def _three(x, y):
    return -1 if x < y else (1 if y < x else 0)


def _is_nan(v):
    return isinstance(v, float) and v != v


def _binary(v):
    """(length, subtype, data)"""
    if isinstance(v, uuid.UUID):
        return (16, 4, v.bytes)
    return (len(v), 0, bytes(v))


_OPTION_LETTERS = [(re.IGNORECASE, 'i'), (re.LOCALE, 'l'), (re.MULTILINE, 'm'), (re.DOTALL, 's'),
                   (re.UNICODE, 'u'), (re.VERBOSE, 'x')]


def _regex(v):
    pat = v.pattern
    if isinstance(pat, bytes):
        raise Outside('bytes pattern')
    return (pat.encode('utf-8'), ''.join(c for f, c in _OPTION_LETTERS if v.flags & f))


def _py_eq(a, b):
    try:
        return bool(a == b)
    except Exception:  # pylint: disable=broad-except
        return False


def ref_cmp(a, b, flags=None):
    """three-way BSON comparison of two values; `flags` (a set) collects the classes of listed
    deviations this comparison touches (see FINDING_TEXT)"""
    ba, bb = bracket(a), bracket(b)
    if ba != bb:
        return _three(ba, bb)
    if ba == NULL:
        return 0
    if ba == NUMBER:
        na, nb = _is_nan(a), _is_nan(b)
        if na or nb:
            if flags is not None:
                flags.add('nankey')
            return _three(not na, not nb)
        return _three(a, b)
    if ba == STRING:
        return _three(a.encode('utf-8'), b.encode('utf-8'))
    if ba == DOCUMENT:
        for (ka, va), (kb, vb) in zip(a.items(), b.items()):
            c = _three(bracket(va), bracket(vb))
            if c == 0:
                c = _three(ka.encode('utf-8'), kb.encode('utf-8'))
            if c == 0:
                c = ref_cmp(va, vb, flags)
                if c and flags is not None and _py_eq(va, vb):
                    flags.add('seqpyeq')
            if c:
                return c
        return _three(len(a), len(b))
    if ba == ARRAY:
        for va, vb in zip(a, b):
            c = ref_cmp(va, vb, flags)
            if c:
                if flags is not None and _py_eq(va, vb):
                    flags.add('seqpyeq')
                return c
        return _three(len(a), len(b))
    if ba == BINARY:
        if flags is not None and isinstance(a, uuid.UUID) != isinstance(b, uuid.UUID):
            flags.add('uuidbinary')
        return _three(_binary(a), _binary(b))
    if ba == OBJECTID:
        return _three(int(str(a).replace('-', ''), 16), int(str(b).replace('-', ''), 16))
    if ba == BOOLEAN:
        return _three(a, b)
    if ba == DATE:
        return _three(a, b)
    if ba == REGEX:
        if flags is not None:
            flags.add('regexkey')
        return _three(_regex(a), _regex(b))
    raise Outside('bracket %r' % ba)


# what the listed deviations are (ids of known_findings.json)
FINDING_TEXT = {
    'nankey': 'a NaN under a sort key: Python\'s < and > are both false against NaN, so the place '
              'of the NaN (MongoDB: below every number) and of the numbers around it depends on '
              'the input order',
    'uuidbinary': 'a uuid.UUID and a bytes value under one sort key (both are BSON binary data, '
                  'ordered by length, subtype, bytes): the sort raises TypeError',
    'regexkey': 'two regular expressions under one sort key (BSON: by pattern, then options): '
                'the sort raises TypeError',
    'seqpyeq': 'when two arrays / embedded documents are compared, a pair of items that are '
               'Python-== is skipped although BSON orders them (true against 1, two embedded '
               'documents with the same fields in a different order)',
}


# ------------------------------------------------------------------------------------------
# sort keys

MISSING = object()


def reach(cur, comps):
    """the values the path reaches, branching through arrays of sub-documents (MISSING where a
    sub-document lacks the field or the path dead-ends on a scalar)"""
    if not comps:
        return [cur]
    comp = comps[0]
    if comp == '':
        raise Outside('badpath')
    if isinstance(cur, dict):
        if comp not in cur:
            return [MISSING]
        return reach(cur[comp], comps[1:])
    if isinstance(cur, list):
        if comp.lstrip('-').isdigit():
            raise Outside('arrayindex')      # positional paths: left to the Lean oracle
        out = []
        for item in cur:
            if not isinstance(item, dict):
                raise Outside('scalar-in-array')   # what such an item contributes: not stated
            out.extend(reach(item, comps))
        return out
    return [MISSING]               # the path dead-ends: missing, sorts as null


def key_candidates(doc, path):
    """the (rank, value) candidates of a document under a sort key: a missing field is null; an
    array stands for its items; an empty array sorts before everything (rank 0)"""
    keys = []
    for v in reach(doc, path.split('.')):
        if v is MISSING:
            keys.append((1, None))
        elif isinstance(v, list):
            if not v:
                keys.append((0, None))
            keys.extend((1, x) for x in v)
        else:
            keys.append((1, v))
    return keys or [(1, None)]


def key_cmp(x, y, flags=None):
    if x[0] != y[0]:
        return _three(x[0], y[0])
    return ref_cmp(x[1], y[1], flags)


def ref_key(doc, path, desc=False):
    """the sort key of a document: the smallest candidate for an ascending key, the largest for a
    descending one"""
    keys = key_candidates(doc, path)
    best = keys[0]
    for k in keys[1:]:
        c = key_cmp(k, best)
        if (c > 0) if desc else (c < 0):
            best = k
    return best


def flags_of(docs, sorts):
    """the classes of listed deviations a sort of `docs` by the specifications `sorts` can touch:
    every pair of candidates under every key is compared"""
    flags = set()
    for spec in sorts:
        for k, _ in spec or []:
            if k.startswith('$'):
                continue
            try:
                cands = [c for d in docs for c in key_candidates(d, k)]
            except Outside:
                continue
            for i, x in enumerate(cands):
                for y in cands[:i + 1]:
                    try:
                        key_cmp(x, y, flags)
                    except Outside:
                        pass
    return flags


def first_key_brackets(docs, sort):
    """({bracket name: number of documents}, {bracket name}: brackets in which two documents
    have different keys) under the first sort key"""
    if not sort or sort[0][0].startswith('$'):
        return {}, set()
    try:
        ks = [ref_key(d, sort[0][0], sort[0][1] < 0) for d in docs]
        seen, within = {}, set()
        for i, k in enumerate(ks):
            name = 'empty-array' if k[0] == 0 else BRACKET_NAMES[bracket(k[1])]
            seen[name] = seen.get(name, 0) + 1
            for j in range(i):
                if ks[j][0] == k[0] == 1 and bracket(ks[j][1]) == bracket(k[1]) \
                        and key_cmp(ks[j], k) != 0:
                    within.add(name)
        return seen, within
    except Outside:
        return {}, set()


def ref_sorted(docs, spec):
    """`docs` (given in natural order) in the order the sort specification `spec` asks for: the
    documents are ordered by the reference order of their keys, key by key (a descending key
    reverses the order of THAT key only), and documents that tie on every key keep their relative
    natural order.  `$natural` alone, or as the LAST key, stands for the position in natural order
    (the least significant key: what is equal on all keys before it comes in natural, or reverse
    natural, order).  `$natural` FOLLOWED by further keys: no claim (MongoDB refuses `$natural`
    inside a compound sort; the library reads it there as "turn round what the later keys gave",
    which the model follows); any other `$` key: no claim."""
    import functools
    if not spec:
        return list(docs)
    if any(k == '$natural' for k, _ in spec[:-1]):
        raise Outside('natural-before-other-keys')
    keyed = []
    for pos, d in enumerate(docs):
        ks = []
        for k, direction in spec:
            if k == '$natural':
                ks.append(pos)
            elif k.startswith('$'):
                raise Outside('dollarkey')
            else:
                ks.append(ref_key(d, k, direction < 0))
        keyed.append((ks, pos, d))

    def cmp(a, b):
        for ka, kb, (k, direction) in zip(a[0], b[0], spec):
            c = _three(ka, kb) if k == '$natural' else key_cmp(ka, kb)
            if c:
                return -c if direction < 0 else c
        return _three(a[1], b[1])
    return [d for _, _, d in sorted(keyed, key=functools.cmp_to_key(cmp))]


# ------------------------------------------------------------------------------------------
# JSON codec for replays and witnesses (values the wire to the model cannot carry)

def jenc(v):
    if v is None or isinstance(v, (bool, int, str)):
        return v
    if isinstance(v, float):
        if v != v:
            return {'$float': 'nan'}
        if v in (float('inf'), float('-inf')):
            return {'$float': 'inf' if v > 0 else '-inf'}
        return {'$float': repr(v)} if v == 0 else v
    if isinstance(v, bytes):
        return {'$binary': v.hex()}
    if isinstance(v, uuid.UUID):
        return {'$uuid': v.hex}
    if isinstance(v, ObjectId):
        return {'$oid': str(v)}
    if isinstance(v, _dt.datetime):
        if v.tzinfo is not None:
            raise Outside('awaredate')
        return {'$date': v.isoformat()}
    if isinstance(v, RE_TYPE):
        return {'$regex': v.pattern, '$flags': v.flags}
    if isinstance(v, dict):
        return {'$doc': [[k, jenc(x)] for k, x in v.items()]}
    if isinstance(v, (list, tuple)):
        return [jenc(x) for x in v]
    raise Outside(type(v).__name__)


def jdec(v):
    if isinstance(v, list):
        return [jdec(x) for x in v]
    if isinstance(v, dict):
        if '$doc' in v:
            return {k: jdec(x) for k, x in v['$doc']}
        if '$float' in v:
            return float(v['$float'])
        if '$binary' in v:
            return bytes.fromhex(v['$binary'])
        if '$uuid' in v:
            return uuid.UUID(hex=v['$uuid'])
        if '$oid' in v:
            return ObjectId(v['$oid'])
        if '$date' in v:
            return _dt.datetime.fromisoformat(v['$date'])
        if '$regex' in v:
            return re.compile(v['$regex'], v['$flags'])
        raise ValueError('bad value %r' % (v,))
    return v
