"""C20, python-only probe: "unsupported operators fail loudly WHATEVER THE DATA".

The vocabulary probes (extract_vocab.py) try every (query position, name) through `find` on a
populated and on a plainly empty collection.  A refusal observed there must not depend on what
the collection happens to hold when the call comes in, nor on the method the filter is given to:
here every filter that `find` refuses on the populated collection is given again

  * to every method that takes a filter (find, find_one, count_documents, distinct, update_one,
    update_many, replace_one, delete_one, delete_many, find_one_and_delete / _replace / _update,
    bulk_write), on
  * collections in every state in which the call has documents to look at, or none although the
    collection is (or was) in use: populated; never used; every document deleted; dropped and the
    handle used again; a TTL index whose documents have ALL expired and have not been swept yet
    (the clock is `mongomock.utcnow`, set here); the same after an earlier access has swept them;
    a TTL index with every document still alive; a TTL index with some documents expired.

The property wants every one of these calls to raise.  A call that returns is a failure; the
(position, kind of state) classes that fail on the unchanged code are listed as known findings
`empty-unvalidated:<position>` (known_findings.json, witness kind "state").  The states are not
part of the Lean model (MongoModel.Vocab.dispatch knows names and positions, not collections):
the driver is not consulted for these cases.
"""
import copy
import datetime

import mongomock

import extract_vocab

T0 = datetime.datetime(2024, 5, 1, 12, 0, 0)
ALIVE = T0 + datetime.timedelta(seconds=5)
LATER = T0 + datetime.timedelta(hours=1)
TTL_SECONDS = 60

QUERY_POSITIONS = ['queryField', 'queryFieldDeadEnd', 'queryTop', 'queryNot', 'queryElemMatch',
                   'typeAlias']


def _docs(stamps=None):
    docs = copy.deepcopy(extract_vocab.make_docs())
    for i, d in enumerate(docs):
        d['stamp'] = (stamps or [T0] * len(docs))[i]
    return docs


class clock(object):
    """`mongomock.utcnow` answers `now` inside the block (None: the real clock)"""

    def __init__(self, now):
        self.now = now

    def __enter__(self):
        if self.now is not None:
            self.saved = mongomock.utcnow
            now = self.now
            mongomock.utcnow = lambda: now

    def __exit__(self, *exc):
        if self.now is not None:
            mongomock.utcnow = self.saved
        return False


def _populated():
    c = mongomock.MongoClient().db.c
    c.insert_many(_docs())
    return c, None


def _never_used():
    return mongomock.MongoClient().db.c, None


def _all_deleted():
    c, _ = _populated()
    c.delete_many({})
    return c, None


def _dropped_reused():
    c, _ = _populated()
    c.create_index([('a', 1)])
    c.drop()
    return c, None


def _ttl(stamps=None):
    c = mongomock.MongoClient().db.c
    c.create_index([('stamp', 1)], expireAfterSeconds=TTL_SECONDS)
    with clock(T0):
        c.insert_many(_docs(stamps))
    return c


def _ttl_expired_unswept():
    return _ttl(), LATER


def _ttl_expired_swept():
    c = _ttl()
    with clock(LATER):
        c.count_documents({})
    return c, LATER


def _ttl_alive():
    return _ttl(), ALIVE


def _ttl_partly_expired():
    # the first document lives on, the others are past their expiry date
    return _ttl([LATER, T0, T0]), LATER


# name -> (builder, the call has no document to look at, the state survives a refused call,
#          python that builds it)
_PRE = ("import datetime, mongomock\nfrom unittest import mock\n"
        "from extract_vocab import make_docs   # harness/extract_vocab.py\n"
        "T0 = datetime.datetime(2024, 5, 1, 12)\n"
        "docs = [dict(d, stamp=T0) for d in make_docs()]\n"
        "c = mongomock.MongoClient().db.c\n")
_TTL = (_PRE + "c.create_index([('stamp', 1)], expireAfterSeconds=60)\n"
        "with mock.patch('mongomock.utcnow', return_value=T0):\n    c.insert_many(docs)\n")
STATES = [
    ('populated', _populated, False, True, _PRE + "c.insert_many(docs)\n"),
    ('never_used', _never_used, True, True, _PRE),
    ('all_deleted', _all_deleted, True, True, _PRE + "c.insert_many(docs)\nc.delete_many({})\n"),
    ('dropped_reused', _dropped_reused, True, True,
     _PRE + "c.insert_many(docs)\nc.create_index([('a', 1)])\nc.drop()\n"),
    ('ttl_expired_unswept', _ttl_expired_unswept, True, False,
     _TTL + "# every document is past its expiry date, nothing has swept them yet\n"
            "now = T0 + datetime.timedelta(hours=1)\n"),
    ('ttl_expired_swept', _ttl_expired_swept, True, True,
     _TTL + "now = T0 + datetime.timedelta(hours=1)\n"
            "with mock.patch('mongomock.utcnow', return_value=now):\n"
            "    c.count_documents({})\n"),
    ('ttl_alive', _ttl_alive, False, True, _TTL + "now = T0 + datetime.timedelta(seconds=5)\n"),
    ('ttl_partly_expired', _ttl_partly_expired, False, False,
     _PRE.replace("stamp=T0", "stamp=T0 if d['_id'] != 1 else T0 + datetime.timedelta(hours=1)")
     + "c.create_index([('stamp', 1)], expireAfterSeconds=60)\n"
       "with mock.patch('mongomock.utcnow', return_value=T0):\n    c.insert_many(docs)\n"
       "now = T0 + datetime.timedelta(hours=1)\n"),
]
STATE = {s[0]: s for s in STATES}
EFFECTIVELY_EMPTY = [s[0] for s in STATES if s[2]]

_SET = {'$set': {'m': 1}}


class UpdateManyModel(object):
    """stands for pymongo.UpdateMany (pymongo is not installed): bulk_write calls
    request._add_to_bulk(builder)"""

    def __init__(self, flt, update):
        self.flt, self.update = flt, update

    def _add_to_bulk(self, bulk):
        bulk.add_update(self.flt, self.update, multi=True)


METHODS = [
    ('find', lambda c, f: list(c.find(f)), 'list(c.find(%r))'),
    ('find_one', lambda c, f: c.find_one(f), 'c.find_one(%r)'),
    ('count_documents', lambda c, f: c.count_documents(f), 'c.count_documents(%r)'),
    ('distinct', lambda c, f: c.distinct('a', f), "c.distinct('a', %r)"),
    ('update_one', lambda c, f: c.update_one(f, dict(_SET)).matched_count,
     "c.update_one(%r, {'$set': {'m': 1}}).matched_count"),
    ('update_many', lambda c, f: c.update_many(f, dict(_SET)).matched_count,
     "c.update_many(%r, {'$set': {'m': 1}}).matched_count"),
    ('replace_one', lambda c, f: c.replace_one(f, {'m': 1}).matched_count,
     "c.replace_one(%r, {'m': 1}).matched_count"),
    ('delete_one', lambda c, f: c.delete_one(f).deleted_count, 'c.delete_one(%r).deleted_count'),
    ('delete_many', lambda c, f: c.delete_many(f).deleted_count,
     'c.delete_many(%r).deleted_count'),
    ('find_one_and_delete', lambda c, f: c.find_one_and_delete(f), 'c.find_one_and_delete(%r)'),
    ('find_one_and_replace', lambda c, f: c.find_one_and_replace(f, {'m': 1}),
     "c.find_one_and_replace(%r, {'m': 1})"),
    ('find_one_and_update', lambda c, f: c.find_one_and_update(f, dict(_SET)),
     "c.find_one_and_update(%r, {'$set': {'m': 1}})"),
    ('bulk_write', lambda c, f: c.bulk_write([UpdateManyModel(f, dict(_SET))]).matched_count,
     "c.bulk_write([UpdateMany(%r, {'$set': {'m': 1}})]).matched_count   # pymongo.UpdateMany, or "
     "harness/c20_states.UpdateManyModel"),
]
METHOD = {m[0]: m for m in METHODS}

# every (state, method) pair once; 8 states and 13 methods have no common factor, so stepping
# through both lists at once meets every pair and neighbours differ in state AND method
COMBOS = [(STATES[k % len(STATES)][0], METHODS[k % len(METHODS)][0])
          for k in range(len(STATES) * len(METHODS))]
assert len(set(COMBOS)) == len(STATES) * len(METHODS)


def snippet(state, method, flt):
    call = METHOD[method][2] % (flt,)
    pre = STATE[state][4]
    if 'now = ' in pre:
        return pre + "with mock.patch('mongomock.utcnow', return_value=now):\n    " + call + \
            "   # must raise"
    return pre + call + "   # must raise"


class Runner(object):
    """runs (state, method, filter) calls; a collection whose state a refused call leaves as it
    is is built once and used again until a call returns"""

    def __init__(self):
        self._cache = {}
        self.calls = 0
        self.builds = 0
        self.unprobed = set()     # (state, method) pairs whose plain call does not return

    def _collection(self, state):
        if state in self._cache:
            return self._cache[state]
        self.builds += 1
        built = STATE[state][1]()
        if STATE[state][3]:
            self._cache[state] = built
        return built

    def run(self, state, method, flt):
        """-> (silent, result or None, exception class name or None)"""
        self.calls += 1
        c, now = self._collection(state)
        try:
            with clock(now):
                res = METHOD[method][1](c, copy.deepcopy(flt))
        except Exception as ex:  # pylint: disable=broad-except
            return False, None, type(ex).__name__
        self._cache.pop(state, None)     # the call went through: it may have written
        return True, extract_vocab.canon(res), None

    def plain_calls(self):
        """every method on every state with a filter that carries no operator: it must RETURN,
        so that a refusal of the probed filter is due to the operator -> [(state, method, error)]
        of those that do not"""
        out = []
        for state, method in COMBOS:
            silent, _, err = self.run(state, method, {'a': {'$gt': 0}})
            if not silent:
                out.append((state, method, err))
        return out


def probe_one(runner, pos, name, flt, state, method):
    silent, res, err = runner.run(state, method, flt)
    return {'pos': pos, 'name': name, 'state': state, 'method': method, 'filter': flt,
            'silent': silent, 'returned': res, 'error': err,
            'effectively_empty': state in EFFECTIVELY_EMPTY,
            'python': snippet(state, method, flt)}


def select(n_entries, index, full, per_entry, offset):
    """the (state, method) pairs of the index-th refused entry: all of them (`full`), else
    `per_entry` consecutive ones of the round-robin through COMBOS"""
    if full or per_entry >= len(COMBOS):
        return list(COMBOS)
    start = offset + index * per_entry
    return [COMBOS[(start + j) % len(COMBOS)] for j in range(per_entry)]
