"""Generators for C12: documents rich in sub-documents / arrays of sub-documents / mixed arrays,
and the projection grammar (dict and list forms, `_id` toggling, nested dotted paths, `$slice`
counts and pairs, `$elemMatch` conditions, and a malformed stream); a second flavour draws
documents whose arrays carry datetimes and projections whose conditions look at them.

Field names below the top level are the top-level ones (a dotted path and a top-level name of the
projection meet the same name at two depths) and, one sub-document in four, `_id`: the name the
projection treats specially at the top level ONLY (kept unless `_id: 0`, never a plain path) is an
ordinary field anywhere else - in an embedded document, in a document element of an array, in a
document inside a nested array - and is kept / removed there only when a dotted path names it."""
import copy
import datetime

import gen
import gen_filter
from wire import FixedOffset

SUBFIELDS = ['a', 'b', 'c', 'd']


class ProjGen(object):
    def __init__(self, g):
        self.g = g
        self.r = g.r
        self.fg = gen_filter.FilterGen(g, malformed=0.02, elem=False, regex=False)
        self.kinds = {}

    def note(self, k):
        self.kinds[k] = self.kinds.get(k, 0) + 1

    # -- documents --------------------------------------------------------------------------
    def value(self, depth):
        r = self.r
        x = r.random()
        if depth <= 0 or x < 0.30:
            return self.g.simple_scalar()
        if x < 0.52:
            return self.subdoc(depth - 1)
        if x < 0.74:      # array of sub-documents
            return [self.subdoc(depth - 1) for _ in range(r.choice([0, 1, 2, 2, 3]))]
        if x < 0.84:      # array mixing scalars and sub-documents
            return [self.subdoc(depth - 1) if r.random() < 0.55 else self.g.simple_scalar()
                    for _ in range(r.choice([1, 2, 3]))]
        if x < 0.94:      # array of scalars
            k = r.choice('ifs')
            return [self.g.scalar(k) for _ in range(r.choice([0, 1, 2, 3, 4, 5]))]
        return [self.value(depth - 1) for _ in range(r.choice([1, 2]))]   # anything, nested arrays

    def subdoc(self, depth):
        n = self.r.choice([0, 1, 2, 2, 3])
        d = {f: self.value(depth) for f in self.r.sample(SUBFIELDS, n)}
        return self.nested_id(d, 0.25)

    def nested_id(self, d, prob):
        """now and then a sub-document has an `_id` of its own (first, last or in between; a
        scalar, seldom a document): below the top level the name means nothing special"""
        r = self.r
        if r.random() >= prob:
            return d
        self.note('nested_id')
        v = self.g.simple_scalar() if r.random() < 0.9 else {'a': r.choice(gen.INTS)}
        items = list(d.items())
        pos = r.random()
        items.insert(0 if pos < 0.5 else len(items) if pos < 0.75 else
                     r.randrange(len(items) + 1), ('_id', v))
        return dict(items)

    def doc(self, _id):
        r = self.r
        n = r.choice([1, 2, 3, 3, 4])
        d = {f: self.value(2) for f in r.sample(gen.FIELDS, n)}
        pos = r.random()
        items = list(d.items())
        if pos < 0.7:
            items.insert(0, ('_id', _id))
        elif pos < 0.85:
            items.append(('_id', _id))
        else:
            items.insert(r.randrange(len(items) + 1), ('_id', _id))
        return dict(items)

    # -- paths ------------------------------------------------------------------------------
    def key_paths(self, v, prefix=()):
        """dotted paths made of field names only (arrays are traversed implicitly)"""
        out = []
        if isinstance(v, dict):
            for k, x in v.items():
                if k == '_id' and not prefix:
                    continue
                out.append(prefix + (k,))
                out.extend(self.key_paths(x, prefix + (k,)))
        elif isinstance(v, list):
            for x in v:
                out.extend(self.key_paths(x, prefix))
        return out

    def path(self, doc):
        r = self.r
        x = r.random()
        ps = self.key_paths(doc)
        if ps and x < 0.8:
            p = list(r.choice(ps))
            y = r.random()
            if y < 0.12:
                p.append(r.choice(SUBFIELDS))          # one step past an existing value
            elif y < 0.15:
                p.append(r.choice(gen.IDX))
            return '.'.join(p)
        n = r.choice([1, 1, 2, 3])
        return '.'.join(r.choice(SUBFIELDS) for _ in range(n))

    def collide(self, paths):
        for p in paths:
            for q in paths:
                if p != q and (q.startswith(p + '.')):
                    return True
        return False

    # -- projections ------------------------------------------------------------------------
    def flag(self, include):
        x = self.r.random()
        if x < 0.8:
            return 1 if include else 0
        if x < 0.92:
            return bool(include)
        if x < 0.97:
            return 1.0 if include else 0.0
        self.note('oddvalue')
        return self.r.choice([2, 'x', -1]) if include else self.r.choice([None, ''])

    def id_flag(self, proj):
        x = self.r.random()
        if x < 0.45:
            return
        if x < 0.70:
            proj['_id'] = self.r.choice([0, 0, False])
        elif x < 0.94:
            proj['_id'] = self.r.choice([1, 1, True])
        else:
            self.note('oddid')
            proj['_id'] = self.r.choice([2, None, 'x', 0.0, 1.0])

    def slice_operand(self, malformed=False):
        r = self.r
        if malformed:
            return r.choice([1.5, 'x', None, [1], [1, 2, 3], [1.0, 2], ['a', 1], [1, None], {}, []])
        if r.random() < 0.5:
            return r.choice([-6, -3, -2, -1, 0, 1, 2, 3, 6, True])
        return [r.choice([-6, -3, -2, -1, 0, 0, 1, 2, 4, 6]), r.choice([-2, -1, 0, 1, 1, 2, 2, 3, 6])]

    def elem_operand(self, doc, field):
        r = self.r
        arr = doc.get(field)
        items = [x for x in arr if isinstance(x, dict)] if isinstance(arr, list) else []
        if items and r.random() < 0.7:
            it = r.choice(items)
            if it:
                k = r.choice(list(it))
                v = it[k]
                if r.random() < 0.6 and not isinstance(v, (dict, list)):
                    return {k: copy.deepcopy(v)}
                return {k: self.fg.condition(it, 1)}
        if r.random() < 0.5:
            return {r.choice(SUBFIELDS): self.fg.condition(doc, 1)}
        return self.fg.elem_query(doc, 1)

    def op_field(self, doc):
        r = self.r
        tops = [k for k in doc if k != '_id']
        arrs = [k for k in tops if isinstance(doc[k], list)]
        x = r.random()
        if arrs and x < 0.75:
            return r.choice(arrs)
        if tops and x < 0.88:
            return r.choice(tops)
        if x < 0.95:
            return r.choice(gen.FIELDS)
        return self.path(doc)

    def operator(self, doc, field, malformed=False):
        r = self.r
        x = r.random()
        if malformed and x < 0.3:
            self.note('op:$unknown')
            return {r.choice(['$foo', '$meta', 'x']): 1}
        if x < 0.5:
            self.note('op:$slice')
            return {'$slice': self.slice_operand(malformed and r.random() < 0.7)}
        if x < 0.92:
            self.note('op:$elemMatch')
            if malformed and r.random() < 0.5:
                return {'$elemMatch': r.choice([5, 'x', None, [1], {'$gt': 1}, {'$foo': 1}])}
            return {'$elemMatch': self.elem_operand(doc, field)}
        if x < 0.97:
            self.note('op:both')
            return {'$slice': self.slice_operand(), '$elemMatch': self.elem_operand(doc, field)}
        self.note('op:empty')
        return {}

    def dict_proj(self, doc, malformed=False):
        r = self.r
        proj = {}
        include = r.random() < 0.55
        n = r.choice([0, 1, 1, 1, 2, 2, 3])
        tries = 0
        paths = []
        while len(paths) < n and tries < 10:
            tries += 1
            p = self.path(doc)
            if p in paths:
                continue
            if self.collide(paths + [p]) and not (malformed and r.random() < 0.5):
                continue
            paths.append(p)
        for p in paths:
            proj[p] = self.flag(include)
        if r.random() < 0.28:
            f = self.op_field(doc)
            heads = [q.split('.')[0] for q in paths]
            if f not in proj and (f.split('.')[0] not in heads or r.random() < 0.15):
                proj[f] = self.operator(doc, f, malformed)
                if r.random() < 0.1:
                    f2 = self.op_field(doc)
                    if f2 not in proj:
                        proj[f2] = self.operator(doc, f2, malformed)
        self.id_flag(proj)
        # the position of _id in the caller's dict varies
        if '_id' in proj and r.random() < 0.5:
            v = proj.pop('_id')
            proj = dict([('_id', v)] + list(proj.items()))
        if malformed:
            x = r.choice(['mix', 'positional', 'listvalue', 'collision', 'none'])
            self.note('malformed:' + x)
            if x == 'mix' and paths:
                proj[r.choice(SUBFIELDS) + '.zz'] = 0 if include else 1
            elif x == 'positional':
                base = r.choice(paths) if paths else r.choice(gen.FIELDS)
                proj[base + '.$'] = 1 if include else 0
            elif x == 'listvalue':
                proj[r.choice(gen.FIELDS)] = [1]
            elif x == 'collision' and paths:
                p = r.choice(paths)
                if '.' in p:
                    proj[p.split('.')[0]] = 1 if include else 0
                else:
                    proj[p + '.' + r.choice(SUBFIELDS)] = 1 if include else 0
        return proj

    def projection(self, doc):
        r = self.r
        x = r.random()
        if x < 0.03:
            self.note('form:empty')
            return r.choice([None, {}, []])
        if x < 0.17:
            self.note('form:list')
            n = r.choice([1, 1, 2, 3])
            names = []
            for _ in range(n):
                p = self.path(doc)
                if p not in names and (not self.collide(names + [p]) or r.random() < 0.1):
                    names.append(p)
            if r.random() < 0.15:
                names.append('_id')
            if r.random() < 0.04:
                names.append(names[0] if names else 'a')
            if r.random() < 0.04:
                self.note('malformed:listitem')
                names.append(r.choice([5, None, ['a']]))
            return names
        if x < 0.25:
            self.note('form:dict-malformed')
            return self.dict_proj(doc, malformed=True)
        self.note('form:dict')
        return self.dict_proj(doc)

    # -- dated flavour: arrays whose items carry datetimes, projections that look at them -----
    def date(self):
        return self.r.choice(gen.DATES)

    def dated_items(self):
        """an array of sub-documents with one or two date fields (now and then an item lacks the
        field, holds null / another scalar there, or is no document), or an array of dates"""
        r = self.r
        n = r.choice([1, 2, 2, 3, 3, 4])
        if r.random() < 0.2:
            return [self.date() if r.random() < 0.85 else self.g.simple_scalar() for _ in range(n)]
        names = r.sample(SUBFIELDS, r.choice([1, 1, 2]))
        other = r.choice([f for f in SUBFIELDS if f not in names])
        out = []
        for _ in range(n):
            if r.random() < 0.06:
                out.append(self.date() if r.random() < 0.5 else self.g.simple_scalar())
                continue
            it = {}
            for f in names:
                x = r.random()
                if x < 0.82:
                    it[f] = self.date()
                elif x < 0.9:
                    it[f] = r.choice([None, 1, 'a', [self.date()], {'a': self.date()}])
            if r.random() < 0.7:
                it[other] = r.choice(gen.INTS)
            if r.random() < 0.3:
                it = dict(reversed(list(it.items())))
            out.append(self.nested_id(it, 0.15))
        return out

    def dated_doc(self, _id):
        r = self.r
        names = r.sample(gen.FIELDS, r.choice([2, 3, 3, 4]))
        d = {'_id': _id}
        d[names[0]] = self.dated_items()
        for f in names[1:]:
            x = r.random()
            if x < 0.3:
                d[f] = self.dated_items()
            elif x < 0.55:
                d[f] = self.date()
            elif x < 0.75:
                d[f] = self.nested_id({'a': self.date(), 'b': r.choice(gen.INTS)}, 0.25)
            else:
                d[f] = self.value(1)
        if r.random() < 0.2:
            items = list(d.items())
            items.append(items.pop(0))
            d = dict(items)
        return d

    def date_operand(self, items, key=None):
        """a datetime to compare with: mostly one the array holds (under `key`)"""
        r = self.r
        if key is None:
            have = [x for x in items if not isinstance(x, (dict, list))]
        else:
            have = [x[key] for x in items if isinstance(x, dict) and key in x and
                    not isinstance(x[key], (dict, list))]
        if have and r.random() < 0.75:
            return copy.deepcopy(r.choice(have))
        return self.date()

    def date_condition(self, items, key=None):
        """equality (implicit / $eq), one or two range operators, $in / $nin / $ne over dates"""
        r = self.r
        x = r.random()
        v = lambda: self.date_operand(items, key)       # noqa: E731
        if x < 0.3:
            self.note('datecond:eq')
            return v() if (key is not None and r.random() < 0.7) else {'$eq': v()}
        if x < 0.6:
            self.note('datecond:range')
            return {r.choice(gen_filter.CMP): v()}
        if x < 0.78:
            self.note('datecond:range2')
            return {r.choice(['$gt', '$gte']): v(), r.choice(['$lt', '$lte']): v()}
        if x < 0.9:
            self.note('datecond:in')
            return {r.choice(['$in', '$in', '$nin']): [v() for _ in range(r.choice([1, 2, 3]))]}
        self.note('datecond:ne')
        return {'$ne': v()}

    def dated_projection(self, doc):
        """one projection operator on an array that carries datetimes ($elemMatch whose condition
        looks at a date by equality or by range, on a field of the items or on the items
        themselves; $slice), alone or next to plain paths / date fields"""
        r = self.r
        tops = [k for k in doc if k != '_id']
        arrs = [k for k in tops if isinstance(doc[k], list)]
        if not arrs:
            return self.dict_proj(doc)
        f = r.choice(arrs)
        items = doc[f]
        keys = sorted({k for it in items if isinstance(it, dict) for k in it})
        proj = {}
        x = r.random()
        if x < 0.62:
            self.note('dated:$elemMatch')
            if keys and r.random() < 0.85:
                cond = {}
                for k in r.sample(keys, 1 if r.random() < 0.8 or len(keys) < 2 else 2):
                    cond[k] = self.date_condition(items, k)
            else:
                c = self.date_condition(items)
                cond = c if isinstance(c, dict) else {'$eq': c}
            proj[f] = {'$elemMatch': cond}
        elif x < 0.9:
            self.note('dated:$slice')
            proj[f] = {'$slice': self.slice_operand()}
        else:
            self.note('dated:paths')
        # plain paths next to (never under) the operator field
        if r.random() < (0.45 if proj else 1.0):
            include = r.random() < 0.55
            cands = [q for q in ('.'.join(t) for t in self.key_paths(doc))
                     if q.split('.')[0] != f or not proj]
            paths = []
            for _ in range(r.choice([1, 1, 2])):
                if not cands:
                    break
                q = r.choice(cands)
                if q not in paths and not self.collide(paths + [q]):
                    paths.append(q)
            plain = {q: (1 if include else 0) for q in paths}
            if r.random() < 0.5:
                plain.update(proj)
                proj = plain
            else:
                proj.update(plain)
        self.id_flag(proj)
        return proj

    def respell(self, v):
        """the same projection with every datetime written another way: the same instant seen
        from another offset (tz-aware), with a sub-millisecond part the store drops, or both.
        Returns None when v holds no datetime."""
        r = self.r
        hit = []

        def go(x):
            if isinstance(x, dict):
                return {k: go(y) for k, y in x.items()}
            if isinstance(x, list):
                return [go(y) for y in x]
            if isinstance(x, datetime.datetime) and x.tzinfo is None:
                hit.append(1)
                how = r.choice(['aware', 'aware', 'offset', 'offset', 'submilli', 'both'])
                self.note('respell:' + how)
                if how in ('submilli', 'both'):
                    x = x + datetime.timedelta(microseconds=r.choice([1, 250, 999]))
                if how == 'aware':
                    x = x.replace(tzinfo=FixedOffset(0))
                elif how in ('offset', 'both'):
                    m = r.choice([-330, -60, 60, 120, 345])
                    x = (x + datetime.timedelta(minutes=m)).replace(tzinfo=FixedOffset(m))
                return x
            return copy.deepcopy(x)
        out = go(v)
        return out if hit else None

    def agg_projection(self, doc):
        """plain inclusion / exclusion specifications for `$project` (flags only)"""
        r = self.r
        for _ in range(20):
            p = self.dict_proj(doc, malformed=r.random() < 0.08)
            if p and not any(isinstance(v, (dict, list)) for v in p.values()):
                return p
        return {'a': 1}
