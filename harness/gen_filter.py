"""Query-filter generator (the supported query language of C01), shared by the harnesses."""
from gen import FIELDS

CMP = ['$gt', '$gte', '$lt', '$lte']
TYPES_OK = ['double', 'string', 'object', 'array', 'objectId', 'bool', 'date', 'int', 'long',
            'number']
TYPES_NI = ['null', 'regex', 'timestamp', 'decimal', 'minKey']
REGEX = ['a', '^a', 'b$', '^ab$', '', 'ab', '^b']


class FilterGen(object):
    def __init__(self, g, malformed=0.04, elem=True, regex=True, emptykeys=0.0):
        """emptykeys: rate of keys with an empty component ('', 'a.', '.', 'a..b', '.a'); 0 draws
        nothing, so the streams of the harnesses that do not ask for them are unchanged"""
        self.g = g
        self.r = g.r
        self.malformed = malformed
        self.elem = elem
        self.regex = regex
        self.emptykeys = emptykeys
        self.ops_used = {}

    def _note(self, op):
        self.ops_used[op] = self.ops_used.get(op, 0) + 1

    def key(self, doc):
        """the key of a condition; every dot-separated component, the empty one included, is a
        field name"""
        k = self.g.path(doc)
        if self.emptykeys and self.r.random() < self.emptykeys:
            x = self.r.choice(['empty', 'tail', 'dot', 'mid', 'head'])
            self._note('emptykey:' + x)
            comps = k.split('.')
            if x == 'empty':
                return ''
            if x == 'tail':
                return k + '.'
            if x == 'dot':
                return '.'
            if x == 'head':
                return '.' + k
            i = self.r.randrange(1, len(comps) + 1)
            return '.'.join(comps[:i] + [''] + (comps[i:] or [self.r.choice(FIELDS)]))
        return k

    def filter(self, doc=None, depth=2, top=True):
        n = self.r.choice([1, 1, 1, 2, 2, 3]) if top else self.r.choice([1, 1, 2])
        f = {}
        for _ in range(n):
            x = self.r.random()
            if x < 0.14 and depth > 0:
                op = self.r.choice(['$and', '$or', '$nor'])
                self._note(op)
                f[op] = [self.filter(doc, depth - 1, top=False)
                         for _ in range(self.r.choice([1, 2, 2, 3]))]
            elif x < 0.15 and top:
                f['$comment'] = 'c'
            else:
                f[self.key(doc)] = self.condition(doc, depth)
        if self.r.random() < self.malformed:
            self.break_filter(f)
        return f

    def break_filter(self, f):
        x = self.r.choice(['emptyand', 'unknowntop', 'notlist', 'toplevelni'])
        self._note('malformed:' + x)
        if x == 'emptyand':
            f[self.r.choice(['$and', '$or', '$nor'])] = []
        elif x == 'unknowntop':
            f['$foo'] = 1
        elif x == 'notlist':
            f['$or'] = {'a': 1}
        else:
            f[self.r.choice(['$where', '$text'])] = 'x'

    def condition(self, doc, depth):
        if self.r.random() < 0.3:
            self._note('implicit')
            return self.g.operand(doc)
        n = 1 if self.r.random() < 0.8 else 2
        c = {}
        for _ in range(n):
            op, v = self.op(doc, depth)
            c[op] = v
        return c

    def op(self, doc, depth):
        r = self.r
        kinds = ['$eq', '$ne', 'cmp', 'cmp', '$in', '$nin', '$exists', '$type', '$size', '$all',
                 '$not']
        if self.elem and depth > 0:
            kinds.append('$elemMatch')
        if self.regex:
            kinds.append('$regex')
        k = r.choice(kinds)
        if r.random() < self.malformed:
            x = r.choice(['unknown', 'ni', 'innotlist', 'notscalar', 'badtype'])
            self._note('malformed:' + x)
            if x == 'unknown':
                return '$foo', 1
            if x == 'ni':
                return r.choice(['$near', '$bitsAllSet', '$geoWithin']), 1
            if x == 'innotlist':
                return r.choice(['$in', '$nin']), self.g.scalar()
            if x == 'notscalar':
                return '$not', self.g.scalar()
            return '$type', r.choice(['foo', 7] + TYPES_NI)
        if k == 'cmp':
            k = r.choice(CMP)
        self._note(k)
        if k in ('$eq', '$ne') or k in CMP:
            return k, self.g.operand(doc)
        if k in ('$in', '$nin'):
            return k, [self.g.operand(doc, 0) for _ in range(r.choice([0, 1, 2, 3]))]
        if k == '$exists':
            return k, r.choice([True, False, 1, 0])
        if k == '$type':
            return k, r.choice(TYPES_OK)
        if k == '$size':
            return k, r.choice([0, 1, 2, 3])
        if k == '$all':
            items = [self.g.operand(doc, 0) for _ in range(r.choice([0, 1, 1, 2]))]
            if self.elem and depth > 0 and r.random() < 0.2:
                items.append({'$elemMatch': self.elem_query(doc, depth - 1)})
            return k, items
        if k == '$elemMatch':
            return k, self.elem_query(doc, depth - 1)
        if k == '$regex':
            return k, r.choice(REGEX)
        if k == '$not':
            c = {}
            op, v = self.op(doc, depth - 1)
            while op == '$not' and depth <= 0:
                op, v = self.op(doc, depth - 1)
            c[op] = v
            return k, c
        raise ValueError(k)

    def elem_query(self, doc, depth):
        """the operand of $elemMatch: conditions on the element itself or on its fields"""
        if self.r.random() < 0.5:
            c = {}
            for _ in range(self.r.choice([1, 1, 2])):
                op, v = self.op(doc, depth)
                c[op] = v
            return c
        f = {}
        for _ in range(self.r.choice([1, 1, 2])):
            f[self.r.choice(FIELDS)] = self.condition(doc, depth)
        return f
