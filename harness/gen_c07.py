"""History generator for C07 (values, not references).

Builds on `hist.HistGen` (documents, filters, id pool, shadow picture of the collection) and adds
what C07 quantifies over: nested MUTABLE values (sub-documents, arrays of sub-documents, depth
<= 3) carried by every value-bearing update operator, replacement, insert and upsert, and every
read path (find with and without projection incl. $slice / $elemMatch, find_one,
find_one_and_update/replace/delete with both return modes, distinct, aggregate, re-reading a
cursor).  Every random choice comes from the one random.Random of the HistGen.

An op is a JSON-like list:
  ['insert_one', doc]                       ['insert_many', docs, ordered]
  ['update_one'|'update_many', filter, update, upsert]
  ['replace_one', filter, replacement, upsert]
  ['delete_one'|'delete_many', filter]
  ['find', filter, projection|None, sort|None, skip, limit]
  ['find_one', filter, projection|None]
  ['find_rewind', filter, projection|None, script, sort|None]   the cursor is kept; script = cursor actions
       ['rewind'] | ['next'] | ['index', i] | ['clone'] | ['distinct', key]  (default [['rewind']])
  ['cursor_again', k, action]               one more action on the k-th cursor still kept
  ['foau', filter, update, projection|None, after, upsert, sort|None]
  ['foar', filter, replacement, projection|None, after, upsert]
  ['foad', filter, projection|None, sort|None]
  ['distinct', key, filter]                 ['aggregate', pipeline]
  ['create_index', keys, opts]              ['edit_nested', k]      ['follow_up', k, variant]
"""
import copy

import hist
from gen import FIELDS, INTS

KEYS = ['a', 'b', 'c', 'd']
SUB = ['x', 'y', 'z']


class C07Gen(hist.HistGen):
    def __init__(self, rng, oids):
        hist.HistGen.__init__(self, rng, oids, ttl=False, indexes=True, embedded_ids=True)
        self.cw = dict(insert_one=10, insert_many=5, update_one=9, update_many=12, replace_one=5,
                       delete_one=2, delete_many=1, find=6, find_proj=12, find_one=4,
                       find_rewind=4, cursor_again=4, foau=6, foar=3, foad=2, distinct=4,
                       aggregate=7, create_index=1, edit_nested=8, follow_up=0)
        self.open_cursors = 0
        self.last_multi = None      # fields set by the last multi-document update
        self.stats = {}

    def note(self, k):
        self.stats[k] = self.stats.get(k, 0) + 1

    # -- values -----------------------------------------------------------------------------
    def scalar(self):
        return self.r.choice([0, 1, 2, 3, 'a', 'b', None, True, 1.5])

    def cont(self, depth=2):
        """a nested mutable value: sub-document or array (often of sub-documents)"""
        r = self.r
        if depth <= 0:
            return self.scalar()
        x = r.random()
        if x < 0.45:
            return dict((k, self.cval(depth - 1)) for k in r.sample(SUB, r.choice([1, 1, 2])))
        if x < 0.75:
            return [dict((k, self.cval(depth - 2)) for k in r.sample(SUB, r.choice([1, 2])))
                    for _ in range(r.choice([1, 2, 2, 3]))]
        return [self.cval(depth - 1) for _ in range(r.choice([0, 1, 2, 3]))]

    def cval(self, depth=2):
        return self.cont(depth) if self.r.random() < 0.6 else self.scalar()

    def c_doc(self):
        """a document whose fields mostly hold containers"""
        r = self.r
        d = {}
        if r.random() < 0.55:
            d['_id'] = copy.deepcopy(r.choice(self.ids + [{'k': 1, 'n': {'z': 1}}, 7, 8, 9, 'c']))
        for k in r.sample(KEYS, r.choice([1, 2, 3])):
            d[k] = self.cval(3)
        if r.random() < 0.5:
            d['a'] = [dict(x=r.choice(INTS), y=self.cval(1)) for _ in range(r.choice([1, 2, 3]))]
        return d

    def c_filt(self):
        """a filter; sometimes one carrying containers (equality to a sub-document / array),
        which an upsert turns into the seed of the new document"""
        r = self.r
        x = r.random()
        if x < 0.55:
            return self.filt()
        if x < 0.7:
            return {}
        d = self.some_doc()
        if d is not None and r.random() < 0.5:
            ks = [k for k in d if isinstance(d[k], (dict, list)) and k != '_id']
            if ks:
                k = r.choice(ks)
                return {k: copy.deepcopy(d[k])}
        f = {r.choice(KEYS): self.cont(2)}
        if r.random() < 0.4:
            f['_id'] = copy.deepcopy(r.choice(self.ids))
        if r.random() < 0.3:
            f[r.choice(KEYS) + '.' + r.choice(SUB)] = self.cont(1)
        if r.random() < 0.2:
            f[r.choice(KEYS)] = {'$eq': self.cont(2)}
        return f

    def apath(self, want=None):
        """a path into the shadow picture, preferring containers"""
        d = self.some_doc()
        if d is not None and self.r.random() < 0.8:
            ps = [(c, v) for c, v in self.g.paths_of(d) if c[0] != '_id']
            if want == 'arr':
                ps2 = [(c, v) for c, v in ps if isinstance(v, list)]
            elif want == 'cont':
                ps2 = [(c, v) for c, v in ps if isinstance(v, (list, dict))]
            else:
                ps2 = ps
            if ps2 and self.r.random() < 0.85:
                ps = ps2
            if ps:
                return '.'.join(self.r.choice(ps)[0])
        n = self.r.choice([1, 1, 2])
        return '.'.join([self.r.choice(KEYS)] + [self.r.choice(SUB + ['0', '1'])
                                                 for _ in range(n - 1)])

    # -- updates ----------------------------------------------------------------------------
    def c_update(self, multi=False):
        """an update whose operators carry containers"""
        r = self.r
        u = {}
        fields = []
        for _ in range(r.choice([1, 1, 2, 3])):
            k = r.choice(['$set', '$set', '$set', '$set', '$push', '$push', '$push', '$addToSet',
                          '$addToSet', '$setOnInsert', '$min', '$max', '$pull', '$pullAll',
                          '$rename', '$pop', '$unset', '$inc', r.choice(['positional', '$set'])])
            body = u.setdefault(k if k != 'positional' else '$set', {})
            if k in ('$set', '$setOnInsert'):
                p = r.choice(KEYS) if r.random() < 0.6 else self.apath()
                body[p] = self.cont(3) if r.random() < 0.85 else self.scalar()
                fields.append(p)
            elif k == 'positional':
                body[r.choice(KEYS) + '.$'] = self.cont(2)
            elif k == '$push':
                p = self.apath('arr') if r.random() < 0.6 else r.choice(['p', 'q'])
                x = r.random()
                if x < 0.4:
                    body[p] = self.cont(2)
                else:
                    mod = {'$each': [self.cval(2) for _ in range(r.choice([1, 2, 3]))]}
                    if r.random() < 0.5:
                        mod['$position'] = r.choice([0, 1, 2, -1])
                    if r.random() < 0.2:
                        mod['$each'] = [{'k': r.choice(INTS), 'v': self.cval(1)}
                                        for _ in range(r.choice([1, 2, 3]))]
                        mod['$sort'] = {'k': r.choice([1, -1])}
                    if r.random() < 0.25:
                        mod['$slice'] = r.choice([1, 2, -1, -2, 5])
                    body[p] = mod
                fields.append(p)
            elif k == '$addToSet':
                p = self.apath('arr') if r.random() < 0.6 else r.choice(['s', 't'])
                if r.random() < 0.5:
                    body[p] = self.cont(2)
                else:
                    body[p] = {'$each': [self.cval(2) for _ in range(r.choice([1, 2, 3]))]}
                fields.append(p)
            elif k in ('$min', '$max'):
                body[r.choice(['m', 'n', 'm', r.choice(KEYS)])] = [
                    r.choice([1, 2, [1], [2, 3]]) for _ in range(r.choice([1, 2]))]
            elif k == '$pull':
                body[self.apath('arr')] = self.g.operand(self.some_doc(), 1)
            elif k == '$pullAll':
                body[self.apath('arr')] = [self.g.operand(self.some_doc(), 1)
                                           for _ in range(r.choice([1, 2]))]
            elif k == '$rename':
                body[r.choice(KEYS)] = r.choice(KEYS + ['e'])
            elif k == '$pop':
                body[self.apath('arr')] = r.choice([1, -1])
            elif k == '$unset':
                body[self.apath()] = ''
            elif k == '$inc':
                body[r.choice(['i', 'j', self.apath()])] = r.choice([1, 2, 2, 1, 'x'])
        u = dict((k, v) for k, v in u.items() if v)
        if not u:
            u = {'$set': {r.choice(KEYS): self.cont(2)}}
            fields.append(list(u['$set'])[0])
        return u, fields

    def c_replacement(self):
        d = dict((k, self.cval(3)) for k in self.r.sample(KEYS, self.r.choice([1, 2, 3])))
        s = self.some_doc()
        if s is not None and '_id' in s and self.r.random() < 0.2:
            d = dict([('_id', copy.deepcopy(s['_id']))] + list(d.items()))
        return d

    # -- projections ------------------------------------------------------------------------
    def projection(self):
        r = self.r
        x = r.random()
        if x < 0.06:
            return r.choice([{}, ['a'], ['a', 'b.x']])
        p = {}
        mode = r.choice([1, 1, 0])
        for k in r.sample(KEYS, r.choice([0, 1, 1, 2])):
            if r.random() < 0.25:
                k = k + '.' + r.choice(SUB)
            p[k] = r.choice([mode, bool(mode)])
        sd = self.some_doc() or {}
        lists = [k for k in KEYS if isinstance(sd.get(k), list)]
        for k in r.sample(KEYS, r.choice([0, 0, 1, 1, 2])):
            if lists and r.random() < 0.7:
                k = r.choice(lists)
            if k in p:
                continue
            y = r.random()
            if y < 0.5:
                p[k] = {'$slice': r.choice([1, 2, -1, -2, [0, 1], [1, 2], [-2, 1]])}
            elif y < 0.9:
                p[k] = {'$elemMatch': r.choice([{'x': r.choice(INTS)}, {'x': {'$gte': 0}},
                                                {'y': {'$exists': True}}, {'$gte': 0}])}
            else:
                p[k] = {'$slice': 1, '$elemMatch': {'x': {'$gte': 0}}}
        y = r.random()
        if y < 0.25:
            p['_id'] = 0
        elif y < 0.4:
            p['_id'] = 1
        elif y < 0.45:
            p = dict([('_id', r.choice([0, 1]))] + list(p.items()))
        if r.random() < 0.05:      # malformed
            z = r.choice(['mix', 'badop', 'slicearg'])
            if z == 'mix':
                p['a'], p['b'] = 1, 0
            elif z == 'badop':
                p[r.choice(KEYS)] = {'$foo': 1}
            else:
                p[r.choice(KEYS)] = {'$slice': r.choice([[1], 'x', [1, 2, 3]])}
        if not p:
            p = {r.choice(KEYS): 1}
        return p

    def maybe_projection(self, prob):
        return self.projection() if self.r.random() < prob else None

    def sort(self):
        if self.r.random() < 0.7:
            return None
        return [[self.r.choice(['_id', 'a', 'b', 'c.x']), self.r.choice([1, -1])]]

    def cursor_action(self):
        r = self.r
        x = r.random()
        if x < 0.4:
            return ['rewind']
        if x < 0.6:
            return ['index', r.choice([0, 0, 1, 2])]
        if x < 0.75:
            return ['clone']
        if x < 0.8:
            return ['next']
        key = self.apath('cont') if r.random() < 0.7 else r.choice(['a', 'b', 'c', '_id'])
        key = '.'.join(c for c in key.split('.') if not c.isdigit()) or key
        return ['distinct', key]

    # -- pipelines --------------------------------------------------------------------------
    def stage(self):
        r = self.r
        k = r.choice(['$match', '$project', '$project', '$addFields', '$addFields', '$addFields',
                      '$unwind', '$group', '$sort', '$limit', '$skip', '$unwind', '$group',
                      '$match', '$project', r.choice(['$lookup', '$graphLookup'])])
        ref = lambda: '$' + r.choice(KEYS + ['a.x', 'b.y', '_id'])   # noqa: E731
        if k == '$match':
            return {k: self.filt()}
        if k == '$project':
            x = r.random()
            if x < 0.4:
                p = dict((f, 1) for f in r.sample(KEYS, r.choice([1, 2])))
                if r.random() < 0.3:
                    p['_id'] = 0
                return {k: p}
            if x < 0.55:
                return {k: dict((f, 0) for f in r.sample(KEYS, r.choice([1, 2])))}
            p = {}
            for f in r.sample(KEYS + ['q'], r.choice([1, 2])):
                p[f] = ref() if r.random() < 0.6 else {'$literal': self.cont(2)}
            return {k: p}
        if k == '$addFields':
            p = {}
            for f in r.sample(KEYS + ['q', 'b.z', 'a.z', 'a.y.w', 'c.z', 'a.z'], r.choice([1, 2])):
                y = r.random()
                p[f] = ref() if y < 0.5 else ({'$literal': self.cont(2)} if y < 0.8
                                              else [self.scalar(), self.scalar()])
            return {k: p}
        if k == '$lookup':
            return {k: {'from': 'c', 'localField': r.choice(KEYS + ['a.x', '_id']),
                        'foreignField': r.choice(KEYS + ['a.x', '_id']), 'as': r.choice(['j', 'a'])}}
        if k == '$graphLookup':
            return {k: {'from': 'c', 'startWith': ref(), 'connectFromField': r.choice(KEYS + ['a.x']),
                        'connectToField': r.choice(['_id', 'a.x', 'b']), 'as': 'g',
                        'maxDepth': r.choice([0, 1])}}
        if k == '$unwind':
            if r.random() < 0.5:
                return {k: '$' + r.choice(KEYS)}
            return {k: {'path': '$' + r.choice(KEYS),
                        'preserveNullAndEmptyArrays': r.random() < 0.5}}
        if k == '$group':
            acc = {}
            for f in r.sample(['r', 's', 't'], r.choice([1, 2])):
                op = r.choice(['$push', '$first', '$last', '$addToSet', '$sum'])
                acc[f] = {op: 1} if op == '$sum' else {op: r.choice([ref(), '$$ROOT'])}
                if op == '$addToSet':
                    acc[f] = {op: '$_id'}
            return {k: dict([('_id', r.choice([None, ref(), ref()]))] + list(acc.items()))}
        if k == '$sort':
            return {k: {r.choice(['_id', 'a', 'b']): r.choice([1, -1])}}
        return {k: r.choice([0, 1, 2, 5])}

    def pipeline(self):
        return [self.stage() for _ in range(self.r.choice([0, 1, 1, 2, 2, 3]))]

    # -- operations -------------------------------------------------------------------------
    def op(self):
        r = self.r
        if self.last_multi and r.random() < 0.6:
            k = 'follow_up'
        else:
            names = [k for k, v in self.cw.items() if v > 0]
            k = r.choices(names, [self.cw[n] for n in names])[0]
        self.note(k)
        if k == 'follow_up':
            self.last_multi = None
            return ['follow_up', r.randrange(64), r.randrange(10)]
        if k == 'insert_one':
            d = self.c_doc() if r.random() < 0.8 else self.new_doc()
            self.shadow.append(copy.deepcopy(d))
            return ['insert_one', d]
        if k == 'insert_many':
            ds = [self.c_doc() if r.random() < 0.8 else self.new_doc()
                  for _ in range(r.choice([1, 2, 3, 4]))]
            self.shadow.extend(copy.deepcopy(ds))
            return ['insert_many', ds, r.random() < 0.5]
        if k in ('update_one', 'update_many'):
            if r.random() < 0.8:
                u, fields = self.c_update()
            else:
                u, fields = self.ug.update(self.some_doc()), []
            f = self.c_filt() if k == 'update_one' else (
                {} if r.random() < 0.6 else self.c_filt())
            if k == 'update_many' and fields:
                self.last_multi = [p for p in fields if '$' not in p] or None
            return [k, f, u, r.random() < 0.3]
        if k == 'replace_one':
            return [k, self.c_filt(), self.c_replacement(), r.random() < 0.3]
        if k in ('delete_one', 'delete_many'):
            return [k, self.filt()]
        if k == 'find':
            return ['find', self.filt() if r.random() < 0.6 else {}, None, self.sort(),
                    r.choice([0, 0, 0, 1]), r.choice([0, 0, 0, 1, 2])]
        if k == 'find_proj':
            return ['find', self.filt() if r.random() < 0.5 else {}, self.projection(),
                    self.sort(), r.choice([0, 0, 0, 1]), r.choice([0, 0, 0, 1, 2])]
        if k == 'find_one':
            return ['find_one', self.filt() if r.random() < 0.6 else {}, self.maybe_projection(0.6)]
        if k == 'cursor_again' and not self.open_cursors:
            k = 'find_rewind'
        if k == 'find_rewind':
            self.open_cursors += 1
            return ['find_rewind', self.filt() if r.random() < 0.4 else {},
                    self.maybe_projection(0.3),
                    [self.cursor_action() for _ in range(r.choice([1, 1, 2, 3]))], self.sort()]
        if k == 'cursor_again':
            return ['cursor_again', r.randrange(8), self.cursor_action()]
        if k == 'foau':
            u, _ = self.c_update()
            return ['foau', self.c_filt(), u, self.maybe_projection(0.5), r.random() < 0.5,
                    r.random() < 0.3, self.sort()]
        if k == 'foar':
            return ['foar', self.c_filt(), self.c_replacement(), self.maybe_projection(0.5),
                    r.random() < 0.5, r.random() < 0.3]
        if k == 'foad':
            return ['foad', self.filt(), self.maybe_projection(0.5), self.sort()]
        if k == 'distinct':
            key = self.apath('cont') if r.random() < 0.8 else r.choice(['_id', 'a', 'a.x', 'b'])
            if r.random() < 0.5:
                key = '.'.join(c for c in key.split('.') if not c.isdigit()) or key
            return ['distinct', key, self.filt() if r.random() < 0.4 else {}]
        if k == 'aggregate':
            return ['aggregate', self.pipeline()]
        if k == 'create_index':
            return ['create_index', [[r.choice(['a', 'b', 'c.x']), 1]],
                    {'unique': True} if r.random() < 0.8 else {}]
        if k == 'edit_nested':
            return ['edit_nested', r.randrange(64)]
        raise ValueError(k)

    def history(self, n):
        # a few documents to start with, so that multi-document updates have something to share
        ds = []
        for i in self.r.sample(range(len(self.ids)), self.r.choice([2, 3, 3, 4])):
            d = self.c_doc()
            d.pop('_id', None)
            d = dict([('_id', copy.deepcopy(self.ids[i]))] + list(d.items()))
            if any(d['_id'] == e['_id'] and type(d['_id']) in (bool, int, float) for e in ds):
                continue
            ds.append(d)
        self.shadow.extend(copy.deepcopy(ds))
        return [['insert_many', ds, False]] + [self.op() for _ in range(n)]
