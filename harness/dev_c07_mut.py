"""mutation experiment: run the C07 checker against a mutated copy of mongomock"""
import os, shutil, subprocess, sys, json
MUT = '/tmp/agents/c07/repo_mut'
MUTS = {
 'R1-projection-reattaches-stored-id': ('collection.py', "doc_copy['_id'] = _copy_field(doc['_id'], container)", "doc_copy['_id'] = doc['_id']"),
 'R2-projection-operator-takes-stored-field': ('collection.py', "doc_copy[field] = _copy_field(doc[field], dict)", "doc_copy[field] = doc[field]"),
 'R3-insert-returns-stored-id': ('collection.py', "return _copy_field(data['_id'], dict)", "return data['_id']"),
 'R4-projection-dict-edited-in-place': ('collection.py', "            fields = dict(fields)\n", "            pass\n"),
 'M1-no-per-doc-copy': ('collection.py', "for k, v in copy.deepcopy(document).items():", "for k, v in document.items():"),
 'M2-copy_field-shallow-lists': ('collection.py', "        for item in obj:\n            new.append(_copy_field(item, container))\n        return new", "        return list(obj)"),
 'M3-insert-stores-callers-dict': ('collection.py', "        data = helpers.patch_datetime_awareness_in_document(data)\n\n        object_id = data['_id']", "        object_id = data['_id']"),
 'M4-internalize-shallow': ('collection.py', "return {k: copy.deepcopy(v) for k, v in d.items()}", "return dict(d)"),
 'M5-project-no-copy': ('collection.py', "            doc_copy[key] = _copy_field(val, container)", "            doc_copy[key] = val"),
 'M6-find-returns-stored': ('collection.py', "            return _copy_field(doc, container)\n\n        if not fields:", "            return doc\n\n        if not fields:"),
 'M7-rollback-shallow-snapshot': ('collection.py', "original_document_snapshot = copy.deepcopy(existing_document)", "original_document_snapshot = dict(existing_document)"),
 'M8-patch-keeps-lists': ('helpers.py', "        return [patch_datetime_awareness_in_document(item) for item in value]", "        return value"),
 'M9-rename-copies-instead-of-moving': ('collection.py', "existing_document[dst] = existing_document.pop(src)", "existing_document[dst] = existing_document[src]"),
 'M13-update-pops-setOnInsert-from-callers-doc': ('collection.py', "        spec = helpers.patch_datetime_awareness_in_document(spec)\n        document = helpers.patch_datetime_awareness_in_document(document)", "        spec = helpers.patch_datetime_awareness_in_document(spec)\n        if not upsert and isinstance(document, dict): document.pop('$setOnInsert', None)\n        document = helpers.patch_datetime_awareness_in_document(document)"),
 'M10-unwind-no-copy': ('aggregate.py', "            new_doc = copy.deepcopy(doc)\n            new_doc = helpers.set_value_by_dot(new_doc, path, field_item)", "            new_doc = dict(doc)\n            new_doc = helpers.set_value_by_dot(new_doc, path, field_item)"),
 'M11-delete-edits-filter': ('collection.py', "        filter = helpers.patch_datetime_awareness_in_document(filter)\n        if filter is None:", "        if isinstance(filter, dict): filter.setdefault('$comment', 'x')\n        filter = helpers.patch_datetime_awareness_in_document(filter)\n        if filter is None:"),
 'M12-push-each-by-reference': ('collection.py', "for k, v in copy.deepcopy(document).items():", "for k, v in ((kk, copy.deepcopy(vv) if kk != '$push' else vv) for kk, vv in document.items()):"),
}
def apply(name):
    if os.path.exists(MUT): shutil.rmtree(MUT)
    shutil.copytree('/repo', MUT, ignore=shutil.ignore_patterns('.git', '*.pyc', '__pycache__', 'tests'))
    f, old, new = MUTS[name]
    p = os.path.join(MUT, 'mongomock', f)
    s = open(p).read()
    assert s.count(old) == 1, (name, s.count(old))
    open(p, 'w').write(s.replace(old, new))
if __name__ == '__main__':
    if len(sys.argv) > 1 and sys.argv[1] == 'child':
        sys.path.insert(0, os.path.dirname(os.path.abspath(__file__)))
        import mongomock
        assert mongomock.__file__.startswith(MUT), mongomock.__file__
        import common, wire, random, collections
        import props.c07 as m
        ctx = common.Ctx('C07', 'quick', int(sys.argv[2]))
        rng = random.Random(ctx.seed * 1000003 + 707)
        judge = m.Judge(ctx); judge.load_table()
        n = int(sys.argv[3])
        done = 0
        while done < n and not ctx.too_many():
            runs = []
            for _ in range(100):
                h, oids, g = m.gen_history(rng)
                runs.append(m.HistoryRun(h, oids, judge.known).run())
            done += 100
            judge.batch(runs)
        kinds = collections.Counter(v[2]['kind'][:70] for v in ctx.violations)
        print(json.dumps({'violations': len(ctx.violations), 'kinds': dict(kinds), 'histories': done}))
        if ctx.violations:
            v = sorted(ctx.violations, key=lambda v: v[0])[0][2]
            print('  smallest:', json.dumps({k: v[k] for k in ('kind', 'step', 'operation', 'detail')}, default=repr)[:600])
    else:
        names = sys.argv[1:] or sorted(MUTS)
        for name in names:
            apply(name)
            env = dict(os.environ, PYTHONPATH=MUT)
            p = subprocess.run(['/venv/bin/python', __file__, 'child', '0', '300'], env=env, stdout=subprocess.PIPE, stderr=subprocess.STDOUT, cwd='/tmp')
            print(name, '->', p.stdout.decode()[-900:].strip())
        shutil.rmtree(MUT)
