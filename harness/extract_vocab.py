"""C20 translator 1: the operator vocabulary.

Two things are regenerated from the CURRENT code of /repo on every run:

* `extract_tables()` - the dispatch tables of the code itself, by introspection
  (`_Filterer()._operator_map`, `LOGICAL_OPERATOR_MAP`, `_TOP_LEVEL_OPERATORS`,
  `_NOT_IMPLEMENTED_OPERATORS`, `collection._updaters`, `aggregate._PIPELINE_HANDLERS`,
  `_GROUPING_OPERATOR_MAP`, `group_operators`, `TYPE_MAP`) and by reading the syntax tree of the
  dispatching functions (`_Parser.parse`: the ordered chain of `if k in <list>: return
  self._handle_X(k, v)` tests; every `_handle_X`: the names it has a branch for;
  `Collection._apply_update`: the in-line `elif k == '$op'` branches and the `$push` clause set;
  `_accumulate_group`: the in-line accumulators).
* `probe_vocab()` - the observed disposition of every name of the MongoDB 5.0 vocabulary
  (harness/data/mongodb50_vocab.json) plus near-miss and seeded random unknown `$names`, at every
  syntactic position that accepts an operator.

Dispositions: `implemented`, `raisesNotImplemented`, `raisesOther`, `ignored`.
  * every probing call of the (position, name) raised  ->  raisesNotImplemented if most of them
    raised NotImplementedError, else raisesOther;
  * some call returned and the name is NOT in the code's own table for that position
    -> `ignored` (accepted silently although nothing implements it);
  * some call returned, the name is in the table: `ignored` if every returning call gave exactly
    the result of the same call with the name removed (the probes use arguments on which an
    implementation has to change the result), else `implemented`.
"""
import ast
import collections
import contextlib
import copy
import datetime
import inspect
import json
import os
import random
import textwrap

import mongomock
from mongomock import aggregate as mm_aggregate
from mongomock import collection as mm_collection
from mongomock import filtering as mm_filtering

HERE = os.path.dirname(os.path.abspath(__file__))
VOCAB_JSON = os.path.join(HERE, 'data', 'mongodb50_vocab.json')

POSITIONS = ['queryField', 'queryFieldDeadEnd', 'queryTop', 'queryNot', 'queryElemMatch',
             'updateOp', 'updateNoMatch', 'pushModifier', 'addToSetModifier', 'stage',
             'exprProject', 'exprAddFields', 'exprMatchExpr', 'exprGroupId', 'accumulator',
             'typeAlias']
EXPR_POSITIONS = ['exprProject', 'exprAddFields', 'exprMatchExpr', 'exprGroupId']
# positions at which the code evaluates nothing, whatever the name (lazy validation): a name of the
# code's tables cannot be told from an ignored one there, it is classified by the tables
NO_EFFECT_POSITIONS = {'updateNoMatch'}
ANCHOR = {  # position -> the dispatching function its probes must reach
    'queryField': 'apply', 'queryFieldDeadEnd': 'apply', 'queryTop': 'apply', 'queryNot': 'apply',
    'queryElemMatch': 'apply', 'typeAlias': 'apply',
    'updateOp': 'update', 'updateNoMatch': 'update', 'pushModifier': 'update',
    'addToSetModifier': 'update', 'stage': 'pipeline',
    'exprProject': 'parse', 'exprAddFields': 'parse', 'exprMatchExpr': 'parse',
    'exprGroupId': 'parse', 'accumulator': 'group',
}
DISPOSITIONS = ['implemented', 'raisesNotImplemented', 'raisesOther', 'ignored', 'plainKey']


# ---------------------------------------------------------------------------------------------
# tables of the code
# ---------------------------------------------------------------------------------------------

def _src_tree(obj):
    return ast.parse(textwrap.dedent(inspect.getsource(obj)))


def _eval_in(node, module):
    code = compile(ast.Expression(body=node), '<c20>', 'eval')
    return eval(code, vars(module))  # pylint: disable=eval-used


def _names_of(value):
    """the string members of a list / set / dict (sets are sorted: their order is not stable)"""
    if isinstance(value, (set, frozenset)):
        return sorted(x for x in value if isinstance(x, str))
    return [x for x in value if isinstance(x, str)]


def _op_names(value):
    """value as a list of operator names, or None if it is not a collection of `$` strings"""
    if isinstance(value, str) or not isinstance(value, (list, tuple, set, frozenset, dict)):
        return None
    names = _names_of(value)
    if not names or len(names) != len(value) or not all(n.startswith('$') for n in names):
        return None
    return names


def _compared_names(tree, module, eq_only=False):
    """the operator names a function has a branch for: every comparison `<name> == '$x'` and
    (unless eq_only) `<name> in <collection of '$' strings>`, whatever the variable is called"""
    out = []
    for node in ast.walk(tree):
        if not (isinstance(node, ast.Compare) and isinstance(node.left, ast.Name)
                and len(node.ops) == 1):
            continue
        comp = node.comparators[0]
        names = []
        if isinstance(node.ops[0], ast.Eq) and isinstance(comp, ast.Constant) and \
                isinstance(comp.value, str) and comp.value.startswith('$') and len(comp.value) > 1:
            names = [comp.value]
        elif isinstance(node.ops[0], ast.In) and not eq_only:
            try:
                names = _op_names(_eval_in(comp, module)) or []
            except Exception:  # pylint: disable=broad-except
                names = []
        for n in names:
            if n not in out:
                out.append(n)
    return out


# the chain of `_Parser.parse` as it stood when this was written: used only if the syntax tree
# of `parse` no longer has the shape `if <name> in <list>: return self._handle_X(...)`
FALLBACK_CHAIN = [
    ('_handle_arithmetic_operator', 'arithmetic_operators'),
    ('_handle_project_operator', 'project_operators'),
    ('_handle_projection_operator', 'projection_operators'),
    ('_handle_comparison_operator', 'comparison_operators'),
    ('_handle_date_operator', 'date_operators'),
    ('_handle_array_operator', 'array_operators'),
    ('_handle_conditional_operator', 'conditional_operators'),
    ('_handle_control_flow_operator', 'control_flow_operators'),
    ('_handle_set_operator', 'set_operators'),
    ('_handle_string_operator', 'string_operators'),
    ('_handle_type_convertion_operator', 'type_convertion_operators'),
    ('_handle_type_operator', 'type_operators'),
    ('_handle_boolean_operator', 'boolean_operators'),
]


def _accepted_names(tree, module):
    """the operator names a validating loop lets through: the names tested (`== '$x'`,
    `in <collection of '$' strings>`) by every `if` whose body starts with `continue`"""
    out = []
    for node in ast.walk(tree):
        if isinstance(node, ast.If) and node.body and isinstance(node.body[0], ast.Continue):
            for n in _compared_names(node.test, module):
                if n not in out:
                    out.append(n)
    return out


def _expr_chain():
    """(chain, not_implemented, how): the `if <name> in <list>: return self._handle_X(..)` tests
    of `_Parser.parse`, in source order, and the list whose test raises NotImplementedError"""
    chain = []
    not_impl = []
    try:
        tree = _src_tree(mm_aggregate._Parser.parse)
        for loop in [n for n in ast.walk(tree) if isinstance(n, ast.For)]:
            for st in loop.body:
                if not (isinstance(st, ast.If) and isinstance(st.test, ast.Compare)
                        and isinstance(st.test.left, ast.Name) and len(st.test.ops) == 1
                        and isinstance(st.test.ops[0], ast.In)):
                    continue
                names = _op_names(_eval_in(st.test.comparators[0], mm_aggregate))
                if names is None:
                    continue
                first = st.body[0]
                if isinstance(first, ast.Return) and isinstance(first.value, ast.Call) and \
                        isinstance(first.value.func, ast.Attribute):
                    chain.append((first.value.func.attr, names))
                elif isinstance(first, ast.Raise):
                    not_impl.extend(n for n in names if n not in not_impl)
    except Exception:  # pylint: disable=broad-except
        chain = []
    if chain:
        return chain, not_impl, 'syntax tree of _Parser.parse'
    chain = [(h, _names_of(getattr(mm_aggregate, l))) for h, l in FALLBACK_CHAIN
             if hasattr(mm_aggregate, l)]
    not_impl = _names_of(getattr(mm_aggregate, 'text_search_operators', [])) + _names_of(
        getattr(mm_aggregate, 'projection_operators', [])) + _names_of(
            getattr(mm_aggregate, 'object_operators', []))
    return chain, not_impl, 'fallback: module-level lists in the recorded order'


def extract_tables():
    T = collections.OrderedDict()
    filterer = mm_filtering._Filterer()
    T['operatorMap'] = list(filterer._operator_map)
    T['logicalOps'] = list(mm_filtering.LOGICAL_OPERATOR_MAP)
    const = []
    for k, fn in mm_filtering.LOGICAL_OPERATOR_MAP.items():
        # a connective whose value is truthy whatever its sub-filters say takes no part in the match
        try:
            r1 = bool(fn({}, [{'x': 1}], lambda q, d: True))
            r0 = bool(fn({}, [{'x': 1}], lambda q, d: False))
        except Exception:  # pylint: disable=broad-except
            continue
        if r1 and r0:
            const.append(k)
    T['logicalConst'] = const
    T['topLevelNI'] = _names_of(mm_filtering._TOP_LEVEL_OPERATORS)
    T['fieldNI'] = _names_of(mm_filtering._NOT_IMPLEMENTED_OPERATORS)
    T['updaters'] = list(mm_collection._updaters)
    upd = _src_tree(mm_collection.Collection._apply_update)
    T['updateInline'] = _compared_names(upd, mm_collection, eq_only=True)
    # the pre-check of the operators of an update (run before any document is looked for): the
    # names it has a branch for, i.e. lets through (`k in _updaters or k in _OTHER_UPDATE_OPERATORS`)
    check = getattr(mm_collection, '_validate_update_operators', None)
    T['updateChecked'] = _compared_names(_src_tree(check), mm_collection) if check else []
    clause_sets = []
    for node in ast.walk(upd):
        if isinstance(node, ast.Set) and node.elts and all(
                isinstance(e, ast.Constant) and isinstance(e.value, str)
                and e.value.startswith('$') for e in node.elts):
            clause_sets.append([e.value for e in node.elts])
    T['pushModifiers'] = clause_sets[0] if clause_sets else []
    T['stagesImpl'] = [k for k, v in mm_aggregate._PIPELINE_HANDLERS.items() if v]
    T['stagesNone'] = [k for k, v in mm_aggregate._PIPELINE_HANDLERS.items() if not v]
    chain, not_impl, how = _expr_chain()
    T['exprChainHow'] = how
    T['exprChain'] = []
    for handler, names in chain:
        fn = getattr(mm_aggregate._Parser, handler, None)
        branches = _compared_names(_src_tree(fn), mm_aggregate) if fn else []
        T['exprChain'].append({'handler': handler, 'names': names,
                               'branches': [n for n in branches if n in names]})
    T['exprNI'] = not_impl
    T['groupingMap'] = list(mm_aggregate._GROUPING_OPERATOR_MAP)
    # `operator in group_operators` is the "valid but not implemented" test, not a branch
    T['groupInline'] = _compared_names(_src_tree(mm_aggregate._accumulate_group),
                                       mm_aggregate, eq_only=True)
    T['groupOperators'] = list(mm_aggregate.group_operators)
    # the pre-check of the accumulators of $group / $bucket (run before any document is read): the
    # names it lets through; everything else raises NotImplementedError there
    check = getattr(mm_aggregate, '_validate_accumulators', None)
    T['groupChecked'] = _accepted_names(_src_tree(check), mm_aggregate) if check else []
    T['typeImpl'] = [k for k, v in mm_filtering.TYPE_MAP.items() if v]
    T['typeNone'] = [k for k, v in mm_filtering.TYPE_MAP.items() if not v]
    T['decimalSupport'] = bool(mm_aggregate.decimal_support)
    return T


NEEDS_DECIMAL = ['$toInt', '$toLong', '$toDecimal']


def expr_hit(T, name):
    for h in T['exprChain']:
        if name in h['names']:
            return name in h['branches']
    return None


def in_table(T, pos, name):
    """is `name` one the code itself claims to implement at this position? (the reference)"""
    om = name in T['operatorMap'] or name == '$not'
    top = name in ('$comment', '$expr') or name in T['logicalOps']
    if pos in ('queryField', 'queryFieldDeadEnd'):
        return om
    if pos == 'queryTop':
        return top
    if pos == 'queryNot':
        return name in T['operatorMap'] or name == '$not'
    if pos == 'queryElemMatch':
        return om or top
    if pos in ('updateOp', 'updateNoMatch'):
        return name in T['updaters'] or name in T['updateInline']
    if pos == 'pushModifier':
        return name in T['pushModifiers']
    if pos == 'addToSetModifier':
        return name == '$each'
    if pos == 'stage':
        return name in T['stagesImpl']
    if pos in EXPR_POSITIONS:
        return bool(expr_hit(T, name))
    if pos == 'accumulator':
        return name in T['groupingMap'] or name in T['groupInline']
    if pos == 'typeAlias':
        return name in T['typeImpl']
    raise KeyError(pos)


# ---------------------------------------------------------------------------------------------
# vocabulary
# ---------------------------------------------------------------------------------------------

def load_vocab():
    return json.load(open(VOCAB_JSON))


def vocab_names(V):
    """all $-names of the vocabulary, with the kinds they belong to"""
    kinds = collections.OrderedDict()

    def add(names, kind):
        for n in names:
            kinds.setdefault(n, [])
            if kind not in kinds[n]:
                kinds[n].append(kind)
    for cat, names in V['query'].items():
        add(names, 'query')
    for cat, names in V['update'].items():
        add(names, 'push' if cat == 'modifiers' else 'update')
    add(V['stages'], 'stage')
    for cat, names in V['expressions'].items():
        add(names, 'expr')
    add(V['accumulators'], 'acc')
    add(V['near_miss'], 'nearmiss')
    return kinds


def random_names(seed, taken, n=6):
    rng = random.Random(seed * 7919 + 2020)
    out = []
    while len(out) < n:
        k = rng.randint(2, 9)
        s = '$' + ''.join(rng.choice('abcdefghijklmnopqrstuvwxyzABCDEFGHIJKLMNOPQRSTUVWXYZ_')
                          for _ in range(k))
        if s not in taken and s not in out:
            out.append(s)
    return out


# ---------------------------------------------------------------------------------------------
# probes
# ---------------------------------------------------------------------------------------------

def make_docs():
    D = datetime.datetime
    return [
        {'_id': 1, 'a': 1, 'b': 'x', 's': 'abc', 's2': 'q', 'arr': [1, 2, 3], 'arr2': [3, 4],
         'sub': {'k': 1}, 'subs': [{'k': 1}, {'k': 2}], 'd': D(2020, 1, 2, 3, 4, 5, 678000),
         'n': None, 'f': -2.5, 't': True, 'kv': [{'k': 'x', 'v': 1}], 'loc': [0, 0], 'one': [3]},
        {'_id': 2, 'a': 2, 'b': 'y', 's': 'ABC', 's2': 'r', 'arr': [3, 4], 'arr2': [3, 4, 5],
         'sub': {'k': 2}, 'subs': [{'k': 3}], 'd': D(2021, 6, 7, 8, 9, 10), 'n': None, 'f': 1.5,
         't': False, 'kv': [{'k': 'y', 'v': 2}], 'loc': [10, 10], 'one': [4]},
        {'_id': 3, 'a': 3, 's': 'b', 's2': '', 'arr': [], 'arr2': [7], 'sub': {'k': 3, 'j': 1},
         'subs': [], 'd': D(2019, 12, 31, 23, 59, 59), 'f': 0.25, 't': True, 'kv': [],
         'loc': [20, 20], 'one': []},
    ]


def make_typed_docs():
    return [
        {'_id': 1, 'a': 1, 'f': 1.5, 's': 'x', 'sub': {'k': 1}, 'arr': [1], 't': True, 'n': None,
         'd': datetime.datetime(2020, 1, 1), 'big': 2 ** 40, 'oid': mongomock.ObjectId(),
         'bin': b'x'},
        {'_id': 2, 'a': 'one', 'f': 2, 's': 3.5, 'sub': [1], 'arr': {'k': 1}, 't': 1, 'n': 0,
         'd': 'x', 'big': 7, 'oid': 'x', 'bin': 'y'},
    ]


TYPED_FIELDS = ['a', 'f', 's', 'sub', 'arr', 't', 'n', 'd', 'big', 'oid', 'bin']


def fresh_db(docs=None):
    db = mongomock.MongoClient().db
    db.c.insert_many(copy.deepcopy(docs if docs is not None else make_docs()))
    db.other.insert_many([{'_id': 10, 'a': 1, 'w': 'p'}, {'_id': 11, 'a': 2, 'w': 'q'}])
    return db


_NOW_SLACK = datetime.timedelta(days=2)


def canon(v):
    if isinstance(v, dict):
        return {'d': [[k, canon(x)] for k, x in v.items()]}
    if isinstance(v, (list, tuple)):
        return [canon(x) for x in v]
    if isinstance(v, datetime.datetime):
        now = datetime.datetime.now(datetime.timezone.utc).replace(tzinfo=None)
        if abs(v.replace(tzinfo=None) - now) < _NOW_SLACK:
            return '<now>'
        return 'dt:' + v.isoformat()
    if isinstance(v, (int, float, str, bool)) or v is None:
        return v
    if isinstance(v, bytes):
        return 'bytes:' + v.hex()
    return '<%s>' % type(v).__name__


def freeze(v):
    return json.dumps(canon(v), sort_keys=True, default=repr)


def snapshot(db):
    out = {}
    for name in sorted(db.list_collection_names()):
        out[name] = list(db[name].find({}))
    return out


class Call(object):
    """one probing call: a runnable thunk, its python rendering, and the calls that play the
    role of 'the same call with the name removed'"""

    def __init__(self, code, thunk, baselines):
        self.code = code
        self.thunk = thunk
        self.baselines = baselines   # list of thunks
        self.flt = None              # query positions: the filter, and the database it goes to
        self.db = None


def _ids(cursor):
    return [d['_id'] for d in cursor]


class Prober(object):
    def __init__(self, T, V):
        self.T = T
        self.V = V
        self.rdb = fresh_db()
        self.tdb = mongomock.MongoClient().db
        self.tdb.c.insert_many(make_typed_docs())
        self.edb = mongomock.MongoClient().db      # empty collection: the filter is validated
        self.edb.create_collection('c')            # against {} (collection._iter_documents)
        self._base_cache = {}
        self.counts = collections.Counter()

    # ---- argument shapes ----
    def args_for(self, group, pos, name, generic_in, generic_out):
        spec = self.V['args'].get(pos, {}).get(name)
        if spec is None:
            spec = self.V['args'].get(group, {}).get(name)
        if spec is not None:
            return spec
        return generic_in if in_table(self.T, pos, name) else generic_out

    # ---- the calls of one (position, name) ----
    def calls(self, pos, name):
        return getattr(self, '_' + pos)(name)

    def _find_call(self, flt, bases, db='rdb'):
        code = 'db.c.find(%r)' % (flt,)
        tag = {'tdb': '  # typed documents', 'edb': '  # empty collection'}.get(db, '')
        code += tag
        call = Call(code, lambda: _ids(getattr(self, db).c.find(copy.deepcopy(flt))),
                    [('db.c.find(%r)%s' % (b, tag), (lambda b=b: _ids(getattr(self, db).c.find(
                        copy.deepcopy(b))))) for b in bases])
        call.flt, call.db = flt, db     # the filter itself: probed again by c20_states.py
        return call

    def _queryField(self, name):
        inn = in_table(self.T, 'queryField', name)
        paths = ['a', 'zz', 'arr', 'b', 's', 'subs'] if inn else ['a', 'zz']
        args = self.args_for('query', 'queryField', name,
                             [1, 2, 0, 'x', [1, 2], [3], 'abc'], [1, [1, 2]])
        out = [self._find_call({p: {name: a}}, [{}, {p: {}}]) for p in paths for a in args]
        if not inn:
            out += [self._find_call({'a': {name: a}}, [{}], db='edb') for a in args]
        return out

    def _queryFieldDeadEnd(self, name):
        args = self.args_for('query', 'queryFieldDeadEnd', name, [1, 2, 0, 'x', [1, 2]], [1, [1]])
        # paths that reach NO value in any document: a field name over an array of scalars, an
        # index past the end of an array (a path that runs into a scalar reaches the
        # missing-field candidate since the C01 `deadend` repair, hence is validated)
        # (the name removed: the filter without the condition — `{p: {}}` is an equality with
        # the empty sub-document, which nothing meets on such a path)
        # `$ne` / `$nin` are also given null operands (data file, args.queryFieldDeadEnd): a
        # missing field equals null, so a matcher that looks at the operand selects nothing then
        return [self._find_call({p: {name: a}}, [{}])
                for p in ['loc.q', 'loc.9'] for a in args]

    def _queryTop(self, name):
        args = self.args_for('query', 'queryTop', name, [[{'a': 1}], [{'a': {'$gt': 1}}]],
                             [1, [{'a': 1}], {'a': 1}])
        out = [self._find_call({name: a}, [{}]) for a in args]
        if not in_table(self.T, 'queryTop', name):
            out += [self._find_call({name: a}, [{}], db='edb') for a in args]
        return out

    def _queryNot(self, name):
        inn = in_table(self.T, 'queryNot', name)
        paths = ['a', 'zz', 'arr', 'b', 's', 'subs'] if inn else ['a', 'zz']
        args = self.args_for('query', 'queryNot', name,
                             [1, 2, 0, 'x', [1, 2], [3], 'abc'], [1, [1, 2]])
        out = [self._find_call({p: {'$not': {name: a}}}, [{}, {p: {'$not': {}}}])
               for p in paths for a in args]
        if not inn:
            out += [self._find_call({'a': {'$not': {name: a}}}, [{}], db='edb') for a in args]
        return out

    def _queryElemMatch(self, name):
        args = self.args_for('query', 'queryElemMatch', name,
                             [1, 2, 3, 'x', [1, 2], [3]], [1, [{'k': 1}]])
        return [self._find_call({p: {'$elemMatch': {name: a}}}, [{}, {p: {'$elemMatch': {}}}])
                for p in ['arr', 'subs', 'one'] for a in args]

    def _typeAlias(self, name):
        value = int(name) if name.lstrip('-').isdigit() else name
        return [self._find_call({f: {'$type': value}}, [{}, {f: {}}], db='tdb')
                for f in TYPED_FIELDS]

    # updates: fresh collection per call, the result is the whole database afterwards
    def _update_call(self, method, flt, upd, base_upds, upsert=False):
        kw = ', upsert=True' if upsert else ''
        code = 'db.c.%s(%r, %r%s)' % (method, flt, upd, kw)

        def run(u):
            db = fresh_db()
            r = getattr(db.c, method)(copy.deepcopy(flt), copy.deepcopy(u), upsert=upsert)
            return [snapshot(db), r.matched_count, r.modified_count, r.upserted_id is not None]
        return Call(code, lambda: run(upd),
                    [('db.c.%s(%r, %r%s)' % (method, flt, b, kw), (lambda b=b: run(b)))
                     for b in base_upds])

    def _update_forms(self, name, arg):
        return [({name: arg}, [{'$set': {}}]),
                ({'$set': {'m': 1}, name: arg}, [{'$set': {'m': 1}}]),
                ({name: arg, '$set': {'m': 1}}, [{'$set': {'m': 1}}])]

    def _updateOp(self, name):
        args = self.args_for('update', 'updateOp', name, [{'a': 5}, {'arr': 1}, {'zz': 'q'}],
                             [{'a': 5}, {'zz': 1}])
        out = []
        for a in args:
            for upd, bases in self._update_forms(name, a):
                upd = dict(upd)
                out.append(self._update_call('update_one', {'_id': 1}, upd, bases))
                out.append(self._update_call('update_many', {}, upd, bases))
            out.append(self._update_call('update_one', {'_id': 99}, {name: a}, [{'$set': {}}],
                                         upsert=True))
        return out

    def _updateNoMatch(self, name):
        args = self.args_for('update', 'updateNoMatch', name, [{'a': 5}, {'zz': 'q'}],
                             [{'a': 5}, {'zz': 1}])
        out = []
        for a in args:
            for upd, bases in self._update_forms(name, a)[:2]:
                upd = dict(upd)
                out.append(self._update_call('update_one', {'_id': 42}, upd, bases))
                out.append(self._update_call('update_many', {'a': 99}, upd, bases))
        return out

    def _modifier(self, op, pos, name):
        args = self.args_for('push', pos, name, [1, -1, 0, 2], [1, [1]])
        out = []
        for a in args:
            if name == '$each':
                clause, base = {'$each': a}, {}
            else:
                clause = {'$each': [9, 0], name: a}
                base = {'$each': [9, 0]}
            out.append(self._update_call('update_one', {'_id': 1}, {op: {'arr': dict(clause)}},
                                         [{op: {'arr': base}}]))
        return out

    def _pushModifier(self, name):
        return self._modifier('$push', 'pushModifier', name)

    def _addToSetModifier(self, name):
        return self._modifier('$addToSet', 'addToSetModifier', name)

    # aggregation
    def _agg_call(self, pipeline, bases, fresh=False):
        code = 'db.c.aggregate(%r)' % (pipeline,)

        def run(p):
            if fresh:
                db = fresh_db()
                out = list(db.c.aggregate(copy.deepcopy(p)))
                snap = snapshot(db)
                del snap['c']
                return [out, snap]
            return list(self.rdb.c.aggregate(copy.deepcopy(p)))
        tag = '  # fresh database' if fresh else ''
        return Call(code, lambda: run(pipeline),
                    [('db.c.aggregate(%r)%s' % (b, tag), (lambda b=b: run(b))) for b in bases])

    def _stage(self, name):
        args = self.args_for('stage', 'stage', name, [1, {'a': 1}, 'n', '$arr'], [1, {'a': 1}])
        out = []
        for a in args:
            out.append(self._agg_call([{name: a}], [[]], fresh=True))
            out.append(self._agg_call([{'$match': {'a': {'$gt': 0}}}, {name: a}],
                                      [[{'$match': {'a': {'$gt': 0}}}]], fresh=True))
        return out

    def _expr_args(self, pos, name):
        return self.args_for('expr', pos, name,
                             ['$a', ['$a', 1], ['$a', '$f'], '$arr', '$s', '$d', ['$arr', '$arr2']],
                             ['$a', ['$a', 1]])

    def _exprProject(self, name):
        return [self._agg_call([{'$project': {'_id': 1, 'x': {name: a}}}],
                               [[{'$project': {'_id': 1}}], [{'$project': {'_id': 1, 'x': {}}}]])
                for a in self._expr_args('exprProject', name)]

    def _exprAddFields(self, name):
        return [self._agg_call([{'$addFields': {'x': {name: a}}}],
                               [[], [{'$addFields': {'x': {}}}]])
                for a in self._expr_args('exprAddFields', name)]

    def _exprMatchExpr(self, name):
        # `$expr` only shows the truthiness of the value; the nested forms compare the value with
        # constants of several BSON types so that more of it becomes visible (the empty document
        # separates the documents an operator builds: every document is truthy under `$expr`)
        proj = {'$project': {'_id': 1}}
        out = []
        for a in self._expr_args('exprMatchExpr', name):
            forms = [lambda x: x]
            if in_table(self.T, 'exprMatchExpr', name):
                forms += [(lambda x, c=c: {'$gt': [x, c]}) for c in (1, 'b', [0], True, datetime.datetime(2020, 2, 15), {})]
            for form in forms:
                out.append(self._agg_call([{'$match': {'$expr': form({name: a})}}, proj],
                                          [[{'$match': {}}, proj],
                                           [{'$match': {'$expr': form({})}}, proj]]))
        return out

    def _exprGroupId(self, name):
        return [self._agg_call([{'$group': {'_id': {name: a}}}, {'$sort': {'_id': 1}}],
                               [[{'$group': {'_id': None}}, {'$sort': {'_id': 1}}],
                                [{'$group': {'_id': {}}}, {'$sort': {'_id': 1}}]])
                for a in self._expr_args('exprGroupId', name)]

    def _accumulator(self, name):
        args = self.args_for('acc', 'accumulator', name, ['$a', 1, '$arr'], ['$a', 1])
        out = []
        for a in args:
            out.append(self._agg_call([{'$group': {'_id': None, 'x': {name: a}}}],
                                      [[{'$group': {'_id': None}}],
                                       [{'$group': {'_id': None, 'x': {}}}]]))
            out.append(self._agg_call([{'$group': {'_id': '$t', 'x': {name: a}}},
                                       {'$sort': {'_id': 1}}],
                                      [[{'$group': {'_id': '$t'}}, {'$sort': {'_id': 1}}]]))
        return out

    # ---- running ----
    def baseline(self, code, thunk):
        if code not in self._base_cache:
            try:
                self._base_cache[code] = freeze(thunk())
            except Exception:  # pylint: disable=broad-except
                self._base_cache[code] = None
        return self._base_cache[code]

    def run_call(self, call):
        """-> ('ok', frozen result, equals_baseline) | ('raise', class name, None)"""
        self.counts['calls'] += 1
        try:
            res = freeze(call.thunk())
        except NotImplementedError:
            return ('raise', 'NotImplementedError', None)
        except Exception as e:  # pylint: disable=broad-except
            return ('raise', type(e).__name__, None)
        bases = [self.baseline(c, t) for c, t in call.baselines]
        return ('ok', res, tuple(b is not None and res == b for b in bases))


@contextlib.contextmanager
def reach_counters():
    """count the calls of the dispatching functions (monkeypatched from outside, restored)"""
    counts = collections.Counter()
    saved = []

    def wrap(owner, attr, key):
        orig = getattr(owner, attr)

        def wrapper(*a, **kw):
            counts[key] += 1
            return orig(*a, **kw)
        saved.append((owner, attr, orig))
        setattr(owner, attr, wrapper)
    wrap(mm_filtering._Filterer, 'apply', 'apply')
    wrap(mm_aggregate._Parser, 'parse', 'parse')
    wrap(mm_aggregate, 'process_pipeline', 'pipeline')
    wrap(mm_aggregate, '_accumulate_group', 'group')
    if hasattr(mm_aggregate, '_validate_accumulators'):   # the pre-check of the same names
        wrap(mm_aggregate, '_validate_accumulators', 'group')
    wrap(mm_collection.Collection, '_apply_update', 'update')
    try:
        yield counts
    finally:
        for owner, attr, orig in reversed(saved):
            setattr(owner, attr, orig)


def classify(outcomes, inn, noop_ok, no_effect):
    oks = [o for o in outcomes if o[0] == 'ok']
    if not oks:
        nie = sum(1 for o in outcomes if o[1] == 'NotImplementedError')
        return 'raisesNotImplemented' if 2 * nie >= len(outcomes) else 'raisesOther'
    if not inn:
        return 'ignored'
    if noop_ok or no_effect:
        return 'implemented'
    # ignored: every returning call gave what ONE and the same way of removing the name gives
    nb = min(len(o[2]) for o in oks)
    if any(all(o[2][j] for o in oks) for j in range(nb)):
        return 'ignored'
    return 'implemented'


def probe_entry(prober, counters, pos, name):
    T, V = prober.T, prober.V
    before = counters[ANCHOR[pos]]
    calls = prober.calls(pos, name)
    outcomes = [prober.run_call(c) for c in calls]
    inn = in_table(T, pos, name)
    noop_ok = name in V.get('noop_by_design', {}).get(pos, [])
    disp = classify(outcomes, inn, noop_ok, pos in NO_EFFECT_POSITIONS)
    if disp == 'implemented' and not name.startswith('$') and pos != 'typeAlias':
        disp = 'plainKey'
    errors = collections.Counter(o[1] for o in outcomes if o[0] == 'raise')
    witness = None
    if disp == 'ignored':
        for c, o in zip(calls, outcomes):
            if o[0] == 'ok' and (any(o[2]) or not inn):
                witness = c
                break
    else:
        witness = calls[0] if calls else None
    return {
        'pos': pos, 'name': name, 'disp': disp, 'in_table': inn,
        'calls': len(calls), 'returned': sum(1 for o in outcomes if o[0] == 'ok'),
        'errors': dict(errors), 'reached': counters[ANCHOR[pos]] > before,
        'probe': witness.code if witness else None,
        'baseline': [c for c, _ in witness.baselines] if witness else [],
        # query positions: the first probing filter given to the populated collection
        'filter': next((c.flt for c in calls if c.flt is not None and c.db != 'edb'), None),
    }


def probe_vocab(seed=0, T=None, V=None, positions=None, names=None):
    """-> (tables, entries, meta)"""
    T = T or extract_tables()
    V = V or load_vocab()
    kinds = vocab_names(V)
    taken = set(kinds)
    for key in ('operatorMap', 'logicalOps', 'topLevelNI', 'fieldNI', 'updaters', 'updateInline',
                'updateChecked',
                'pushModifiers', 'stagesImpl', 'stagesNone', 'exprNI', 'groupingMap',
                'groupInline', 'groupOperators', 'groupChecked'):
        for n in T[key]:
            if n not in kinds:
                kinds[n] = ['code-table']
    for h in T['exprChain']:
        for n in h['names']:
            if n not in kinds:
                kinds[n] = ['code-table']
    taken = set(kinds)
    rnd = random_names(seed, taken)
    for n in rnd:
        kinds[n] = ['random']
    aliases = list(V['type_aliases']) + [str(c) for c in V['type_codes']]
    for n in T['typeImpl'] + T['typeNone']:
        if n not in aliases:
            aliases.append(n)
    aliases += ['Double', 'integer', 'str', 'float', 'dict']
    dollar = sorted(kinds) if names is None else [n for n in names if n in kinds or True]
    prober = Prober(T, V)
    entries = []
    with reach_counters() as counters:
        for name in dollar:
            for pos in (positions or POSITIONS):
                entries.append(probe_entry(prober, counters, pos, name))
        if names is None and (positions is None or 'typeAlias' in positions):
            for name in sorted(set(aliases)):
                entries.append(probe_entry(prober, counters, 'typeAlias', name))
    meta = {'kinds': kinds, 'random_names': rnd, 'calls': prober.counts['calls'],
            'aliases': sorted(set(aliases))}
    return T, entries, meta


def probe_one(pos, name, seed=0):
    """re-run the probes of one (position, name) on the current code (replays, findings)"""
    T = extract_tables()
    V = load_vocab()
    prober = Prober(T, V)
    with reach_counters() as counters:
        return probe_entry(prober, counters, pos, name)


if __name__ == '__main__':
    import sys
    import time
    t0 = time.time()
    T, entries, meta = probe_vocab(int(os.environ.get('VERIF_SEED') or 0))
    print(json.dumps(T, indent=1)[:6000])
    hist = collections.Counter((e['pos'], e['disp']) for e in entries)
    for k in sorted(hist):
        print(k, hist[k])
    print(len(entries), 'entries', meta['calls'], 'calls', round(time.time() - t0, 1), 's')
    if len(sys.argv) > 1:
        for e in entries:
            if e['disp'] == sys.argv[1]:
                print(e)
