"""C20: write lean/Generated/{Tables,Vocab,Options}.lean from the translators' output.

Everything is emitted in a deterministic order (sorted names, positions in declaration order) so
that an unchanged /repo regenerates byte-identical files (no rebuild)."""
import os

import extract_options
import extract_vocab

HEADER = '''/-
  GENERATED on every `./check C20` run by harness/%s from the working tree of /repo.
  Do not edit.  %s
-/
'''

NAMECLASS_FIELDS = ['op', 'comment', 'expr', 'not_', 'all', 'exists_', 'neNin', 'each',
                    'needsDecimal', 'operatorMap', 'logical', 'logicalConst', 'topNI', 'fieldNI',
                    'updater', 'updateInline', 'updateChecked', 'pushMod', 'stageImpl', 'exprHit', 'exprNI',
                    'grouping', 'groupInline', 'groupChecked', 'typeImpl', 'typeNone']


def code_of(name):
    return int.from_bytes(name.encode('utf-8'), 'little')


def lstr(s):
    out = []
    for ch in s:
        if ch == '"':
            out.append('\\"')
        elif ch == '\\':
            out.append('\\\\')
        elif ord(ch) < 32 or ord(ch) > 126:
            out.append('\\u{%x}' % ord(ch))
        else:
            out.append(ch)
    return '"' + ''.join(out) + '"'


def comment_safe(s):
    return s.replace('-/', '- /').replace('/-', '/ -')


def str_list(names):
    return '[' + ', '.join(lstr(n) for n in names) + ']'


def code_list(names):
    return '[' + ', '.join('%d' % code_of(n) for n in names) + ']'


def write_if_changed(path, text):
    os.makedirs(os.path.dirname(path), exist_ok=True)
    if os.path.exists(path) and open(path).read() == text:
        return False
    tmp = path + '.tmp%d' % os.getpid()
    with open(tmp, 'w') as fh:
        fh.write(text)
    os.replace(tmp, path)      # atomic: another check may be building mmdriver right now
    return True


LIST_FIELDS = ['operatorMap', 'logicalOps', 'logicalConst', 'topLevelNI', 'fieldNI', 'updaters',
               'updateInline', 'updateChecked', 'pushModifiers', 'stagesImpl', 'stagesNone', None, 'exprNI',
               'groupingMap', 'groupInline', 'groupOperators', 'groupChecked', 'typeImpl',
               'typeNone']


def _tables_value(T, render):
    lines = []
    for f in LIST_FIELDS:
        if f is None:
            chain = ',\n      '.join('(%s, %s)' % (render(h['names']), render(h['branches']))
                                     for h in T['exprChain'])
            lines.append('    exprChain := [\n      %s]' % chain)
        else:
            lines.append('    %s := %s' % (f, render(T[f])))
    lines.append('    decimalSupport := %s' % ('true' if T['decimalSupport'] else 'false'))
    return '  { ' + ',\n'.join(lines).lstrip() + ' }'


def emit_tables(T):
    out = [HEADER % ('extract_vocab.py (extract_tables)',
                     'The dispatch tables of the code itself, as strings and as codes.')]
    out.append('import MongoModel.Vocab\n')
    out.append('namespace Generated\nopen MongoModel.Vocab\n')
    out.append('/-- handlers of `_Parser.parse`, in the order of the chain: %s -/' % comment_safe(
        ', '.join(h['handler'] for h in T['exprChain'])))
    out.append('def tablesS : Tables String :=\n' + _tables_value(T, str_list) + '\n')
    out.append('/-- the same tables with every name replaced by its code (`Tables.map enc`; checked '
               'by `Proofs.C20.tables_encoded`) -/')
    out.append('def tables : Tables Code :=\n' + _tables_value(T, code_list) + '\n')
    out.append('end Generated\n')
    return '\n'.join(out)


def name_class(T, name):
    """the Python twin of MongoModel.Vocab.classify (only used to precompute `Row.cls`; the Lean
    side re-checks `classify tables code = cls` for every row)"""
    hit = extract_vocab.expr_hit(T, name)
    return {
        'op': name.startswith('$'), 'comment': name == '$comment', 'expr': name == '$expr',
        'not_': name == '$not', 'all': name == '$all', 'exists_': name == '$exists',
        'neNin': name in ('$ne', '$nin'), 'each': name == '$each',
        'needsDecimal': name in ('$toInt', '$toLong', '$toDecimal'),
        'operatorMap': name in T['operatorMap'], 'logical': name in T['logicalOps'],
        'logicalConst': name in T['logicalConst'], 'topNI': name in T['topLevelNI'],
        'fieldNI': name in T['fieldNI'], 'updater': name in T['updaters'],
        'updateInline': name in T['updateInline'],
        'updateChecked': name in T['updateChecked'], 'pushMod': name in T['pushModifiers'],
        'stageImpl': name in T['stagesImpl'], 'exprHit': hit, 'exprNI': name in T['exprNI'],
        'grouping': name in T['groupingMap'], 'groupInline': name in T['groupInline'],
        'groupChecked': name in T['groupChecked'],
        'typeImpl': name in T['typeImpl'], 'typeNone': name in T['typeNone'],
    }


def _lean_bool(b):
    return 'true' if b else 'false'


def _class_text(c):
    parts = []
    for f in NAMECLASS_FIELDS:
        v = c[f]
        if f == 'exprHit':
            t = 'none' if v is None else 'some %s' % _lean_bool(v)
        else:
            t = _lean_bool(v)
        parts.append('%s := %s' % (f, t))
    return '{ ' + ', '.join(parts) + ' }'


CHUNK = 40


def emit_vocab(T, entries, known_pairs):
    """entries: the output of extract_vocab.probe_vocab.  (No position is excused as a whole any
    more: the three positions that validated nothing are repaired - 6c55e75, 1244abc, 6c1d985 -
    and the list knownIgnoredPositions is gone from the theorems.)"""
    by_name = {}
    for e in entries:
        by_name.setdefault(e['name'], {})[e['pos']] = e['disp']
    names = sorted(by_name, key=lambda n: (code_of(n), n))
    classes = {}
    vectors = {}
    rows = []
    for n in names:
        ct = _class_text(name_class(T, n))
        if ct not in classes:
            classes[ct] = 'cls_%d' % len(classes)
        vec = '[' + ', '.join('(.%s, .%s)' % (p, by_name[n][p]) for p in extract_vocab.POSITIONS
                              if p in by_name[n]) + ']'
        if vec not in vectors:
            vectors[vec] = 'dv_%d' % len(vectors)
        rows.append('  ⟨%s, %d, %s, %s⟩' % (lstr(n), code_of(n), classes[ct], vectors[vec]))
    out = [HEADER % ('extract_vocab.py (probe_vocab)',
                     'The OBSERVED disposition of every vocabulary name at every position: one '
                     '`Row` per name (string, code, classification against Generated.tables, '
                     'observed dispositions).')]
    out.append('import MongoModel.Vocab\n')
    out.append('namespace Generated\nopen MongoModel.Vocab\n')
    out.append('/-! distinct classifications -/')
    for ct, nm in classes.items():
        out.append('def %s : NameClass :=\n  %s' % (nm, ct))
    out.append('\n/-! distinct vectors of observed dispositions -/')
    for vec, nm in vectors.items():
        out.append('def %s : List (Position × Disposition) :=\n  %s' % (nm, vec))
    out.append('')
    nchunks = 0
    for i in range(0, len(rows), CHUNK):
        out.append('def rows_%d : List Row := [\n%s]' % (nchunks, ',\n'.join(rows[i:i + CHUNK])))
        nchunks += 1
    out.append('\ndef rowChunks : List (List Row) := [%s]' % ', '.join(
        'rows_%d' % i for i in range(nchunks)))
    out.append('\n/-- all rows (%d names) -/\ndef rows : List Row := rowChunks.flatten' % len(rows))
    out.append('\n/-- the probed table: one entry per (position, name), %d entries -/' % len(entries))
    out.append('def vocab : List Entry := entriesOf rows')
    out.append('\n/-- known findings (known_findings.json): single (position, name) pairs: %s -/'
               % comment_safe(', '.join('%s %s' % (p, n) for p, n in known_pairs)))
    out.append('def knownIgnoredPairs : List (Position × Code) := [%s]' % ', '.join(
        '(.%s, %d)' % (p, code_of(n)) for p, n in known_pairs))
    out.append('\nend Generated\n')
    return '\n'.join(out)


OPT_LEAN = {'session': 'session', 'collation': 'collation', 'array_filters': 'arrayFilters',
            'let': 'let_', 'hint': 'hint'}


def emit_options(entries, known_silent, pairs=()):
    """entries: extract_options.probe_options(); known_silent: list of (cls, method, option).
    (There is no list of opt-outs that do not work any more: the library honours every
    ignore_feature since 4a36577, and Props.C20.opt_out_is_honoured says so without exception.)"""
    probed = [e for e in entries if e['disp'] != 'unprobed']
    methods = []
    for e in probed:
        k = (e['cls'], e['method'])
        if k not in methods:
            methods.append(k)
    methods.sort()
    mid = {k: i for i, k in enumerate(methods)}
    out = [HEADER % ('extract_options.py',
                     'The option matrix: what each public method did with each option it accepts, '
                     'with the feature opted out (ignore_feature) and not.')]
    out.append('import MongoModel.Vocab\n')
    out.append('namespace Generated\nopen MongoModel.Vocab\n')
    out.append('/-- the probed methods; `OptEntry.mid` is an index into this list -/')
    out.append('def methods : List (String × String) := [\n%s]\n' % ',\n'.join(
        '  (%s, %s)' % (lstr(c), lstr(m)) for c, m in methods))
    lines = []
    for e in sorted(probed, key=lambda e: (mid[(e['cls'], e['method'])],
                                           extract_options.OPTIONS.index(e['option']),
                                           e['optedOut'])):
        lines.append('  ⟨%d, .%s, %s, %s, %s, .%s⟩  -- %s.%s' % (
            mid[(e['cls'], e['method'])], OPT_LEAN[e['option']], _lean_bool(e['named']),
            _lean_bool(e['write']), _lean_bool(e['optedOut']), e['disp'], e['cls'], e['method']))
    # the trailing comment must not swallow the separating comma
    lines = [l.replace('⟩  --', '⟩,  --') for l in lines]
    if lines:
        last = lines[-1]
        lines[-1] = last.replace('⟩,  --', '⟩   --')
    out.append('/-- ⟨mid, option, named, write, optedOut, observed⟩ -/')
    out.append('def options : List OptEntry := [\n%s\n  ]\n' % '\n'.join(lines))

    def keys(ks):
        return '[' + ', '.join('(%d, .%s)' % (mid[(c, m)], OPT_LEAN[o]) for c, m, o in ks
                               if (c, m) in mid) + ']'
    out.append('/-- known findings: options dropped silently (no opt-out given): %s -/'
               % comment_safe(', '.join('%s.%s(%s)' % k for k in known_silent)))
    out.append('def knownSilent : List (Nat × Opt) := %s\n' % keys(known_silent))
    plines = []
    for e in sorted(pairs, key=lambda e: (mid.get((e['cls'], e['method']), -1),
                                          extract_options.OPTIONS.index(e['a']),
                                          extract_options.OPTIONS.index(e['b']), e['aOptedOut'])):
        if (e['cls'], e['method']) not in mid:
            continue
        plines.append('  ⟨%d, .%s, .%s, %s, %s, .%s⟩' % (
            mid[(e['cls'], e['method'])], OPT_LEAN[e['a']], OPT_LEAN[e['b']],
            _lean_bool(e['write']), _lean_bool(e['aOptedOut']), e['disp']))
    out.append('/-- both options present: ⟨mid, a, b, write, a opted out, observed⟩ (b is never opted '
               'out) -/')
    nch = 0
    for i in range(0, len(plines), 150):
        out.append('def optionPairs_%d : List OptPair := [\n%s]\n' % (
            nch, ',\n'.join(plines[i:i + 150])))
        nch += 1
    out.append('def optionPairChunks : List (List OptPair) := [%s]\n' % ', '.join(
        'optionPairs_%d' % i for i in range(nch)))
    out.append('/-- %d pair probes -/\ndef optionPairs : List OptPair := optionPairChunks.flatten\n'
               % len(plines))
    out.append('end Generated\n')
    return '\n'.join(out)


def emit_sites(T, derived, entries, known_site_pairs=(), known_lazy_empty=()):
    """derived: extract_sites.derive_sites(); entries: extract_sites.probe_sites();
    known_site_pairs: [(site id, name)], known_lazy_empty: [site id] of known_findings.json"""
    sites = derived['sites']
    by_name = {}
    for e in entries:
        by_name.setdefault(e['name'], []).append(e)
    names = sorted(by_name, key=lambda n: (code_of(n), n))
    classes, vectors, rows = {}, {}, []
    for n in names:
        ct = _class_text(name_class(T, n))
        if ct not in classes:
            classes[ct] = 'scls_%d' % len(classes)
        es = sorted(by_name[n], key=lambda e: (e['site'], extract_vocab.POSITIONS.index(e['base'])))
        vec = '[' + ', '.join('⟨%d, .%s, .%s, .%s⟩' % (e['site'], e['base'], e['disp'],
                                                         e.get('on_empty', 'notProbed'))
                              for e in es) + ']'
        if vec not in vectors:
            vectors[vec] = 'sv_%d' % len(vectors)
        rows.append('  ⟨%d, %s, %s⟩' % (code_of(n), classes[ct], vectors[vec]))
    out = [HEADER % ('extract_sites.py',
                     'The parts of the stage specifications that reach a dispatch helper (derived '
                     'from the syntax tree of mongomock/aggregate.py and a traced run of every '
                     'stage), and the OBSERVED disposition of the probed names at each of them.')]
    out.append('import MongoModel.Vocab\n')
    out.append('namespace Generated\nopen MongoModel.Vocab\n')
    out.append('/-- every call of a dispatch helper in a module-level function of aggregate.py; the '
               'helpers: %s -/' % comment_safe(', '.join(
                   '%s (%s)' % (attr, fam) for _, attr, fam in derived['helpers'])))
    out.append('def callSites : List CallSite := [\n%s]\n' % ',\n'.join(
        '  ⟨%s, %s, %d⟩' % (lstr(s['function']), lstr(s['helper']), s['line'])
        for s in derived['static']))
    out.append('/-- ⟨`<stage>/<key path in the probed specification>:<family>`, index of the call '
               'site, family of the helper called there⟩ -/')
    out.append('def sites : List Site := [\n%s]\n' % ',\n'.join(
        '  ⟨%s, %d, .%s⟩' % (lstr(s['id']), s['call'], s['family']) for s in sites))
    out.append('/-! distinct classifications -/')
    for ct, nm in classes.items():
        out.append('def %s : NameClass :=\n  %s' % (nm, ct))
    out.append('\n/-! distinct vectors of observations: ⟨site, position of the dispatcher, observed, '
               'the same calls on an empty collection⟩ -/')
    for vec, nm in vectors.items():
        out.append('def %s : List SiteObs :=\n  %s' % (nm, vec))
    out.append('')
    nchunks = 0
    for i in range(0, len(rows), CHUNK):
        out.append('/-- %s -/' % comment_safe(' '.join(names[i:i + CHUNK])))
        out.append('def siteRows_%d : List SiteRow := [\n%s]' % (
            nchunks, ',\n'.join(rows[i:i + CHUNK])))
        nchunks += 1
    out.append('\ndef siteRowChunks : List (List SiteRow) := [%s]' % ', '.join(
        'siteRows_%d' % i for i in range(nchunks)))
    out.append('\n/-- all site rows (%d names) -/\ndef siteRows : List SiteRow := '
               'siteRowChunks.flatten' % len(rows))
    out.append('\n/-- one entry per (site, position of the dispatcher, name), %d entries -/'
               % len(entries))
    out.append('def siteVocab : List SiteEntry := siteEntriesOf siteRows')
    idx = {s['id']: s['index'] for s in sites}
    out.append('\n/-- known findings (known_findings.json): (site, name) pairs accepted silently: '
               '%s -/' % comment_safe(', '.join('%s %s' % p for p in known_site_pairs)))
    out.append('def knownIgnoredSitePairs : List (Nat × Code) := [%s]' % ', '.join(
        '(%d, %d)' % (idx[s], code_of(n)) for s, n in known_site_pairs if s in idx))
    out.append('\n/-- known findings (known_findings.json, `lazy-empty:<site>`): sites at which a name '
               'that is refused on a populated collection is let through on an empty one: %s -/'
               % comment_safe(', '.join(known_lazy_empty)))
    out.append('def knownLazyEmptySites : List Nat := [%s]' % ', '.join(
        '%d' % idx[s] for s in known_lazy_empty if s in idx))
    out.append('\nend Generated\n')
    return '\n'.join(out)
