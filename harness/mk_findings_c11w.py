"""(development helper) add the C11 findings of the every-kind order oracle (sort keys outside the
model's universe) to known_findings.json, after checking each witness on the real code: python
deviates from the reference order (harness/c11_order.py) and the classification names exactly
that class.  usage: mk_findings_c11w.py"""
import json
import os
import re
import sys
import uuid

sys.path.insert(0, os.path.dirname(os.path.abspath(__file__)))
import c11_order  # noqa: E402
import wire  # noqa: E402
from props import c11  # noqa: E402

NAN = float('nan')
W = [
    ('regexkey', [{'_id': 0, 'a': re.compile('a')}, {'_id': 1, 'a': re.compile('b')}],
     ('find', {}, [['a', 1]], 0, 0, [], None)),
    ('uuidbinary', [{'_id': 0, 'a': uuid.UUID(int=1)}, {'_id': 1, 'a': b'a'}],
     ('find', {}, [['a', 1]], 0, 0, [], None)),
    ('nankey', [{'_id': 0, 'a': 1}, {'_id': 1, 'a': NAN}, {'_id': 2, 'a': -1}],
     ('find', {}, [['a', 1]], 0, 0, [], None)),
    ('seqpyeq', [{'_id': 0, 'a': [[True, 3]]}, {'_id': 1, 'a': [[1, 5]]}],
     ('find', {}, [['a', 1]], 0, 0, [], None)),
]
out = []
for label, docs, case in W:
    sc = {'docs': docs, 'oids': wire.Oids(), 'cases': [case]}
    coll = c11.mk_coll(docs)
    py, _ = c11.py_case(coll, case)
    sel = c11.natural_selection(coll, case[1])[0]
    exp = c11.wide_expected(sel, case)
    assert c11.wide_norm(py) != c11.wide_norm(exp), (label, py, exp)
    flags = c11_order.flags_of(sel, c11.all_sorts(case))
    assert flags == {label}, (label, flags)
    r = c11.render_wide(sc, case)
    out.append({'property': 'C11', 'id': label, 'status': 'known',
                'what': c11_order.FINDING_TEXT[label],
                'witness': {'docs': r['docs'], 'call': wire.pretty(list(case)), 'wide': r['wide'],
                            'expected': wire.pretty(exp), 'python': wire.pretty(py)}})
    print(label, 'ok | python', py, '| rules', exp)
path = os.path.join(wire.VERIF, 'known_findings.json')
data = json.load(open(path))
ids = {e['id'] for e in out}
data['findings'] = [x for x in data['findings']
                    if not (x['property'] == 'C11' and x['id'] in ids)] + out
json.dump(data, open(path, 'w'), indent=1)
