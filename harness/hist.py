"""Operation histories on one collection: generator, execution on the real mongomock (with a
mocked clock) and on the Lean model (`hist` driver command), step-by-step comparison.

A history is a list of ops, each a JSON-like list whose first element names the operation
(see lean/MongoModel/Ops.lean).  After every op both sides report `(outcome, observation)` where
the observation is what `find({})` and `index_information()` show at the current clock.
"""
import copy
import datetime as _dt

import mongomock
from mongomock import BulkWriteError

import gen
import gen_filter
import gen_update
import wire

T0 = 1600000000000000          # mocked utcnow at the start of every history (µs since epoch)
EPOCH = _dt.datetime(1970, 1, 1)

ID_POOL = [0, 1, 2, 3, 'a', 'b', 1.0, True, None, {'k': 1}, {'k': 2}, {'k': 1, 'j': 'a'},
           {'j': 'a', 'k': 1}]
# embedded-document _ids that hold containers themselves: the store key of such a document must
# not share them with the stored document (the repaired finding C06 nested-id-failed-update: a
# refused update INTO the _id changed the key in place and left the collection unreadable)
NESTED_IDS = [{'a': [1, 2]}, {'k': {'d': 1}}]
# updates aimed into those containers (each is refused - the _id is immutable - or changes nothing)
NESTED_ID_UPDATES = [
    {'$push': {'_id.a': 3}}, {'$set': {'_id.k.z': 5}}, {'$inc': {'_id.k.d': 1}},
    {'$unset': {'_id.k.d': ''}}, {'$set': {'_id.a.0': 9}}, {'$addToSet': {'_id.a': 7}},
    {'$pop': {'_id.a': 1}}, {'$set': {'_id.k.d': 1}}, {'$pull': {'_id.a': 2}},
    {'$set': {'a': 1}, '$push': {'_id.a': 3}}, {'$set': {'_id.k.d.x': 1}},
]
# datetime _ids that are distinct as given and equal once normalised (UTC, milliseconds)
_D0 = _dt.datetime(2021, 6, 15, 12, 30, 0, 1000)
DATE_IDS = [_D0, _D0.replace(microsecond=1500),
            _D0.replace(hour=14, tzinfo=_dt.timezone(_dt.timedelta(hours=2))),
            {'k': _D0.replace(microsecond=1999)}, {'k': _D0}]


def _date_forms(base):
    """the same stored value `base` (naive UTC, whole milliseconds) as a caller may spell it:
    as is, with microseconds below the millisecond, tz-aware east and west of UTC (with and
    without extra microseconds) - every spelling but the first is CHANGED by the normalisation
    applied on insert, so the caller's value and the stored value differ"""
    east = _dt.timezone(_dt.timedelta(minutes=120))
    west = _dt.timezone(_dt.timedelta(minutes=-330))
    return [base, base.replace(microsecond=base.microsecond + 500),
            base.replace(microsecond=base.microsecond + 999),
            (base + _dt.timedelta(minutes=120)).replace(tzinfo=east),
            (base + _dt.timedelta(minutes=-330)).replace(
                tzinfo=west, microsecond=base.microsecond + 250)]


# two stored instants x five spellings x three shapes (bare, inside an embedded-document _id
# alone or next to another key): ids that are distinct as given and collide (or not) once
# normalised.  A history takes a few of them (HistGen(date_ids='wide')).
_D1 = _dt.datetime(1969, 12, 31, 23, 59, 59, 998000)
DATE_IDS_WIDE = [shape(f) for base in (_D0, _D1) for f in _date_forms(base)
                 for shape in (lambda x: x, lambda x: {'k': x}, lambda x: {'k': 1, 'j': x})]


def _dt_us(dt):
    d = dt.replace(tzinfo=None) - EPOCH
    return (d.days * 86400 + d.seconds) * 1000000 + d.microseconds


def us_to_dt(us):
    return EPOCH + _dt.timedelta(microseconds=us)


class HistGen(object):
    """weights select which kinds of operation a property's histories stress"""

    def __init__(self, rng, oids, weights=None, ttl=False, indexes=True, embedded_ids=True,
                 date_ids=False):
        self.r = rng
        self.oids = oids
        self.g = gen.Gen(rng, oids)
        self.fg = gen_filter.FilterGen(self.g, malformed=0.02, elem=False, regex=False)
        self.ug = gen_update.UpdateGen(self.g)
        self.ttl = ttl
        self.indexes = indexes
        self.ids = [x for x in ID_POOL if embedded_ids or not isinstance(x, dict)]
        if embedded_ids:
            self.ids = self.ids + NESTED_IDS
        if date_ids == 'wide':
            self.ids = self.ids + rng.sample(DATE_IDS_WIDE, 6)
        elif date_ids:
            self.ids = self.ids + DATE_IDS
        self.w = dict(insert_one=18, insert_many=6, update_one=14, update_many=8, replace_one=8,
                      delete_one=5, delete_many=3, find=4, count=3, distinct=2,
                      create_index=6 if indexes else 0, drop_index=1 if indexes else 0,
                      drop_indexes=1 if indexes else 0, drop=1, clock=6 if ttl else 0,
                      find_one=0, find_one_and_update=0, find_one_and_replace=0,
                      find_one_and_delete=0, bulk_write=0, bulk_builder=0)
        if weights:
            self.w.update(weights)
        self.dollar_values = 0.0
        self.slice_proj = 0.0     # share of find_one / find_one_and_* projections that hold $slice
        self.array_keys = 0.0     # share of the fields a / b that hold an ARRAY of colliding values
        self.ttl_options = 0.0    # share of the index creations (ttl histories) that combine options
        self.lazy_filters = 0.0   # share of the multi-document updates whose filter RAISES on the
        #                           data of some documents and not of others (lazy_filter)
        self.shadow = []          # rough picture of the documents, to aim filters and updates
        self.index_names = []
        self.now = T0

    def some_doc(self):
        return self.r.choice(self.shadow) if self.shadow else None

    def date_near_now(self):
        off = self.r.choice([-100, -10, -1, 0, 1, 10, 100]) * 1000000
        return us_to_dt(self.now + off)

    # what an array under the TTL field holds besides dates
    TTL_NON_DATES = [5, 0, 1.5, 'x', '', None, True]

    def ttl_items(self, depth):
        """the items of an array under the TTL field: dates around the clock, non-dates, ARRAYS
        (of the same make, down to `depth` further levels; empty ones too) and sub-documents
        holding dates.  Only the dates among the array's OWN items are dates of the field: one
        that sits inside an item (an array or a sub-document, at any depth) is not."""
        r = self.r
        items = []
        for _ in range(r.choice([0, 1, 1, 2, 2, 3])):
            x = r.random()
            if x < 0.4:
                items.append(self.date_near_now())
            elif x < 0.55:
                items.append(r.choice(self.TTL_NON_DATES))
            elif x < 0.85 and depth > 0:
                items.append(self.ttl_items(depth - 1))
            elif x < 0.85:
                items.append([])
            else:
                items.append({r.choice(['t', 'at']): r.choice(
                    [self.date_near_now(), [self.date_near_now()]])})
        return items

    def ttl_value(self):
        """every shape of the value under a TTL field: a date; a flat array of dates; a flat
        array mixing dates and non-dates; arrays whose items are arrays again (1-3 levels,
        holding dates, strings, numbers, sub-documents, nothing) next to dates of their own or
        alone; arrays of sub-documents holding dates; the empty array; non-date scalars and a
        sub-document holding a date"""
        r = self.r
        y = r.random()
        if y < 0.5:
            return self.date_near_now()
        if y < 0.62:
            return [self.date_near_now() for _ in range(r.choice([1, 2, 2, 3]))]
        if y < 0.70:
            v = [self.date_near_now(), r.choice(self.TTL_NON_DATES)]
            r.shuffle(v)
            return v
        if y < 0.90:
            v = self.ttl_items(r.choice([1, 1, 2, 3]))
            if r.random() < 0.6:
                # at least one item that is an array holding a date (at the bottom of 1-3 levels)
                inner = [self.date_near_now()]
                if r.random() < 0.4:
                    inner.insert(r.choice([0, 1]), r.choice(self.TTL_NON_DATES))
                for _ in range(r.choice([0, 0, 1, 2])):
                    inner = [inner] if r.random() < 0.6 else ['x', inner]
                v.insert(r.randrange(len(v) + 1), inner)
            return v
        if y < 0.94:
            return [{r.choice(['t', 'at']): self.date_near_now()}
                    for _ in range(r.choice([1, 2]))]
        return copy.deepcopy(r.choice([5, 'x', None, [], [[]], [[], []], {'t': None}])) \
            if r.random() < 0.8 else {r.choice(['t', 'at']): self.date_near_now()}

    def new_doc(self):
        d = self.g.doc(2, maxf=3)
        d.pop('_id', None)
        x = self.r.random()
        if x < 0.7:
            d = dict([('_id', copy.deepcopy(self.r.choice(self.ids)))] + list(d.items()))
        if self.ttl and self.r.random() < 0.6:
            d['t'] = self.ttl_value()
        if self.ttl and self.r.random() < 0.06:
            # the TTL index of a history is sometimes over a / b
            d[self.r.choice(['a', 'b'])] = self.ttl_value()
        # keep colliding values in the indexed fields
        for f in ('a', 'b'):
            if f in d and self.r.random() < 0.5:
                d[f] = self.r.choice([1, 2, None, 'x'])
            if self.array_keys and self.r.random() < self.array_keys:
                # array-valued (possibly empty, possibly mixed-type) under the keys the filters,
                # sorts and indexes of the histories are aimed at
                d[f] = [self.r.choice([1, 2, 3, None, 'x', 0.5])
                        for _ in range(self.r.choice([0, 1, 2, 2, 3]))]
            if self.r.random() < self.dollar_values:
                # a sub-document with a $-key: the uniqueness look-up built from it is not a
                # well-formed query and raises something other than a duplicate-key error
                d[f] = self.r.choice([{'$foo': 1}, {'$in': 3}, {'$size': 'x'}])
        return d

    def filt(self):
        d = self.some_doc()
        x = self.r.random()
        if d is not None and '_id' in d and x < 0.35:
            return {'_id': copy.deepcopy(d['_id'])}
        if x < 0.45:
            return {}
        if x < 0.55:
            return {'_id': copy.deepcopy(self.r.choice(self.ids))}
        return self.fg.filter(d, depth=1)

    def op(self):
        names = [k for k, v in self.w.items() if v > 0]
        k = self.r.choices(names, [self.w[n] for n in names])[0]
        r = self.r
        if k == 'insert_one':
            d = self.new_doc()
            self.shadow.append(copy.deepcopy(d))
            return ['insert_one', d]
        if k == 'insert_many':
            ds = [self.new_doc() for _ in range(r.choice([1, 2, 3, 4]))]
            self.shadow.extend(copy.deepcopy(ds))
            return ['insert_many', ds, r.random() < 0.5]
        if k in ('update_one', 'update_many'):
            nested = [d for d in self.shadow if isinstance(d.get('_id'), dict) and
                      any(isinstance(v, (dict, list)) for v in d['_id'].values())]
            if nested and r.random() < 0.35:
                # an update INTO the containers of an embedded _id
                d = r.choice(nested)
                f = {'_id': copy.deepcopy(d['_id'])} if r.random() < 0.7 else {}
                return [k, f, copy.deepcopy(r.choice(NESTED_ID_UPDATES)), r.random() < 0.2]
            f = self.multi_filter() if k == 'update_many' else self.filt()
            u = self.ug.update(self.some_doc())
            if self.ttl and r.random() < 0.3:
                # the TTL field changes shape under updates as well: a new value of any shape,
                # or one more item (a date, a non-date, an array) for the array it holds
                y = r.random()
                if y < 0.6:
                    u = {'$set': {'t': self.date_near_now()}}
                elif y < 0.85:
                    u = {'$set': {'t': self.ttl_value()}}
                else:
                    item = (self.ttl_items(2) + [self.date_near_now()])[0]
                    u = {'$push': {'t': item}}
            return [k, f, u, r.random() < 0.3]
        if k == 'replace_one':
            return [k, self.filt(), self.ug.replacement(self.some_doc()), r.random() < 0.3]
        if k in ('delete_one', 'delete_many'):
            return [k, self.filt()]
        if k == 'find':
            return ['find', self.filt()]
        if k == 'count':
            return ['count', self.filt(), r.choice([0, 0, 1, 2]), r.choice([None, None, 1, 2, 0])]
        if k == 'distinct':
            return ['distinct', self.g.path(self.some_doc()), self.filt()]
        if k == 'find_one':
            return ['find_one', self.filt(), self.projection(), self.sort()]
        if k in ('find_one_and_update', 'find_one_and_replace'):
            u = self.ug.update(self.some_doc()) if k.endswith('update') else \
                self.ug.replacement(self.some_doc())
            return [k, self.fam_filter(), u, self.projection(), self.sort(), r.random() < 0.25,
                    r.random() < 0.5]
        if k == 'find_one_and_delete':
            return [k, self.fam_filter(), self.projection(), self.sort()]
        if k == 'bulk_write':
            return ['bulk_write', [self.request() for _ in range(r.choice([1, 2, 3, 4, 5]))],
                    r.random() < 0.5]
        if k == 'bulk_builder':
            reqs = [self.request() for _ in range(r.choice([0, 1, 2, 3, 4]))]
            # several requests through ONE selector (the runner re-uses the find() handle, so
            # that a request's settings - upsert - must not leak to its neighbours)
            for j in range(1, len(reqs)):
                if reqs[j][0] != 'InsertOne' and r.random() < 0.5:
                    prev = [q for q in reqs[:j] if q[0] != 'InsertOne']
                    if prev:
                        reqs[j][1] = copy.deepcopy(r.choice(prev)[1])
            return ['bulk_builder', reqs, r.random() < 0.5, r.choice([1, 2, 2, 3])]
        if k == 'create_index':
            return self.create_index()
        if k == 'drop_index':
            name = r.choice(self.index_names) if self.index_names and r.random() < 0.8 else 'zz_1'
            return ['drop_index', name]
        if k == 'drop_indexes':
            return ['drop_indexes']
        if k == 'drop':
            self.shadow = []
            return ['drop']
        if k == 'clock':
            self.now += r.choice([-50, -1, 1, 1, 5, 20, 50, 200]) * 1000000
            return ['clock', self.now]
        raise ValueError(k)

    def fam_filter(self):
        """filters that often match several documents"""
        x = self.r.random()
        if x < 0.12:
            # an operator condition on _id that several documents satisfy
            return {'_id': self.r.choice([{'$in': [0, 1, 2, 3, 'a']}, {'$gte': 0}, {'$ne': 'zz'},
                                           {'$nin': [7]}, {'$exists': True}])}
        if x < 0.3:
            return {}
        if x < 0.6:
            return {self.r.choice(['a', 'b']): self.r.choice([1, 2, None, 'x'])}
        return self.filt()

    def multi_filter(self):
        """the filter of a multi-document update (update_many, an UpdateMany request of a bulk)"""
        if self.lazy_filters and self.r.random() < self.lazy_filters:
            return self.lazy_filter()
        return self.filt()

    # Aggregation operators (inside `$expr`) that RAISE on some kinds of value and evaluate on
    # others: (template of the operator around the field reference, kinds of value it accepts).
    # Whatever a field holds elsewhere in the collection - another type, zero, nothing - decides
    # whether the document is matched, passed over or makes the call fail.
    EXPR_PARTIAL = (
        (lambda f: {'$size': f}, 'arr'),
        (lambda f: {'$arrayElemAt': [f, 0]}, 'arr str null doc'),
        (lambda f: {'$slice': [f, 1]}, 'arr'),
        (lambda f: {'$concatArrays': [f, [1]]}, 'arr null'),
        (lambda f: {'$map': {'input': f, 'in': 1}}, 'arr null'),
        (lambda f: {'$filter': {'input': f, 'cond': True}}, 'arr str null doc'),
        (lambda f: {'$divide': [6, f]}, 'num null'),
        (lambda f: {'$divide': [f, 2]}, 'num null'),
        (lambda f: {'$mod': [5, f]}, 'num null'),
        (lambda f: {'$add': [f, 1]}, 'num null date'),
        (lambda f: {'$subtract': [f, 1]}, 'num null date'),
        (lambda f: {'$multiply': [f, 2]}, 'num null'),
        (lambda f: {'$abs': f}, 'num null'),
        (lambda f: {'$sqrt': f}, 'num null'),
        (lambda f: {'$ln': f}, 'num null'),
        (lambda f: {'$floor': f}, 'num null'),
        (lambda f: {'$pow': [f, 2]}, 'num null'),
        (lambda f: {'$concat': [f, 'x']}, 'str null'),
        (lambda f: {'$split': [f, 'a']}, 'str null'),
        (lambda f: {'$year': f}, 'date null'),
        (lambda f: {'$objectToArray': f}, 'doc null'),
    )
    # conditions that raise as soon as they are EVALUATED (whatever the document): behind a
    # guard they are reached only on the documents the guard lets through
    RAISING_CONDITIONS = (
        lambda f: {f: {'$in': 5}}, lambda f: {f: {'$nin': 'x'}}, lambda f: {f: {'$foo': 1}},
        lambda f: {f: {'$type': 'foo'}}, lambda f: {f: {'$not': 5}}, lambda f: {f: {'$near': 1}},
        lambda f: {'$foo': 1}, lambda f: {'$and': []}, lambda f: {'$where': 'x'},
        lambda f: {'$or': {f: 1}}, lambda f: {f: {'$not': {'$foo': 1}}},
        lambda f: {'$expr': {'$foo': ['$' + f, 1]}}, lambda f: {'$expr': {'$divide': [1, 0]}},
    )

    @staticmethod
    def kind_of(v):
        if isinstance(v, list):
            return 'arr'
        if isinstance(v, dict):
            return 'doc'
        if isinstance(v, bool):
            return 'bool'
        if isinstance(v, (int, float)):
            return 'num'
        if isinstance(v, str):
            return 'str'
        if isinstance(v, _dt.datetime):
            return 'date'
        return 'null' if v is None else 'other'

    def guard(self):
        """a condition that is well formed and usually holds on several documents"""
        r = self.r
        d = self.some_doc() or {}
        x = r.random()
        held = [f for f in d if f != '_id']
        if x < 0.3 and held:
            f = r.choice(held)
            return {f: copy.deepcopy(d[f])} if not isinstance(d[f], dict) or \
                not any(k.startswith('$') for k in d[f]) else {f: {'$exists': True}}
        if x < 0.55:
            return {r.choice(gen.FIELDS): {'$exists': r.random() < 0.6}}
        if x < 0.7:
            return {r.choice(['a', 'b']): r.choice([1, 2, None, 'x', {'$ne': 1}, {'$in': [1, 2]}])}
        if x < 0.85:
            return {r.choice(gen.FIELDS): {'$type': r.choice(['int', 'string', 'array', 'object',
                                                                 'number'])}}
        return {'_id': r.choice([{'$in': [0, 1, 2, 3, 'a']}, {'$gte': 0}, {'$ne': 0},
                                  {'$type': 'object'}, {'$type': 'number'}])}

    def lazy_filter(self):
        """a filter that is evaluated document by document and RAISES on the data of some
        documents while it matches (or passes over) others - so that a multi-document update meets
        the failure after documents it has already updated:
          * `$expr` around an aggregation operator that accepts some kinds of value only (`$size`
            of a non-array, `$divide` by zero or by a string, `$concat` of a number, `$year` of a
            non-date …), aimed at a field the documents hold with values of several kinds;
          * a disjunction / negation whose later part raises whenever it is evaluated (`$in` with
            a non-array, an unknown or unimplemented operator, an invalid `$type`, an empty
            `$and` …) and is reached only by the documents that an earlier, well-formed guard
            does not settle;
          * a condition that raises on arrays only (`$not: {$elemMatch: <non-document>}`) or on
            candidates only (`$nin` with a non-array over a path that dead-ends in some documents),
        alone or next to further well-formed conditions"""
        r = self.r
        d = self.some_doc() or {}
        held = [f for f in d if f != '_id']
        f = r.choice(held) if held and r.random() < 0.8 else r.choice(gen.FIELDS)
        x = r.random()
        if x < 0.5:
            kind = self.kind_of(d.get(f)) if f in d else None
            fitting = [t for t in self.EXPR_PARTIAL if kind in t[1].split()]
            make, _ = r.choice(fitting) if fitting and r.random() < 0.75 else \
                r.choice(self.EXPR_PARTIAL)
            ref = '$' + f
            if isinstance(d.get(f), dict) and d[f] and r.random() < 0.3:
                ref = '$%s.%s' % (f, r.choice(list(d[f])))
            e = make(ref)
            y = r.random()
            if y < 0.4:
                e = {r.choice(['$gte', '$ne', '$lt']): [e, r.choice([0, 1, 2, 'zz'])]}
            elif y < 0.55:
                e = {'$or': [e, True]}
            elif y < 0.7:
                e = {'$and': [self.expr_guard(), e]}
            elif y < 0.8:
                e = {'$cond': [self.expr_guard(), e, r.choice([True, False])]}
            out = {'$expr': e}
        elif x < 0.85:
            bad = r.choice(self.RAISING_CONDITIONS)(f)
            g = self.guard()
            y = r.random()
            if y < 0.6:
                out = {'$or': [g, bad]}
            elif y < 0.75:
                out = {'$or': [g, self.guard(), bad]}
            elif y < 0.9:
                out = {'$nor': [{'$nor': [g, bad]}]}
            else:
                out = {'$and': [{'$or': [g, bad]}]}
        else:
            out = r.choice([
                {f: {'$not': {'$elemMatch': 5}}},
                {f: {'$not': {'$elemMatch': {'$foo': 1}}}},
                {f + '.' + r.choice(gen.FIELDS + gen.IDX): {'$nin': 5}},
                {f + '.' + r.choice(gen.FIELDS): {'$not': {'$in': 'x'}}},
            ])
        y = r.random()
        if y < 0.2:
            out = dict(list(self.guard().items()) + list(out.items()))
        elif y < 0.3:
            out = dict(list(out.items()) + [(k, v) for k, v in self.guard().items()
                                            if k not in out])
        return out

    def expr_guard(self):
        """a well-formed boolean expression over a field"""
        r = self.r
        f = '$' + r.choice(gen.FIELDS)
        return r.choice([{'$isArray': f}, {'$ne': [f, None]}, {'$gt': [f, 0]},
                         {'$eq': [f, r.choice([1, 2, None, 'x'])]}, {'$not': [{'$isArray': f}]}])

    # `$slice` arguments of a projection, by what the library makes of them on an array
    SLICE_ARGS = (
        [1, -1, 2, 0, 3, -3, True],                            # a count: never refused
        [[0, 1], [1, 2], [-1, 1], [-5, 2], [2, 5]],            # [skip, limit], limit positive
        [[1, 0], [0, -1], [-2, 0], [0, 0], [3, -2]],           # [skip, limit], limit not positive
        [[1], [1, 2, 3], [], 1.5, 'x', None, {'k': 1}],        # no count, no [skip, limit] pair
        # a pair with something that is no int: cannot be compared, or cut only when min / max
        # happen to leave int bounds behind (skip + limit beyond the end, a skip far before it)
        [[0, 'x'], [0, 1.5], [1.5, 1], ['x', 1], [0, None], [-2.5, 1], [0, 2.5], [1, 0.5],
         [-1.5, 2.5]],
    )

    def slice_projection(self):
        """a projection with `$slice` fields, refused or not DEPENDING ON THE DOCUMENT it meets:
        every form of the argument (count, [skip, limit] with a limit on either side of zero,
        unsupported values, pairs of the wrong type), on fields the documents of the history hold
        (arrays or not) or lack, alone or next to `_id` / plain fields / a second `$slice`"""
        r = self.r
        d = self.some_doc()
        held = [f for f in (d or {}) if f != '_id']
        proj = {}
        for _ in range(r.choice([1, 1, 1, 2])):
            f = r.choice(held) if held and r.random() < 0.75 else r.choice(gen.FIELDS)
            proj[f] = {'$slice': copy.deepcopy(r.choice(r.choice(self.SLICE_ARGS)))}
        x = r.random()
        if x < 0.15:
            proj = dict([('_id', r.choice([0, 1]))] + list(proj.items()))
        elif x < 0.3:
            f = r.choice(gen.FIELDS)
            if f not in proj:
                proj[f] = r.choice([1, 1, 0])
        elif x < 0.35:
            proj['_id'] = 0
        return proj

    def projection(self):
        if self.slice_proj and self.r.random() < self.slice_proj:
            return self.slice_projection()
        x = self.r.random()
        if x < 0.45:
            return None
        if x < 0.6:
            return {'_id': 0}
        if x < 0.7:
            return {'_id': 0, self.r.choice(gen.FIELDS): 1}
        if x < 0.8:
            return {self.r.choice(gen.FIELDS): 1}
        if x < 0.9:
            return {self.r.choice(gen.FIELDS): 0}
        return {'_id': 0, 'zz': 1}

    def sort(self):
        x = self.r.random()
        if x < 0.35:
            return None
        keys = self.r.sample(['a', 'b', '_id'], self.r.choice([1, 1, 2]))
        return [[k, self.r.choice([1, -1])] for k in keys]

    def wide_sort(self):
        """sort specifications of 1-3 keys over top-level fields (whose values are scalars of
        every kind, arrays, embedded documents, or absent), dotted paths, `_id` and `$natural`,
        each key ascending or descending whatever its position: a descending key is often
        followed by further keys, which decide among the documents that are equal on it"""
        r = self.r
        x = r.random()
        if x < 0.2:
            return None
        if x < 0.26:
            return [['$natural', r.choice([1, -1])]]
        pool = ['a', 'a', 'a', 'b', 'b', 'b', 'c', 'd', '_id', 'c.d', 'a.b', 'b.a', 'zz']
        keys = []
        for _ in range(r.choice([1, 1, 2, 2, 3])):
            k = r.choice(pool)
            if k not in keys:
                keys.append(k)
        y = r.random()
        if y < 0.08:
            keys.insert(r.randrange(len(keys) + 1), '$natural')
        elif y < 0.095:
            keys.insert(r.randrange(len(keys) + 1), r.choice(['$meta', '$a']))
        return [[k, r.choice([1, -1])] for k in keys]

    def request(self):
        r = self.r
        k = r.choice(['InsertOne', 'InsertOne', 'UpdateOne', 'UpdateMany', 'ReplaceOne',
                      'DeleteOne', 'DeleteMany'])
        if k == 'InsertOne':
            d = self.new_doc()
            self.shadow.append(copy.deepcopy(d))
            return [k, d]
        if k in ('UpdateOne', 'UpdateMany'):
            f = self.multi_filter() if k == 'UpdateMany' else self.filt()
            return [k, f, self.ug.update(self.some_doc()), r.random() < 0.3]
        if k == 'ReplaceOne':
            return [k, self.filt(), self.ug.replacement(self.some_doc()), r.random() < 0.3]
        return [k, self.filt()]

    # periods of a TTL index: whole, fractional, numeric string, non-numeric
    TTL_PERIODS = [0, 1, 5, 10, 30, 5.5, '7', 'x']
    PARTIAL_FILTERS = [{'c': {'$exists': True}}, {'b': {'$gt': 1}}, {'a': 1}]

    def create_index(self):
        r = self.r
        if self.ttl and self.ttl_options and r.random() < self.ttl_options:
            return self.create_index_combined()
        if self.ttl and r.random() < 0.6:
            keys = [['t', 1]] if r.random() < 0.85 else [['t', 1], ['a', 1]]
            opts = {'expireAfterSeconds': r.choice(self.TTL_PERIODS)}
        else:
            n = r.choice([1, 1, 1, 2])
            fields = r.sample(['a', 'b', 'c.d', 'a.b'], n)
            keys = [[f, r.choice([1, -1])] for f in fields]
            opts = {}
            if r.random() < 0.8:
                opts['unique'] = True
            if r.random() < 0.25:
                opts['sparse'] = True
            if r.random() < 0.2:
                opts['partialFilterExpression'] = r.choice(self.PARTIAL_FILTERS)
        name = '_'.join('%s_%s' % (k, d) for k, d in keys)
        if r.random() < 0.1:
            opts['name'] = name = r.choice(['ix', 'jx'])
        if name not in self.index_names:
            self.index_names.append(name)
        return ['create_index', keys, opts]

    def create_index_combined(self):
        """an index that carries SEVERAL options at once, every subset of {expireAfterSeconds,
        unique, sparse, partialFilterExpression} of two or more, over the date field `t`, a field
        of colliding values, or both.  The documents of a history hold few distinct values under
        these fields (and often lack them), so that a creation with `unique` is as often REFUSED
        (DuplicateKeyError over the existing documents: the index must then not exist in any
        respect) as it succeeds; the same name comes back with other options (refused as well)"""
        r = self.r
        x = r.random()
        if x < 0.6:
            keys = [['t', 1]]
        elif x < 0.75:
            keys = [[r.choice(['a', 'b']), 1]]
        else:
            keys = [['t', 1], [r.choice(['a', 'b']), r.choice([1, -1])]]
            if r.random() < 0.3:
                keys.reverse()
        while True:
            opts = {}
            if r.random() < 0.75:
                opts['expireAfterSeconds'] = r.choice(self.TTL_PERIODS)
            if r.random() < 0.7:
                opts['unique'] = True
            if r.random() < 0.3:
                opts['sparse'] = True
            if r.random() < 0.25:
                opts['partialFilterExpression'] = copy.deepcopy(r.choice(
                    self.PARTIAL_FILTERS + [{'t': {'$exists': True}}]))
            if len(opts) >= 2:
                break
        name = '_'.join('%s_%s' % (k, d) for k, d in keys)
        if r.random() < 0.1:
            opts['name'] = name = r.choice(['ix', 'jx'])
        if name not in self.index_names:
            self.index_names.append(name)
        return ['create_index', keys, opts]

    def history(self, n):
        return [self.op() for _ in range(n)]


# ---------------------------------------------------------------------------------------------

def enc_op(op, oids):
    """the op as a wire value (lists → arrays)"""
    return wire.encs(op, oids)


class Request(object):
    """stand-in for the pymongo write models (pymongo is absent): bulk_write only needs
    `_add_to_bulk`"""

    def __init__(self, spec):
        self.spec = spec

    def _add_to_bulk(self, bulk):
        k = self.spec[0]
        a = self.spec[1:]
        if k == 'InsertOne':
            bulk.add_insert(a[0])
        elif k == 'UpdateOne':
            bulk.add_update(a[0], a[1], multi=False, upsert=a[2])
        elif k == 'UpdateMany':
            bulk.add_update(a[0], a[1], multi=True, upsert=a[2])
        elif k == 'ReplaceOne':
            bulk.add_replace(a[0], a[1], upsert=a[2])
        elif k == 'DeleteOne':
            bulk.add_delete(a[0], just_one=True)
        elif k == 'DeleteMany':
            bulk.add_delete(a[0], just_one=False)
        else:
            raise ValueError(k)


class PyRunner(object):
    """executes a history on the real code"""

    def __init__(self, server_version='5.0.5'):
        self.saved_version = mongomock.SERVER_VERSION
        mongomock.SERVER_VERSION = server_version
        self.client = mongomock.MongoClient()
        mongomock.SERVER_VERSION = self.saved_version
        self.coll = self.client.db.c
        self.now = T0
        self.saved_utcnow = mongomock.utcnow
        mongomock.utcnow = lambda: us_to_dt(self.now)

    def close(self):
        mongomock.utcnow = self.saved_utcnow

    def apply(self, op):
        """returns (outcome, extra) where outcome is a python value or ('!', name[, details])"""
        c = self.coll
        k = op[0]
        a = copy.deepcopy(op[1:])
        extra = {}
        try:
            if k == 'clock':
                self.now = a[0]
                return None, extra
            if k == 'insert_one':
                try:
                    r = c.insert_one(a[0])
                finally:
                    extra['caller_doc'] = a[0]
                return r.inserted_id, extra
            if k == 'insert_many':
                try:
                    r = c.insert_many(a[0], ordered=a[1])
                finally:
                    extra['caller_docs'] = a[0]
                return list(r.inserted_ids), extra
            if k in ('update_one', 'update_many'):
                r = getattr(c, k)(a[0], a[1], upsert=a[2])
                return {'matched': r.matched_count, 'modified': r.modified_count,
                        'upserted': r.upserted_id}, extra
            if k == 'replace_one':
                r = c.replace_one(a[0], a[1], upsert=a[2])
                return {'matched': r.matched_count, 'modified': r.modified_count,
                        'upserted': r.upserted_id}, extra
            if k in ('delete_one', 'delete_many'):
                return getattr(c, k)(a[0]).deleted_count, extra
            if k == 'find':
                return list(c.find(a[0])), extra
            if k == 'count':
                kw = {'skip': a[1]}
                if a[2] is not None:
                    kw['limit'] = a[2]
                return c.count_documents(a[0], **kw), extra
            if k == 'distinct':
                return ('set', c.distinct(a[0], a[1])), extra
            if k == 'find_one':
                kw = {}
                if a[2] is not None:
                    kw['sort'] = [tuple(x) for x in a[2]]
                return c.find_one(a[0], a[1], **kw), extra
            if k in ('find_one_and_update', 'find_one_and_replace'):
                kw = {'projection': a[2], 'upsert': a[4], 'return_document': bool(a[5])}
                if a[3] is not None:
                    kw['sort'] = [tuple(x) for x in a[3]]
                return getattr(c, k)(a[0], a[1], **kw), extra
            if k == 'find_one_and_delete':
                kw = {'projection': a[1]}
                if a[2] is not None:
                    kw['sort'] = [tuple(x) for x in a[2]]
                return c.find_one_and_delete(a[0], **kw), extra
            if k == 'bulk_write':
                r = c.bulk_write([Request(x) for x in a[0]], ordered=a[1])
                br = r.bulk_api_result
                return {'nInserted': br['nInserted'], 'nMatched': br['nMatched'],
                        'nModified': br.get('nModified'), 'nRemoved': br['nRemoved'],
                        'nUpserted': br['nUpserted'],
                        'upserted': [{'index': u['index'], '_id': u['_id']}
                                     for u in br['upserted']],
                        'writeErrors': []}, extra
            if k == 'bulk_builder':
                return self.bulk_builder(a[0], a[1], a[2]), extra
            if k == 'create_index':
                return c.create_index([tuple(x) for x in a[0]], **a[1]), extra
            if k == 'drop_index':
                return c.drop_index(a[0]), extra
            if k == 'drop_indexes':
                return c.drop_indexes(), extra
            if k == 'drop':
                return c.drop(), extra
            raise ValueError('unknown op ' + k)
        except BulkWriteError as e:
            d = e.details
            errs = [{'index': w['index'], 'code': w['code']} for w in d.get('writeErrors', [])]
            if 'nMatched' in d:      # from bulk_write: the whole result document
                det = {'nInserted': d['nInserted'], 'nMatched': d['nMatched'],
                       'nModified': d.get('nModified'), 'nRemoved': d['nRemoved'],
                       'nUpserted': d['nUpserted'],
                       'upserted': [{'index': u['index'], '_id': u['_id']}
                                    for u in d['upserted']],
                       'writeErrors': errs}
            else:                    # from insert_many
                det = {'writeErrors': errs}
                if 'nInserted' in d:
                    det['nInserted'] = d['nInserted']
            return ('!', 'BulkWriteError', det), extra
        except Exception as e:  # pylint: disable=broad-except
            return ('!', wire.err_name(e)), extra

    @staticmethod
    def bulk_details(d):
        return {'nInserted': d['nInserted'], 'nMatched': d['nMatched'],
                'nModified': d.get('nModified'), 'nRemoved': d['nRemoved'],
                'nUpserted': d['nUpserted'],
                'upserted': [{'index': u['index'], '_id': u['_id']} for u in d['upserted']],
                'writeErrors': [{'index': w['index'], 'code': w['code']}
                                for w in d.get('writeErrors', [])]}

    def bulk_builder(self, reqs, ordered, times):
        """the builder API (initialize_*_bulk_op, find().upsert().update_one() …), then
        execute() `times` times; the outcome of every execute"""
        c = self.coll
        b = c.initialize_ordered_bulk_op() if ordered else c.initialize_unordered_bulk_op()
        handles = {}
        for q in reqs:
            k, a = q[0], q[1:]
            if k == 'InsertOne':
                b.insert(a[0])
                continue
            # one find() handle per distinct selector, re-used by the later requests on it
            hk = repr(a[0])
            if hk not in handles:
                handles[hk] = b.find(a[0])
            op = handles[hk]
            if k in ('UpdateOne', 'UpdateMany', 'ReplaceOne') and a[2]:
                op = op.upsert()
            if k == 'UpdateOne':
                op.update_one(a[1])
            elif k == 'UpdateMany':
                op.update(a[1])
            elif k == 'ReplaceOne':
                op.replace_one(a[1])
            elif k == 'DeleteOne':
                op.remove_one()
            elif k == 'DeleteMany':
                op.remove()
            else:
                raise ValueError(k)
        outs = []
        for _ in range(times):
            try:
                outs.append({'k': 'val', 'v': self.bulk_details(b.execute())})
            except BulkWriteError as e:
                outs.append({'k': 'bulkErr', 'v': self.bulk_details(e.details)})
            except Exception as e:  # pylint: disable=broad-except
                outs.append({'k': 'err', 'v': wire.err_name(e)})
        return outs

    def observe(self):
        try:
            docs = list(self.coll.find({}))
        except Exception as e:  # pylint: disable=broad-except
            docs = '!' + wire.err_name(e)
        return {'docs': docs, 'indexes': list(self.coll.index_information().keys())}

    def raw_docs(self):
        """the stored documents themselves (no copy, no expiry pass); [] when the store itself can
        no longer be walked (a key changed under it: the observation of the step says so)"""
        try:
            return list(self.coll._store._documents.values())
        except Exception:  # pylint: disable=broad-except
            return []


def canon_out(out, oids):
    """token string of an outcome, comparable with the driver's"""
    if isinstance(out, tuple) and out and out[0] == '!':
        if out[1] == 'BulkWriteError':
            return '!BulkWriteError ' + wire.encs(out[2], oids)
        return '!' + out[1]
    if isinstance(out, tuple) and out and out[0] == 'set':
        return 'set ' + ' '.join(sorted(wire.encs(x, oids) for x in out[1]))
    return wire.encs(out, oids)


def run_python(history, oids, server_version='5.0.5', probe=None, pre_probe=None):
    """[(outcome tokens, observation tokens, extra, outcome, observation)]; `probe(runner, op)`
    may add python-only measurements to `extra['probe']` after each step"""
    pr = PyRunner(server_version)
    res = []
    try:
        for op in history:
            pre = pre_probe(pr, op[1] if op[0] == 'noobs' else op) if pre_probe else None
            if op[0] == 'noobs':
                out, extra = pr.apply(op[1])
                extra['pre'] = pre
                res.append((canon_out(out, oids), '_', extra, out, None))
                continue
            out, extra = pr.apply(op)
            extra['pre'] = pre
            obs = pr.observe()
            if probe is not None:
                extra['probe'] = probe(pr, op)
            res.append((canon_out(out, oids), wire.encs(obs, oids), extra, out, obs))
    finally:
        pr.close()
    return res


def renumber_fresh(tokens):
    """canonicalise generated ObjectIds (numbers >= FRESH) by first appearance"""
    m = {}
    out = []
    for t in tokens:
        if t[:1] == 'O' and t[1:].isdigit() and int(t[1:]) >= wire.Oids.FRESH:
            if t not in m:
                m[t] = 'O#%d' % len(m)
            out.append(m[t])
        else:
            out.append(t)
    return out


def split_steps(line):
    """driver answer → [(outcome tokens, observation tokens)]"""
    steps = []
    cur = []
    for t in line.split():
        if t == ';':
            steps.append(cur)
            cur = []
        else:
            cur.append(t)
    res = []
    for s in steps:
        if s and s[-1] == '_':
            res.append((s[:-1], ['_']))
            continue
        # the observation is the trailing `{ … }` value: find its start by bracket matching
        depth = 0
        i = len(s) - 1
        while i >= 0:
            if s[i] in ('}', ']'):
                depth += 1
            elif s[i] in ('{', '['):
                depth -= 1
                if depth == 0:
                    break
            i -= 1
        res.append((s[:i], s[i:]))
    return res


def canon_set_out(out_tokens):
    """model outcome of `distinct` (an array) as a sorted set string"""
    return out_tokens


def model_line(history, oids, pre_v5=False):
    return 'hist %s %s' % ('T' if pre_v5 else 'F', wire.encs(history, oids))
