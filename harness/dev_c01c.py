import sys, random, collections
sys.path.insert(0, '/verif/harness')
import wire, gen, gen_filter
from mongomock.filtering import filter_applies
seed = int(sys.argv[1]); N = int(sys.argv[2])
rng = random.Random(seed)
cases = []; lines = []
for i in range(N):
    oids = wire.Oids(); g = gen.Gen(rng, oids); fg = gen_filter.FilterGen(g, malformed=0.01)
    d = g.doc(2, maxf=3); f = fg.filter(d, depth=1)
    if len(repr(f))+len(repr(d)) > 160: continue
    try: line = 'c01 ' + wire.encs(f, oids) + ' ' + wire.encs(d, oids)
    except wire.Unencodable: continue
    cases.append((f, d)); lines.append(line)
out = wire.run_driver(lines)
shown = collections.Counter()
for (f, d), o in zip(cases, out):
    impl, spec, reasons = [x.strip() for x in o.split('|')]
    reasons = tuple(sorted(set(reasons.split())))
    if impl.startswith('!?') or spec.startswith('!?'): continue
    a = 'E' if impl.startswith('!') else impl; b = 'E' if spec.startswith('!') else spec
    if a != b and len(reasons) == 1:
        shown[reasons] += 1
        if shown[reasons] <= 4: print(reasons[0], 'impl=%s spec=%s f=%r d=%r' % (impl, spec, f, d))
print(shown)
