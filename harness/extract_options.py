"""C20 translator 2: the option matrix.

For every public method of `Collection`, `Database`, `Cursor`, `BulkOperationBuilder` and
`BulkWriteOperation` (found with `inspect`), for each of the options session / collation /
array_filters / let / hint that the method's signature accepts (named parameter, or any of them
when the method takes `**kwargs`), and for each `ignore_feature` setting of that option (not
opted out / opted out; `hint` has no opt-out), call the method on a small non-empty fixture with
and without the option and record what the option did:

    raisesNotImplemented | raisesOther | accepted   (accepted = no exception at all)

`mongomock.not_implemented._IGNORED_FEATURES` is saved before and restored after the probing.
"""
import collections
import copy
import inspect
import json

import mongomock
from mongomock import collection as mm_collection
from mongomock import database as mm_database
from mongomock import not_implemented as mm_ni

OPTIONS = ['session', 'collation', 'array_filters', 'let', 'hint']
IGNORABLE = ['session', 'collation', 'array_filters', 'let']
OPT_DISPS = ['raisesNotImplemented', 'raisesOther', 'accepted']
# methods that modify documents: `hint` changes what a write does only through the plan, but the
# property lists "hint on writes" among the options that must not be dropped silently
WRITE_METHODS = {
    'update_one', 'update_many', 'replace_one', 'delete_one', 'delete_many',
    'find_one_and_delete', 'find_one_and_replace', 'find_one_and_update', 'bulk_write',
    'add_update', 'add_replace', 'add_delete', 'update', 'remove', 'remove_one',
    'register_update_op', 'register_remove_op', 'find_and_modify', 'save',
}


class FakeSession(object):
    """stands for a pymongo ClientSession (truthy, otherwise inert)"""

    def __repr__(self):
        return 'FakeSession()'


class FakeRequest(object):
    """stands for a pymongo write model (bulk_write calls request._add_to_bulk(builder))"""

    def _add_to_bulk(self, bulk):
        bulk.add_insert({'x': 1})

    def __repr__(self):
        return 'FakeRequest()'


class FakeDBRef(object):
    collection = 'c'
    id = 1
    database = None

    def __repr__(self):
        return 'FakeDBRef()'


def index_model(keys):
    """a pymongo IndexModel, or mongomock's stand-in filled in by hand when pymongo is absent"""
    try:
        return mm_collection.IndexModel(keys)
    except TypeError:
        im = mm_collection.IndexModel()
        im.document = {'key': dict(keys)}
        return im


def option_value(opt):
    return {
        'session': FakeSession(),
        'collation': {'locale': 'en', 'strength': 2},
        'array_filters': [{'e.x': {'$gt': 0}}],
        'let': {'v': 1},
        'hint': [('a', 1)],
    }[opt]


def fixture():
    db = mongomock.MongoClient().db
    db.c.insert_many([{'_id': 1, 'a': 1, 's': 'a', 'arr': [{'x': 1}, {'x': 0}]},
                      {'_id': 2, 'a': 2, 's': 'A', 'arr': [{'x': 2}]}])
    db.c.create_index('a')
    return db


def _consume(x):
    if isinstance(x, (mm_collection.Cursor,)) or inspect.isgenerator(x) or \
            type(x).__name__ == 'CommandCursor':
        return list(x)
    return x


def _bulk(method, args):
    def run(db, kw):
        b = db.c.initialize_ordered_bulk_op()
        getattr(b, method)(*copy.deepcopy(args), **kw)
        return b.execute()
    return run


def _bulk_op(method, args):
    def run(db, kw):
        b = db.c.initialize_ordered_bulk_op()
        getattr(b.find({'a': 1}), method)(*copy.deepcopy(args), **kw)
        return b.execute()
    return run


def _coll(method, *args):
    def run(db, kw):
        return _consume(getattr(db.c, method)(*copy.deepcopy(args), **kw))
    return run


def _db(method, *args):
    def run(db, kw):
        return _consume(getattr(db, method)(*copy.deepcopy(args), **kw))
    return run


def _cursor(method, *args):
    def run(db, kw):
        return _consume(getattr(db.c.find({}), method)(*copy.deepcopy(args), **kw))
    return run


# how to call each method: (runner, python rendering of the positional arguments)
BASE_CALLS = {
    ('Collection', 'aggregate'): (_coll('aggregate', [{'$match': {'s': 'a'}}]),
                                  "[{'$match': {'s': 'a'}}]"),
    ('Collection', 'aggregate_raw_batches'): (_coll('aggregate_raw_batches', []), '[]'),
    ('Collection', 'bulk_write'): (lambda db, kw: db.c.bulk_write([FakeRequest()], **kw),
                                   '[FakeRequest()]'),
    ('Collection', 'count_documents'): (_coll('count_documents', {'s': 'a'}), "{'s': 'a'}"),
    ('Collection', 'create_index'): (_coll('create_index', 's'), "'s'"),
    ('Collection', 'create_indexes'): (
        lambda db, kw: db.c.create_indexes([index_model([('s', 1)])], **kw),
        "[IndexModel([('s', 1)])]"),
    ('Collection', 'delete_many'): (_coll('delete_many', {'s': 'a'}), "{'s': 'a'}"),
    ('Collection', 'delete_one'): (_coll('delete_one', {'s': 'a'}), "{'s': 'a'}"),
    ('Collection', 'distinct'): (_coll('distinct', 's'), "'s'"),
    ('Collection', 'drop'): (_coll('drop'), ''),
    ('Collection', 'drop_index'): (_coll('drop_index', 'a_1'), "'a_1'"),
    ('Collection', 'drop_indexes'): (_coll('drop_indexes'), ''),
    ('Collection', 'estimated_document_count'): (_coll('estimated_document_count'), ''),
    ('Collection', 'find'): (_coll('find', {'s': 'a'}), "{'s': 'a'}"),
    ('Collection', 'find_one'): (_coll('find_one', {'s': 'a'}), "{'s': 'a'}"),
    ('Collection', 'find_one_and_delete'): (_coll('find_one_and_delete', {'s': 'a'}),
                                            "{'s': 'a'}"),
    ('Collection', 'find_one_and_replace'): (_coll('find_one_and_replace', {'s': 'a'}, {'s': 'b'}),
                                             "{'s': 'a'}, {'s': 'b'}"),
    ('Collection', 'find_one_and_update'): (
        _coll('find_one_and_update', {'s': 'a'}, {'$set': {'z': 1}}),
        "{'s': 'a'}, {'$set': {'z': 1}}"),
    ('Collection', 'find_raw_batches'): (_coll('find_raw_batches'), ''),
    ('Collection', 'index_information'): (_coll('index_information'), ''),
    ('Collection', 'insert_many'): (_coll('insert_many', [{'s': 'n'}]), "[{'s': 'n'}]"),
    ('Collection', 'insert_one'): (_coll('insert_one', {'s': 'n'}), "{'s': 'n'}"),
    ('Collection', 'list_indexes'): (_coll('list_indexes'), ''),
    ('Collection', 'rename'): (_coll('rename', 'renamed'), "'renamed'"),
    ('Collection', 'replace_one'): (_coll('replace_one', {'s': 'a'}, {'s': 'b'}),
                                    "{'s': 'a'}, {'s': 'b'}"),
    ('Collection', 'update_many'): (_coll('update_many', {'s': 'a'}, {'$set': {'z': 1}}),
                                    "{'s': 'a'}, {'$set': {'z': 1}}"),
    ('Collection', 'update_one'): (_coll('update_one', {'s': 'a'}, {'$set': {'z': 1}}),
                                   "{'s': 'a'}, {'$set': {'z': 1}}"),
    ('Collection', 'initialize_ordered_bulk_op'): (_coll('initialize_ordered_bulk_op'), ''),
    ('Collection', 'initialize_unordered_bulk_op'): (_coll('initialize_unordered_bulk_op'), ''),
    ('Collection', 'with_options'): (_coll('with_options'), ''),
    ('Database', 'command'): (_db('command', 'ping'), "'ping'"),
    ('Database', 'create_collection'): (_db('create_collection', 'fresh'), "'fresh'"),
    ('Database', 'dereference'): (_db('dereference', FakeDBRef()), 'FakeDBRef()'),
    ('Database', 'drop_collection'): (_db('drop_collection', 'c'), "'c'"),
    ('Database', 'get_collection'): (_db('get_collection', 'c'), "'c'"),
    ('Database', 'list_collection_names'): (_db('list_collection_names'), ''),
    ('Database', 'list_collections'): (_db('list_collections'), ''),
    ('Database', 'rename_collection'): (_db('rename_collection', 'c', 'renamed'),
                                        "'c', 'renamed'"),
    ('Database', 'with_options'): (_db('with_options'), ''),
    ('Cursor', 'distinct'): (_cursor('distinct', 's'), "'s'"),
    ('Cursor', 'clone'): (_cursor('clone'), ''),
    ('Cursor', 'sort'): (_cursor('sort', 'a'), "'a'"),
    ('Cursor', 'limit'): (_cursor('limit', 1), '1'),
    ('Cursor', 'skip'): (_cursor('skip', 1), '1'),
    ('BulkOperationBuilder', 'add_update'): (
        _bulk('add_update', ({'s': 'a'}, {'$set': {'z': 1}})), "{'s': 'a'}, {'$set': {'z': 1}}"),
    ('BulkOperationBuilder', 'add_replace'): (
        _bulk('add_replace', ({'s': 'a'}, {'s': 'b'}, False)), "{'s': 'a'}, {'s': 'b'}, False"),
    ('BulkOperationBuilder', 'add_delete'): (
        _bulk('add_delete', ({'s': 'a'}, True)), "{'s': 'a'}, True"),
    ('BulkWriteOperation', 'update'): (_bulk_op('update', ({'$set': {'z': 1}},)),
                                       "{'$set': {'z': 1}}"),
    ('BulkWriteOperation', 'update_one'): (_bulk_op('update_one', ({'$set': {'z': 1}},)),
                                           "{'$set': {'z': 1}}"),
    ('BulkWriteOperation', 'replace_one'): (_bulk_op('replace_one', ({'s': 'b'},)), "{'s': 'b'}"),
    ('BulkWriteOperation', 'register_remove_op'): (_bulk_op('register_remove_op', (False,)),
                                                   'False'),
    ('BulkWriteOperation', 'register_update_op'): (
        _bulk_op('register_update_op', ({'$set': {'z': 1}}, False)), "{'$set': {'z': 1}}, False"),
}

RECEIVER = {'Collection': 'db.c', 'Database': 'db', 'Cursor': 'db.c.find({})',
            'BulkOperationBuilder': 'db.c.initialize_ordered_bulk_op()',
            'BulkWriteOperation': "db.c.initialize_ordered_bulk_op().find({'a': 1})"}

CLASSES = collections.OrderedDict([
    ('Collection', mm_collection.Collection),
    ('Database', mm_database.Database),
    ('Cursor', mm_collection.Cursor),
    ('BulkOperationBuilder', mm_collection.BulkOperationBuilder),
    ('BulkWriteOperation', mm_collection.BulkWriteOperation),
])


def public_methods():
    """-> [(class name, method name, [(option, named?)])] for the methods that accept an option"""
    out = []
    for cname, cls in CLASSES.items():
        for mname in sorted(dir(cls)):
            if mname.startswith('_'):
                continue
            fn = inspect.getattr_static(cls, mname)
            if not inspect.isfunction(fn):
                continue
            try:
                params = inspect.signature(fn).parameters
            except (TypeError, ValueError):
                continue
            has_kw = any(p.kind == p.VAR_KEYWORD for p in params.values())
            opts = []
            for o in OPTIONS:
                if o in params:
                    opts.append((o, True))
                elif has_kw:
                    opts.append((o, False))
            if opts:
                out.append((cname, mname, opts))
    return out


def call_code(cname, mname, opt, opted_out):
    argtext = BASE_CALLS.get((cname, mname), (None, '...'))[1]
    kw = '%s=%r' % (opt, option_value(opt))
    pre = "mongomock.ignore_feature(%r); " % opt if opted_out else ''
    return '%s%s.%s(%s)' % (pre, RECEIVER[cname], mname, ', '.join(x for x in (argtext, kw) if x))


class saved_features(object):
    def __enter__(self):
        self.saved = dict(mm_ni._IGNORED_FEATURES)
        return self

    def __exit__(self, *a):
        mm_ni._IGNORED_FEATURES.clear()
        mm_ni._IGNORED_FEATURES.update(self.saved)


def set_feature(opt, opted_out):
    for k in mm_ni._IGNORED_FEATURES:
        mm_ni._IGNORED_FEATURES[k] = False
    if opt in mm_ni._IGNORED_FEATURES:
        if opted_out:
            mm_ni.ignore_feature(opt)
        else:
            mm_ni.warn_on_feature(opt)


def probe_option(cname, mname, opt, named, opted_out):
    base = BASE_CALLS.get((cname, mname))
    entry = {'cls': cname, 'method': mname, 'option': opt, 'named': named,
             'write': mname in WRITE_METHODS, 'optedOut': opted_out,
             'call': call_code(cname, mname, opt, opted_out), 'reached': False}
    if base is None:
        entry['disp'] = 'unprobed'
        entry['why'] = 'no fixture for this method'
        return entry
    run = base[0]
    with saved_features():
        set_feature(opt, opted_out)
        try:
            run(fixture(), {})
        except Exception as e:  # pylint: disable=broad-except
            entry['disp'] = 'unprobed'
            entry['why'] = 'the call raises without the option: %s' % type(e).__name__
            return entry
        entry['reached'] = True
        try:
            run(fixture(), {opt: option_value(opt)})
            entry['disp'] = 'accepted'
        except NotImplementedError:
            entry['disp'] = 'raisesNotImplemented'
        except Exception as e:  # pylint: disable=broad-except
            entry['disp'] = 'raisesOther'
            entry['error'] = type(e).__name__
    return entry


def probe_options():
    entries = []
    with saved_features():
        for cname, mname, opts in public_methods():
            for opt, named in opts:
                for opted_out in ((False, True) if opt in IGNORABLE else (False,)):
                    entries.append(probe_option(cname, mname, opt, named, opted_out))
    return entries


def pair_call_code(cname, mname, a, b, a_opted_out):
    argtext = BASE_CALLS.get((cname, mname), (None, '...'))[1]
    kws = ', '.join('%s=%r' % (o, option_value(o)) for o in (a, b))
    pre = "mongomock.ignore_feature(%r); " % a if a_opted_out else ''
    return '%s%s.%s(%s)' % (pre, RECEIVER[cname], mname, ', '.join(x for x in (argtext, kws) if x))


def probe_pair(cname, mname, a, b, a_opted_out):
    """both options A and B present; A opted out with ignore_feature (or not), B never opted
    out: B must still be rejected, whatever A is"""
    entry = {'cls': cname, 'method': mname, 'a': a, 'b': b, 'write': mname in WRITE_METHODS,
             'aOptedOut': a_opted_out, 'call': pair_call_code(cname, mname, a, b, a_opted_out)}
    run = BASE_CALLS[(cname, mname)][0]
    with saved_features():
        set_feature(a, a_opted_out)          # every other feature (B included): not opted out
        try:
            run(fixture(), {a: option_value(a), b: option_value(b)})
            entry['disp'] = 'accepted'
        except NotImplementedError:
            entry['disp'] = 'raisesNotImplemented'
        except Exception as e:  # pylint: disable=broad-except
            entry['disp'] = 'raisesOther'
            entry['error'] = type(e).__name__
    return entry


def probe_pairs(singles=None):
    """for every method and every ordered pair (A, B) of distinct options it accepts: both
    present with neither opted out, and (A ignorable) both present with A opted out"""
    singles = singles if singles is not None else probe_options()
    probed = {(e['cls'], e['method']) for e in singles if e['disp'] != 'unprobed'}
    entries = []
    with saved_features():
        for cname, mname, opts in public_methods():
            if (cname, mname) not in probed:
                continue
            names = [o for o, _ in opts]
            for a in names:
                for b in names:
                    if a == b:
                        continue
                    for a_out in ((False, True) if a in IGNORABLE else (False,)):
                        entries.append(probe_pair(cname, mname, a, b, a_out))
    return entries


def probe_one_pair(cname, mname, a, b, a_opted_out):
    for c, m, opts in public_methods():
        if (c, m) == (cname, mname) and (c, m) in BASE_CALLS:
            names = [o for o, _ in opts]
            if a in names and b in names:
                return probe_pair(cname, mname, a, b, a_opted_out)
    return None


def probe_one(cname, mname, opt, opted_out):
    for c, m, opts in public_methods():
        if (c, m) == (cname, mname):
            for o, named in opts:
                if o == opt:
                    return probe_option(cname, mname, opt, named, opted_out)
    return None


def check_feature_switches():
    """direct statement of not_implemented.py: raise_for_feature raises NotImplementedError
    exactly when the feature is not opted out; unknown features are a KeyError.
    -> list of failures (empty when all is well)"""
    bad = []
    with saved_features():
        feats = list(mm_ni._IGNORED_FEATURES)
        for f in feats:
            for g in feats:
                for k in feats:
                    mm_ni._IGNORED_FEATURES[k] = False
                mm_ni.ignore_feature(f)
                try:
                    r = mm_ni.raise_for_feature(g, 'x')
                    raised = False
                except NotImplementedError:
                    raised = True
                    r = None
                if raised != (f != g) or (not raised and r is not False):
                    bad.append('after ignore_feature(%r), raise_for_feature(%r) %s'
                               % (f, g, 'raised' if raised else 'returned %r' % (r,)))
                mm_ni.warn_on_feature(f)
                try:
                    mm_ni.raise_for_feature(f, 'x')
                    bad.append('after warn_on_feature(%r), raise_for_feature did not raise' % f)
                except NotImplementedError:
                    pass
        for fn in (mm_ni.ignore_feature, mm_ni.warn_on_feature,
                   lambda x: mm_ni.raise_for_feature(x, 'r')):
            try:
                fn('no_such_feature')
                bad.append('unknown feature accepted')
            except KeyError:
                pass
    return bad, len(feats) * len(feats) * 2 + 3


if __name__ == '__main__':
    es = probe_options()
    hist = collections.Counter(e['disp'] for e in es)
    print(dict(hist), len(es))
    for e in es:
        print('%-22s %-26s %-14s named=%-5s out=%-5s %s %s' % (
            e['cls'], e['method'], e['option'], e['named'], e['optedOut'], e['disp'],
            e.get('error') or e.get('why') or ''))
    ps = probe_pairs(es)
    print(len(ps), 'pairs', dict(collections.Counter(e['disp'] for e in ps)))
    known_silent = {(e['cls'], e['method'], e['option']) for e in es
                    if not e['optedOut'] and e['disp'] == 'accepted'}
    for e in ps:
        if e['disp'] == 'accepted' and (e['b'] != 'hint' or e['write']) and \
                (e['cls'], e['method'], e['b']) not in known_silent:
            print('PAIR', e['call'])
    print(check_feature_switches())
    print(json.dumps(mm_ni._IGNORED_FEATURES))
