#!/bin/sh
# development: run checks against a scratch worktree carrying a seeded change
#   try_seed.sh <worktree> <tier> <ID>...
wt=$1; tier=$2; shift 2
cd /verif
for id in "$@"; do
  out=$(VERIF_DEV_REPO=$wt PYTHONPATH=$wt ./check $id --tier $tier 2>&1 | grep -v KNOWN-FINDING | head -4)
  echo "== $id ($tier): $(echo "$out" | head -1)"
done
git -C /verif checkout -- lean/Generated 2>/dev/null
git -C /verif checkout -- evidence 2>/dev/null   # a dev run against a scratch tree must not leave its evidence behind
