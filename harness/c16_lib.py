"""C16 — observations on the real code (and the same observations asked of the model).

A *query* is one of
    ('run', n, state, coll, pipeline)   run `db[coll].aggregate(P)` n times with the SAME pipeline
                                        object P on a freshly built database
    ('proc', state, coll, prefix, P)    `aggregate.process_pipeline(docs, db, P, None)` on a fresh db,
                                        docs = the objects `db[coll].aggregate(prefix)` returns
    ('stagein', state, coll, prefix, P) the same, and what the documents it was HANDED look like
                                        afterwards (`input`; `input_before` = a deep copy taken
                                        before the call)
and its *answer* a JSON-able dict; both sides (python, model) answer in the same notation
(wire strings), so that the oracles below can be evaluated on either.
"""
import copy
import warnings

import mongomock
from mongomock import aggregate as mm_aggregate
from mongomock import ObjectId

import wire


class ZeroOids(object):
    """every ObjectId is written O0: generated ids are never compared"""

    def num(self, o):
        return 0

    def make(self, n):
        return ('O', n)


ZO = ZeroOids()
COLLS = ('a', 'b', 'c')


def encs(v):
    if cyclic(v):
        # `$addFields: {'a.w': '$a'}` stores the sub-document into itself (a value-level defect
        # of the stage, outside C16): not encodable, counted
        raise wire.Unencodable('cyclic value')
    return wire.encs(v, ZO)


def build(state, tz_aware=False):
    db = (mongomock.MongoClient(tz_aware=True) if tz_aware else mongomock.MongoClient()).db
    for name in COLLS:
        docs = state.get(name)
        if docs:
            db[name].insert_many(copy.deepcopy(docs))
    for cname, key in state.get('indexes', []):
        db[cname].create_index(key)
    return db


def raw_docs(db, name):
    cs = db._store._collections.get(name)
    if cs is None:
        return []
    return list(cs._documents.values())


def snapshot(db):
    """everything the property says an aggregation must not change"""
    try:
        return _snapshot(db)
    except RecursionError:
        # a stored document was made cyclic: certainly not what it was
        return {'names': None, 'a': object(), 'b': object(), 'c': object(), 'cyclic': True}


def _snapshot(db):
    snap = {'names': sorted(db.list_collection_names())}
    for name in COLLS:
        raw = raw_docs(db, name)
        snap[name] = {
            'raw': copy.deepcopy(raw),
            'raw_ids': [id(d) for d in raw],
            'find': list(db[name].find()),
            'indexes': copy.deepcopy(db[name].index_information()),
        }
    return snap


def container_ids(v, acc=None):
    acc = acc if acc is not None else []
    if isinstance(v, dict):
        acc.append(id(v))
        for x in v.values():
            container_ids(x, acc)
    elif isinstance(v, list):
        acc.append(id(v))
        for x in v:
            container_ids(x, acc)
    return acc


def outcome(fn):
    try:
        with warnings.catch_warnings():
            warnings.simplefilter('ignore')
            return list(fn())
    except Exception as ex:  # pylint: disable=broad-except
        return ex


def cyclic(v, stack=()):
    if isinstance(v, (dict, list)):
        if id(v) in stack:
            return True
        stack = stack + (id(v),)
        return any(cyclic(x, stack) for x in (v.values() if isinstance(v, dict) else v))
    return False


def show(res):
    if isinstance(res, Exception):
        return '!' + wire.err_name(res)
    return encs(res)


def scribble(v):
    """edit every container of a returned value in place"""
    if isinstance(v, dict) and '__scribble' in v:
        return
    if isinstance(v, dict):
        for x in list(v.values()):
            scribble(x)
        v['__scribble'] = 1
    elif isinstance(v, list):
        for x in v:
            scribble(x)
        v.append('__scribble')


def py_run(n, state, coll, pipeline):
    """n runs with one pipeline object; returns the answer dict and python-only observations"""
    db = build(state)
    p = copy.deepcopy(pipeline)
    before = snapshot(db)
    ids_before = container_ids(p)
    results, pipes, shown = [], [], []
    for _ in range(n):
        res = outcome(lambda: db[coll].aggregate(p))
        results.append(res)
        shown.append(show(res))            # rendered at once: later runs may edit shared objects
        pipes.append(encs(p))
    after = snapshot(db)
    if 'cyclic' in after:
        ans = {'res': shown, 'pipes': pipes, 'store': ['[ ]'] * 3}
        return ans, {'store_same': {c: False for c in COLLS}, 'names_same': False,
                     'pipe_ids_same': True, 'raw_eq_find': True, 'scribble_safe': True}
    ans = {'res': shown, 'pipes': pipes,
           'store': [encs(after[c]['find']) for c in COLLS]}
    extra = {'store_same': {c: before[c] == after[c] for c in COLLS},
             'names_same': before['names'] == after['names'],
             'pipe_ids_same': container_ids(p) == ids_before,
             'raw_eq_find': all(after[c]['raw'] == after[c]['find'] for c in COLLS)}
    # aliasing probe: editing what was returned must not reach the store
    for res in results:
        if not isinstance(res, Exception):
            scribble(res)
    extra['scribble_safe'] = snapshot(db) == after
    return ans, extra


def py_tz_run(state, coll, pipeline):
    """the pipeline on a tz_aware twin of the database: the results are a REBUILD — no dict or
    list occurs twice in them, none is an object of the caller's pipeline, and they equal what
    the plain database returns (the generated values hold no datetimes)"""
    db = build(state, tz_aware=True)
    p = copy.deepcopy(pipeline)
    pipe_ids = set(container_ids(p))
    res = outcome(lambda: db[coll].aggregate(p))
    if isinstance(res, Exception):
        return {'res': show(res), 'separate': True, 'pipe_same': encs(p) == encs(pipeline)}
    ids = container_ids(res)
    return {'res': show(res), 'separate': len(ids) == len(set(ids)) and not (set(ids) & pipe_ids),
            'pipe_same': encs(p) == encs(pipeline)}


def py_proc(state, coll, prefix, pipeline):
    """the sub-pipeline alone on the output of `prefix` (the very objects, sharing included)"""
    db = build(state)
    inp = outcome(lambda: db[coll].aggregate(copy.deepcopy(prefix)))
    if isinstance(inp, Exception):
        return {'res': [show(inp)]}
    res = outcome(lambda: mm_aggregate.process_pipeline(inp, db, copy.deepcopy(pipeline), None))
    return {'res': [show(res)]}


def py_stagein(state, coll, prefix, pipeline):
    """the sub-pipeline alone on the output of `prefix`, and its input documents afterwards"""
    db = build(state)
    inp = outcome(lambda: db[coll].aggregate(copy.deepcopy(prefix)))
    if isinstance(inp, Exception):
        return {'res': [show(inp)]}
    before = encs(inp)
    ids = [id(d) for d in inp]
    res = outcome(lambda: mm_aggregate.process_pipeline(inp, db, copy.deepcopy(pipeline), None))
    shown = show(res)
    return {'res': [shown], 'input': encs(inp), 'input_before': before,
            'input_ids_same': [id(d) for d in inp] == ids}


def stagein_line(state, coll, prefix, pipeline):
    return 'c16 stagein %s %s %s %s' % (coll, encs([state.get(c) or [] for c in COLLS]),
                                        encs(prefix), encs(pipeline))


def parse_stagein(line):
    """driver answer of `stagein`: res | input"""
    if line.startswith('?') or line.startswith('!?'):
        return None
    parts = [x.strip() for x in line.split('|')]
    if len(parts) == 1:
        return {'res': [parts[0]]}
    return {'res': [parts[0]], 'input': parts[1]}


def index_through_unwound(stage, docs=None):
    """`$unwind` whose includeArrayIndex is a dotted name that goes through the unwound field
    itself, on input documents (`docs`; None = any) that hold a SUB-DOCUMENT there: a value that
    is no array is re-attached to the output document as it is, and `_set_index` then enters it —
    an object of the stage's input.  (Array elements are the output document's own copies.)
    Outside the heap model, and not judged for input-unchanged."""
    for op, opts in stage.items():
        if op == '$unwind' and isinstance(opts, dict):
            ix, path = opts.get('includeArrayIndex'), opts.get('path')
            if isinstance(ix, str) and isinstance(path, str) and '.' in ix and \
                    ix.split('.')[0] == path[1:].split('.')[0]:
                if docs is None:
                    return True
                key = path[1:].split('.')[0]
                return any(isinstance(d, dict) and isinstance(d.get(key), dict) for d in docs)
    return False


def run_line(n, state, coll, pipeline):
    return 'c16 run %d %s %s %s' % (n, coll, encs([state.get(c) or [] for c in COLLS]),
                                    encs(pipeline))


def proc_line(state, coll, prefix, pipeline):
    return 'c16 proc %s %s %s %s' % (coll, encs([state.get(c) or [] for c in COLLS]),
                                     encs(prefix), encs(pipeline))


def parse_model(line):
    """driver answer: fields separated by ' | ': res… ; pipes… ; store…"""
    if line.startswith('?') or line.startswith('!?'):
        return None
    parts = [x.strip() for x in line.split('|')]
    k = (len(parts) - 3) // 2 if len(parts) > 1 else 0
    if len(parts) == 1:
        return {'res': [parts[0]]}
    return {'res': parts[:k], 'pipes': parts[k:2 * k], 'store': parts[2 * k:2 * k + 3]}


def unmodelled(ans):
    return ans is None or any(r.startswith('!?') for r in ans['res'])


# ------------------------------------------------------------------------------------------
# syntax helpers

def ops_of(p, acc=None):
    acc = acc if acc is not None else []
    for st in p:
        for op, opts in st.items():
            acc.append(op)
            if op == '$facet' and isinstance(opts, dict):
                for sub in opts.values():
                    ops_of(sub, acc)
    return acc


def reads_of(p, coll):
    """collections the pipeline reads"""
    acc = {coll}
    for st in p:
        for op, opts in st.items():
            if op in ('$lookup', '$graphLookup') and isinstance(opts, dict):
                acc.add(opts.get('from'))
            if op == '$facet':
                for sub in opts.values():
                    acc |= reads_of(sub, coll)
    return acc


def first_op(stage):
    """the operator of a stage document (None for `{}`)"""
    return next(iter(stage), None)


def out_target(p):
    if p and list(p[-1].keys()) == ['$out']:
        return p[-1]['$out']
    return None


def has_nested_write(stages):
    """NAMES the former class a `$facet` difference would belong to: does a (sub-)pipeline contain
    `$lookup` (writes doc[as] into the document it was handed; harmless only because every
    sub-pipeline works on its own copy) or `$addFields`/`$set` on a dotted path (which used to
    descend into the shared sub-document; it copies every level now).  Both classes are repaired:
    a named difference is a VIOLATION."""
    for st in stages:
        for op, opts in st.items():
            if op == '$lookup':
                return 'facet-sibling-lookup'
            if op in ('$addFields', '$set') and any('.' in k for k in opts):
                return 'facet-sibling-nested-addfields'
            if op == '$facet':
                for sub in opts.values():
                    r = has_nested_write(sub)
                    if r:
                        return r
    return None


def diff_paths(a, b, path=()):
    """paths at which two JSON-like values differ"""
    if isinstance(a, dict) and isinstance(b, dict):
        out = []
        for k in list(a.keys()) + [k for k in b if k not in a]:
            if k not in a or k not in b:
                out.append(path + (k,))
            else:
                out += diff_paths(a[k], b[k], path + (k,))
        if not out and list(a.keys()) != list(b.keys()):
            out.append(path)
        return out
    if isinstance(a, list) and isinstance(b, list):
        if len(a) != len(b):
            return [path]
        out = []
        for i, (x, y) in enumerate(zip(a, b)):
            out += diff_paths(x, y, path + (i,))
        return out
    return [] if (a == b and type(a) is type(b)) else [path]


def classify_pipe_diff(orig, now):
    """names of the known classes that explain how the caller's pipeline changed
    (None in the list = an unexplained change)"""
    classes = set()
    for path in diff_paths(orig, now):
        if '$sample' in path and path[-1] == 'size' and path[-2] == '$sample':
            classes.add('sample-pops-size')
        elif '$literal' in path:
            classes.add('literal-written')
        else:
            classes.add(None)
    return classes


def ops_of_expr(p):
    """every `$…` key anywhere in a pipeline (stage names and expression operators)"""
    acc = []

    def walk(v):
        if isinstance(v, dict):
            for k, x in v.items():
                if isinstance(k, str) and k.startswith('$'):
                    acc.append(k)
                walk(x)
        elif isinstance(v, list):
            for x in v:
                walk(x)
    walk(p)
    return acc
