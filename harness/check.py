"""./check <id> [--tier quick|thorough] [--replay file]   (see DESIGN.md §3 and §6)"""
import argparse
import importlib
import os
import sys
import traceback

HERE = os.path.dirname(os.path.abspath(__file__))
sys.path.insert(0, HERE)

import common  # noqa: E402
import wire  # noqa: E402


def main():
    ap = argparse.ArgumentParser()
    ap.add_argument('prop')
    ap.add_argument('--tier', default=os.environ.get('VERIF_TIER') or 'quick',
                    choices=['quick', 'thorough'])
    ap.add_argument('--replay')
    args = ap.parse_args()
    seed = int(os.environ.get('VERIF_SEED') or 0)
    prop = args.prop.upper()
    ctx = common.Ctx(prop, args.tier, seed)
    try:
        wire.assert_repo()
        mod = importlib.import_module('props.' + prop.lower())
        if args.replay:
            sys.exit(mod.replay(ctx, args.replay))
        if hasattr(mod, 'regenerate'):
            mod.regenerate(ctx)
        proof = common.proof_step(ctx, getattr(mod, 'EXTRA_TARGETS', ()))
        driver_ok = os.path.exists(wire.DRIVER) and not (
            proof.get('broken') == 'lake build failed')
        pycov = common.PyCoverage(prop)
        pycov.start()
        cov = mod.run(ctx, proof, driver_ok)
        measured = pycov.stop()
        if measured is not None:
            cov['python_line_coverage_of_anchor_files'] = measured
        if not proof['ok'] and not ctx.violations:
            ctx.violation({'kind': 'proof step broken, no failing input found',
                           'what_no_longer_checks': proof.get('broken'),
                           'theorems': common.theorems_of(prop) if os.path.exists(
                               os.path.join(common.LEAN, 'Props', prop + '.lean')) else [],
                           'log_tail': proof.get('log', '')[-1500:]}, no_input=True)
        for e in common.load_known(prop):
            if e.get('status') != 'known':
                continue
            still = mod.replay_finding(ctx, e)
            if still:
                print('KNOWN-FINDING: property=%s %s: %s' % (prop, e['id'], e['what']))
            else:
                ctx.notes.append('known finding %s no longer reproduces' % e['id'])
        cov['notes'] = ctx.notes[:50]
        cov['known_findings_seen'] = ctx.known_seen
        common.write_evidence(ctx, proof, cov, getattr(mod, 'ASSUMPTIONS', ()))
        sys.exit(common.finish(ctx))
    except SystemExit:
        raise
    except Exception:
        traceback.print_exc()
        print('INTERNAL-ERROR property=%s (not a verdict)' % prop)
        sys.exit(2)


if __name__ == '__main__':
    main()
