"""Generators and the Python-side oracle for C18 (datetimes are UTC milliseconds on every path).

Everything random comes from the random.Random passed in.  Datetimes: naive or aware with a fixed
offset of -12h..+14h in 15 minute steps, arbitrary microseconds, before and after 1970, with a
bias towards millisecond boundaries and the epoch.  `Nest` puts a value at a generated nesting
position (documents, OrderedDicts, lists, tuples, with filler siblings) and knows the dotted path
that reaches it.
"""
import collections
import datetime as _dt

import wire
from wire import EPOCH


class FixedOffset(wire.FixedOffset):
    """wire.FixedOffset that survives copy.deepcopy / pickle (tzinfo.__reduce__ would call
    __init__ without arguments; mongomock deep-copies documents in several places)"""

    def __reduce__(self):
        return (FixedOffset, (self._m,))


OFFSETS = list(range(-720, 841, 15))          # minutes: -12:00 .. +14:00
KEYS = ['p', 'q', 'r']
US_MIN = -2208988800000000                    # 1900-01-01
US_MAX = 4102444800000000                     # 2100-01-01
FAR_MS = 7258118400000                        # 2200-01-01, never generated: decoys live there


def _us(delta):
    return (delta.days * 86400 + delta.seconds) * 1000000 + delta.microseconds


# -- the oracle: what the property says, written directly ---------------------------------------

def utc_us(d):
    """UTC instant of a datetime in microseconds since the epoch"""
    us = _us(d.replace(tzinfo=None) - EPOCH)
    if d.tzinfo is not None:
        us -= _us(d.utcoffset())
    return us


def ms_of(d):
    """the millisecond (UTC, since the epoch, floor) the datetime denotes"""
    return utc_us(d) // 1000


def from_ms(ms):
    return EPOCH + _dt.timedelta(microseconds=ms * 1000)


def is_normal(d):
    return d.tzinfo is None and d.microsecond % 1000 == 0


def is_aware_utc(d):
    return d.tzinfo is not None and d.utcoffset() == _dt.timedelta(0)


def dates_of(v):
    """every datetime in v, pre-order, left to right"""
    if isinstance(v, dict):
        out = []
        for x in v.values():
            out.extend(dates_of(x))
        return out
    if isinstance(v, (list, tuple)):
        out = []
        for x in v:
            out.extend(dates_of(x))
        return out
    if isinstance(v, _dt.datetime):
        return [v]
    return []


def spec_patch(v):
    """the stored form the property demands: same shape, every datetime naive UTC, floored to ms"""
    if isinstance(v, collections.OrderedDict):
        return collections.OrderedDict((k, spec_patch(x)) for k, x in v.items())
    if isinstance(v, dict):
        return {k: spec_patch(x) for k, x in v.items()}
    if isinstance(v, (list, tuple)):
        return [spec_patch(x) for x in v]
    if isinstance(v, _dt.datetime):
        return from_ms(ms_of(v))
    return v


UTC0 = FixedOffset(0)


def spec_aware(v):
    """what a tz_aware reader must get for a *stored* (naive) value: same instants, aware UTC"""
    if isinstance(v, dict):
        return {k: spec_aware(x) for k, x in v.items()}
    if isinstance(v, (list, tuple)):
        return [spec_aware(x) for x in v]
    if isinstance(v, _dt.datetime):
        return (EPOCH + _dt.timedelta(microseconds=utc_us(v))).replace(tzinfo=UTC0)
    return v


def has_tuple(v):
    if isinstance(v, tuple):
        return True
    if isinstance(v, dict):
        return any(has_tuple(x) for x in v.values())
    if isinstance(v, list):
        return any(has_tuple(x) for x in v)
    return False


def get_path(v, comps):
    for c in comps:
        if isinstance(v, (list, tuple)):
            v = v[int(c)]
        else:
            v = v[c]
    return v


# -- datetimes ----------------------------------------------------------------------------------

class DateGen(object):
    def __init__(self, rng):
        self.r = rng

    def instant_us(self):
        """a UTC instant in µs"""
        x = self.r.random()
        if x < 0.35:
            return self.r.randrange(0, US_MAX)
        if x < 0.55:
            return self.r.randrange(US_MIN, 0)
        if x < 0.75:                      # around the epoch
            return self.r.randrange(-3000000, 3000000)
        ms = self.r.randrange(US_MIN // 1000, US_MAX // 1000)   # on / next to a ms boundary
        return ms * 1000 + self.r.choice([0, 0, 1, 500, 999])

    def offset(self):
        x = self.r.random()
        if x < 0.3:
            return None
        if x < 0.4:
            return 0
        if x < 0.6:
            return self.r.choice([-720, -300, -60, 60, 330, 345, 525, 840])
        return self.r.choice(OFFSETS)

    def at(self, us, off):
        """the datetime denoting UTC instant `us` written with offset `off` (None = naive)"""
        if off is None:
            return EPOCH + _dt.timedelta(microseconds=us)
        return (EPOCH + _dt.timedelta(microseconds=us + off * 60000000)).replace(
            tzinfo=FixedOffset(off))

    def date(self):
        return self.at(self.instant_us(), self.offset())

    def equivalent(self, d):
        """another datetime denoting the same millisecond: other offset, other sub-ms part"""
        ms = ms_of(d)
        for _ in range(20):
            e = self.at(ms * 1000 + self.r.randrange(1000), self.offset())
            if e != d or e.tzinfo != d.tzinfo or self.r.random() < 0.05:
                return e
        return e

    def other(self, d):
        """a datetime denoting another millisecond — mostly the adjacent one"""
        ms = ms_of(d)
        delta = self.r.choice([-1, 1, -1, 1, -2, 2, 1000, -60000, 3600000])
        x = self.r.random()
        sub = 999 if (delta == -1 and x < 0.5) else 0 if (delta == 1 and x < 0.5) \
            else self.r.randrange(1000)
        return self.at((ms + delta) * 1000 + sub, self.offset())

    def far(self):
        """a decoy far away from everything generated"""
        return self.at((FAR_MS + self.r.randrange(1000)) * 1000 + self.r.randrange(1000),
                       self.offset())


def nontrivial_date(d):
    return (d.tzinfo is not None and d.utcoffset() != _dt.timedelta(0)) or d.microsecond % 1000 != 0


# -- nesting positions --------------------------------------------------------------------------

class Nest(object):
    """a nesting position: wrap(x) builds the value with x inside, path are the components
    (keys / indexes) leading to x"""

    def __init__(self, rng, depth, dg, tuples=True, decoy_dates=True):
        self.layers = []
        for _ in range(depth):
            kind = rng.choice(['doc', 'doc', 'arr', 'arr', 'odoc', 'tup'] if tuples
                              else ['doc', 'doc', 'arr', 'arr', 'odoc'])
            if kind in ('doc', 'odoc'):
                key = rng.choice(KEYS)
                others = [k for k in KEYS if k != key]
                before = [(k, self._filler(rng, dg, decoy_dates)) for k in others
                          if rng.random() < 0.3]
                after = [(k, self._filler(rng, dg, decoy_dates)) for k in others
                         if k not in dict(before) and rng.random() < 0.3]
                self.layers.append((kind, key, before, after))
            else:
                n = rng.choice([1, 1, 2, 3])
                i = rng.randrange(n)
                fill = [self._filler(rng, dg, decoy_dates) for _ in range(n)]
                self.layers.append((kind, i, fill, None))

    @staticmethod
    def _filler(rng, dg, decoy_dates):
        x = rng.random()
        if decoy_dates and x < 0.25:
            return dg.far()
        return rng.choice([None, 0, 1, 'a', 'b', True, 1.5])

    def wrap(self, x, plain=False):
        """plain=True: dict instead of OrderedDict, list instead of tuple"""
        for kind, a, b, c in reversed(self.layers):
            if kind in ('doc', 'odoc'):
                items = list(b) + [(a, x)] + list(c)
                x = collections.OrderedDict(items) if (kind == 'odoc' and not plain) else dict(items)
            else:
                l = list(b)
                l[a] = x
                x = tuple(l) if (kind == 'tup' and not plain) else l
        return x

    @property
    def path(self):
        return [str(a) for kind, a, _, _ in self.layers]

    @property
    def depth(self):
        return len(self.layers)

    def signature(self):
        return ''.join(k[0] for k, _, _, _ in self.layers)


# -- values for the helper correspondence -------------------------------------------------------

class ValueGen(object):
    def __init__(self, rng, oids):
        self.r = rng
        self.dg = DateGen(rng)
        self.oids = oids

    def leaf(self):
        x = self.r.random()
        if x < 0.55:
            return self.dg.date()
        return self.r.choice([None, True, False, 0, 1, -2, 1.5, -0.25, '', 'a', 'ab',
                              self.oids.make(self.r.randrange(3))])

    def value(self, depth):
        x = self.r.random()
        if depth <= 0 or x < 0.3:
            return self.leaf()
        if x < 0.65:
            n = self.r.choice([0, 1, 2, 3])
            keys = self.r.sample(['a', 'b', 'c', 'd', '_id', '$gt', 'a.b'], n)
            items = [(k, self.value(depth - 1)) for k in keys]
            return collections.OrderedDict(items) if self.r.random() < 0.2 else dict(items)
        n = self.r.choice([0, 1, 2, 3])
        items = [self.value(depth - 1) for _ in range(n)]
        return tuple(items) if self.r.random() < 0.25 else items
