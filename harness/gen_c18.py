"""Generators and the Python-side oracle for C18 (datetimes are UTC milliseconds on every path).

Everything random comes from the random.Random passed in.  Datetimes: naive or aware with a fixed
offset of -12h..+14h in 15 minute steps, arbitrary microseconds, before and after 1970, with a
bias towards millisecond boundaries and the epoch.  `Nest` puts a value at a generated nesting
position (documents, OrderedDicts, lists, tuples, with filler siblings) and knows the dotted path
that reaches it.

Aggregation pipelines (follows the repair d1da933, "aggregate reads a datetime written in the
pipeline as UTC milliseconds"): `VALUE_POSITIONS` puts a nested value holding a datetime at every
position of a pipeline where a value can be written ($addFields / $set / $project+$literal /
expression operands / $group keys and accumulator arguments / $facet sub-pipelines / $replaceRoot /
$unwind of a written array / $out); `COMPARE_POSITIONS` compares a stored field with a written
datetime ($eq .. $lte in both operand orders, $match+$expr, $match on a written field, $in,
$subtract, $max / $min, $filter, $setUnion, $bucket boundaries, $lookup and
$graphLookup on a written value); `COMPUTED_POSITIONS` (follows e05c961 / 8825a6b) lets the
pipeline compute datetimes ($dateFromParts with millisecond carry, $add / $subtract of a date) and
compares them with stored and written ones, groups by them, joins on them, stores them.
"""
import collections
import datetime as _dt

import wire
from wire import EPOCH


class FixedOffset(wire.FixedOffset):
    """wire.FixedOffset that survives copy.deepcopy / pickle (tzinfo.__reduce__ would call
    __init__ without arguments; mongomock deep-copies documents in several places)"""

    def __reduce__(self):
        return (FixedOffset, (self._m,))


OFFSETS = list(range(-720, 841, 15))          # minutes: -12:00 .. +14:00
KEYS = ['p', 'q', 'r']
US_MIN = -2208988800000000                    # 1900-01-01
US_MAX = 4102444800000000                     # 2100-01-01
FAR_MS = 7258118400000                        # 2200-01-01, never generated: decoys live there


def _us(delta):
    return (delta.days * 86400 + delta.seconds) * 1000000 + delta.microseconds


# -- the oracle: what the property says, written directly ---------------------------------------

def utc_us(d):
    """UTC instant of a datetime in microseconds since the epoch"""
    us = _us(d.replace(tzinfo=None) - EPOCH)
    if d.tzinfo is not None:
        us -= _us(d.utcoffset())
    return us


def ms_of(d):
    """the millisecond (UTC, since the epoch, floor) the datetime denotes"""
    return utc_us(d) // 1000


def from_ms(ms):
    return EPOCH + _dt.timedelta(microseconds=ms * 1000)


def is_normal(d):
    return d.tzinfo is None and d.microsecond % 1000 == 0


def is_aware_utc(d):
    return d.tzinfo is not None and d.utcoffset() == _dt.timedelta(0)


def dates_of(v):
    """every datetime in v, pre-order, left to right"""
    if isinstance(v, dict):
        out = []
        for x in v.values():
            out.extend(dates_of(x))
        return out
    if isinstance(v, (list, tuple)):
        out = []
        for x in v:
            out.extend(dates_of(x))
        return out
    if isinstance(v, _dt.datetime):
        return [v]
    return []


def spec_patch(v):
    """the stored form the property demands: same shape, every datetime naive UTC, floored to ms"""
    if isinstance(v, collections.OrderedDict):
        return collections.OrderedDict((k, spec_patch(x)) for k, x in v.items())
    if isinstance(v, dict):
        return {k: spec_patch(x) for k, x in v.items()}
    if isinstance(v, (list, tuple)):
        return [spec_patch(x) for x in v]
    if isinstance(v, _dt.datetime):
        return from_ms(ms_of(v))
    return v


UTC0 = FixedOffset(0)


def spec_aware(v):
    """what a tz_aware reader must get for a *stored* (naive) value: same instants, aware UTC"""
    if isinstance(v, dict):
        return {k: spec_aware(x) for k, x in v.items()}
    if isinstance(v, (list, tuple)):
        return [spec_aware(x) for x in v]
    if isinstance(v, _dt.datetime):
        return (EPOCH + _dt.timedelta(microseconds=utc_us(v))).replace(tzinfo=UTC0)
    return v


def has_tuple(v):
    if isinstance(v, tuple):
        return True
    if isinstance(v, dict):
        return any(has_tuple(x) for x in v.values())
    if isinstance(v, list):
        return any(has_tuple(x) for x in v)
    return False


def get_path(v, comps):
    for c in comps:
        if isinstance(v, (list, tuple)):
            v = v[int(c)]
        else:
            v = v[c]
    return v


# -- datetimes ----------------------------------------------------------------------------------

class DateGen(object):
    def __init__(self, rng):
        self.r = rng

    def instant_us(self):
        """a UTC instant in µs"""
        x = self.r.random()
        if x < 0.35:
            return self.r.randrange(0, US_MAX)
        if x < 0.55:
            return self.r.randrange(US_MIN, 0)
        if x < 0.75:                      # around the epoch
            return self.r.randrange(-3000000, 3000000)
        ms = self.r.randrange(US_MIN // 1000, US_MAX // 1000)   # on / next to a ms boundary
        return ms * 1000 + self.r.choice([0, 0, 1, 500, 999])

    def offset(self):
        x = self.r.random()
        if x < 0.3:
            return None
        if x < 0.4:
            return 0
        if x < 0.6:
            return self.r.choice([-720, -300, -60, 60, 330, 345, 525, 840])
        return self.r.choice(OFFSETS)

    def at(self, us, off):
        """the datetime denoting UTC instant `us` written with offset `off` (None = naive)"""
        if off is None:
            return EPOCH + _dt.timedelta(microseconds=us)
        return (EPOCH + _dt.timedelta(microseconds=us + off * 60000000)).replace(
            tzinfo=FixedOffset(off))

    def date(self):
        return self.at(self.instant_us(), self.offset())

    def equivalent(self, d):
        """another datetime denoting the same millisecond: other offset, other sub-ms part"""
        ms = ms_of(d)
        for _ in range(20):
            e = self.at(ms * 1000 + self.r.randrange(1000), self.offset())
            if e != d or e.tzinfo != d.tzinfo or self.r.random() < 0.05:
                return e
        return e

    def other(self, d):
        """a datetime denoting another millisecond — mostly the adjacent one"""
        ms = ms_of(d)
        delta = self.r.choice([-1, 1, -1, 1, -2, 2, 1000, -60000, 3600000])
        x = self.r.random()
        sub = 999 if (delta == -1 and x < 0.5) else 0 if (delta == 1 and x < 0.5) \
            else self.r.randrange(1000)
        return self.at((ms + delta) * 1000 + sub, self.offset())

    def far(self):
        """a decoy far away from everything generated"""
        return self.at((FAR_MS + self.r.randrange(1000)) * 1000 + self.r.randrange(1000),
                       self.offset())


def nontrivial_date(d):
    return (d.tzinfo is not None and d.utcoffset() != _dt.timedelta(0)) or d.microsecond % 1000 != 0


# -- nesting positions --------------------------------------------------------------------------

class Nest(object):
    """a nesting position: wrap(x) builds the value with x inside, path are the components
    (keys / indexes) leading to x"""

    def __init__(self, rng, depth, dg, tuples=True, decoy_dates=True):
        self.layers = []
        for _ in range(depth):
            kind = rng.choice(['doc', 'doc', 'arr', 'arr', 'odoc', 'tup'] if tuples
                              else ['doc', 'doc', 'arr', 'arr', 'odoc'])
            if kind in ('doc', 'odoc'):
                key = rng.choice(KEYS)
                others = [k for k in KEYS if k != key]
                before = [(k, self._filler(rng, dg, decoy_dates)) for k in others
                          if rng.random() < 0.3]
                after = [(k, self._filler(rng, dg, decoy_dates)) for k in others
                         if k not in dict(before) and rng.random() < 0.3]
                self.layers.append((kind, key, before, after))
            else:
                n = rng.choice([1, 1, 2, 3])
                i = rng.randrange(n)
                fill = [self._filler(rng, dg, decoy_dates) for _ in range(n)]
                self.layers.append((kind, i, fill, None))

    @staticmethod
    def _filler(rng, dg, decoy_dates):
        x = rng.random()
        if decoy_dates and x < 0.25:
            return dg.far()
        return rng.choice([None, 0, 1, 'a', 'b', True, 1.5])

    def wrap(self, x, plain=False):
        """plain=True: dict instead of OrderedDict, list instead of tuple"""
        for kind, a, b, c in reversed(self.layers):
            if kind in ('doc', 'odoc'):
                items = list(b) + [(a, x)] + list(c)
                x = collections.OrderedDict(items) if (kind == 'odoc' and not plain) else dict(items)
            else:
                l = list(b)
                l[a] = x
                x = tuple(l) if (kind == 'tup' and not plain) else l
        return x

    @property
    def path(self):
        return [str(a) for kind, a, _, _ in self.layers]

    @property
    def depth(self):
        return len(self.layers)

    def signature(self):
        return ''.join(k[0] for k, _, _, _ in self.layers)


# -- values for the helper correspondence -------------------------------------------------------

class ValueGen(object):
    def __init__(self, rng, oids):
        self.r = rng
        self.dg = DateGen(rng)
        self.oids = oids

    def leaf(self):
        x = self.r.random()
        if x < 0.55:
            return self.dg.date()
        return self.r.choice([None, True, False, 0, 1, -2, 1.5, -0.25, '', 'a', 'ab',
                              self.oids.make(self.r.randrange(3))])

    def value(self, depth):
        x = self.r.random()
        if depth <= 0 or x < 0.3:
            return self.leaf()
        if x < 0.65:
            n = self.r.choice([0, 1, 2, 3])
            keys = self.r.sample(['a', 'b', 'c', 'd', '_id', '$gt', 'a.b'], n)
            items = [(k, self.value(depth - 1)) for k in keys]
            return collections.OrderedDict(items) if self.r.random() < 0.2 else dict(items)
        n = self.r.choice([0, 1, 2, 3])
        items = [self.value(depth - 1) for _ in range(n)]
        return tuple(items) if self.r.random() < 0.25 else items


# -- aggregation pipelines: a datetime written at every position --------------------------------

CMP_OPS = ['$eq', '$ne', '$gt', '$gte', '$lt', '$lte']


def spec_read(v, tz):
    """what a client with this tz_aware setting is to see for a value that was written: the
    stored form (spec_patch), aware UTC at every depth under tz_aware=True"""
    v = spec_patch(v)
    return spec_aware(v) if tz else v


def is_read_form(d, tz):
    return d.microsecond % 1000 == 0 and (is_aware_utc(d) if tz else d.tzinfo is None)


def cmp_ms(op, a, b):
    return {'$eq': a == b, '$ne': a != b, '$gt': a > b, '$gte': a >= b, '$lt': a < b,
            '$lte': a <= b}[op]


def _by_id(res, i):
    return [x for x in res if x.get('_id') == i]


# The collection `c` of an aggregation case holds
#     {_id: 1, k: 'x', f: <stored datetime>, u: [<stored datetime>, 1]}
#     {_id: 2, k: 'x', f: <decoy, year 2200>, u: []}
# and the collection `o` (for $lookup / $graphLookup) {_id: 5, f: <stored>}, {_id: 6, f: <decoy>}.
#
# A value position: build(L, L2) -> (pipeline, locate); L, L2 are written values (any nesting);
# locate(result, client) -> [(found, written)]: `found` must be the read form of `written`
# ('$out': the stored form, looked up in the raw store).

def _vp_add_fields(L, L2):
    return [{'$addFields': {'l': L}}], lambda res, cl: [(x.get('l'), L) for x in res]


def _vp_set(L, L2):
    return [{'$set': {'g': {'l': L}}}], lambda res, cl: [(x.get('g', {}).get('l'), L) for x in res]


def _vp_project_literal(L, L2):
    return ([{'$project': {'l': {'$literal': L}}}],
            lambda res, cl: [(x.get('l'), L) for x in res])


def _vp_project_if_null(L, L2):
    return ([{'$project': {'l': {'$ifNull': ['$nokey', L]}, 'm': {'$ifNull': [L2, 0]}}}],
            lambda res, cl: [(x.get('l'), L) for x in res] + [(x.get('m'), L2) for x in res])


def _vp_cond(L, L2):
    return ([{'$project': {'l': {'$cond': [{'$eq': ['$_id', 1]}, L, L2]}}}],
            lambda res, cl: [(x.get('l'), L if x['_id'] == 1 else L2) for x in res])


def _vp_switch(L, L2):
    return ([{'$project': {'l': {'$switch': {'branches': [{'case': {'$eq': ['$_id', 1]},
                                                            'then': L}], 'default': L2}}}}],
            lambda res, cl: [(x.get('l'), L if x['_id'] == 1 else L2) for x in res])


def _vp_let(L, L2):
    return ([{'$addFields': {'l': {'$let': {'vars': {'v': L}, 'in': '$$v'}}}}],
            lambda res, cl: [(x.get('l'), L) for x in res])


def _vp_array_ops(L, L2):
    return ([{'$project': {'a': {'$arrayElemAt': [[L2, L], 1]},
                           'c': {'$concatArrays': [[L], '$u', [L2]]},
                           's': {'$slice': [[L2, L, 0], 1, 1]}}}],
            lambda res, cl: [(x.get('a'), L) for x in res]
            + [((x.get('c') or [None])[0], L) for x in res]
            + [((x.get('c') or [None])[-1], L2) for x in res]
            + [(x.get('s'), [L]) for x in res])


def _vp_group_id(L, L2):
    return [{'$group': {'_id': L, 'n': {'$sum': 1}}}], lambda res, cl: [(x.get('_id'), L)
                                                                       for x in res]


def _vp_group_id_doc(L, L2):
    return ([{'$group': {'_id': {'k': '$k', 'd': L}, 'n': {'$sum': 1}}}],
            lambda res, cl: [((x.get('_id') or {}).get('d'), L) for x in res])


def _vp_group_acc(L, L2):
    return ([{'$group': {'_id': '$k', 'p': {'$push': L}, 'fi': {'$first': L}, 'la': {'$last': L2}}}],
            lambda res, cl: [((x.get('p') or [None])[0], L) for x in res]
            + [((x.get('p') or [None])[-1], L) for x in res]
            + [(x.get('fi'), L) for x in res] + [(x.get('la'), L2) for x in res])


def _vp_group_acc_bare(L, L2):       # bare datetimes: $max / $min compare, $addToSet dedupes
    return ([{'$group': {'_id': None, 'mx': {'$max': L}, 'mn': {'$min': L},
                         'a': {'$addToSet': L}}}],
            lambda res, cl: [(x.get('mx'), L) for x in res] + [(x.get('mn'), L) for x in res]
            + [(x.get('a'), [L]) for x in res])


def _vp_facet(L, L2):
    return ([{'$facet': {'x': [{'$addFields': {'l': L}}],
                         'y': [{'$limit': 1}, {'$project': {'l': {'$literal': L2}}}]}}],
            lambda res, cl: [(x.get('l'), L) for x in res[0]['x']]
            + [(x.get('l'), L2) for x in res[0]['y']])


def _vp_replace_root(L, L2):
    return ([{'$replaceRoot': {'newRoot': {'n': L, 'f': '$f'}}}],
            lambda res, cl: [(x.get('n'), L) for x in res])


def _vp_unwind(L, L2):
    return ([{'$match': {'_id': 1}}, {'$addFields': {'l': [L, L2]}}, {'$unwind': '$l'}],
            lambda res, cl: [(x.get('l'), w) for x, w in zip(res, [L, L2])]
            + ([] if len(res) == 2 else [(None, L)]))


def _vp_match_then(L, L2):           # the written value after a $match that already normalised
    return ([{'$match': {'_id': {'$gte': 1}}}, {'$addFields': {'l': L}}, {'$sort': {'_id': -1}}],
            lambda res, cl: [(x.get('l'), L) for x in res])


def _vp_out(L, L2):
    def locate(res, cl):
        raw = list(cl.db.outc._store._documents.values())
        return [(x.get('l'), L) for x in raw] + ([] if len(raw) == 2 else [(None, L)])
    return [{'$addFields': {'l': L}}, {'$out': 'outc'}], locate

# (name, shape, build)   shape 'any' = any nesting, 'bare' = the datetime itself
VALUE_POSITIONS = [
    ('$addFields', 'any', _vp_add_fields), ('$set nested', 'any', _vp_set),
    ('$project $literal', 'any', _vp_project_literal),
    ('$project $ifNull', 'any', _vp_project_if_null), ('$cond branch', 'any', _vp_cond),
    ('$switch branch', 'any', _vp_switch), ('$let variable', 'any', _vp_let),
    ('array operators', 'any', _vp_array_ops),
    ('$group _id', 'any', _vp_group_id), ('$group _id document', 'any', _vp_group_id_doc),
    ('$group $push $first $last', 'any', _vp_group_acc),
    ('$group $max $min $addToSet', 'bare', _vp_group_acc_bare),
    ('$facet sub-pipelines', 'any', _vp_facet), ('$replaceRoot', 'any', _vp_replace_root),
    ('$unwind written array', 'any', _vp_unwind), ('after $match', 'any', _vp_match_then),
    ('$out', 'any', _vp_out),
]


# A comparison position: build(X) -> (pipeline, observe); X = a bare datetime written in the
# pipeline; observe(result) -> the observation; expect(ms_stored, ms_X, tz) -> what the rule
# demands for it (ms_* = the milliseconds the stored field and X denote).

def _cp_field_literal(X):
    return ([{'$match': {'_id': 1}}, {'$project': dict((op[1:], {op: ['$f', X]}) for op in CMP_OPS)}],
            lambda res: [res[0].get(op[1:]) for op in CMP_OPS] if len(res) == 1 else res)


def _cp_literal_field(X):
    return ([{'$match': {'_id': 1}}, {'$project': dict((op[1:], {op: [X, '$f']}) for op in CMP_OPS)}],
            lambda res: [res[0].get(op[1:]) for op in CMP_OPS] if len(res) == 1 else res)


def _cp_match_expr(X):
    return ([{'$facet': dict((op[1:], [{'$match': {'$expr': {op: ['$f', X]}}},
                                       {'$project': {'_id': 1}}]) for op in CMP_OPS)}],
            lambda res: [[x['_id'] for x in res[0][op[1:]]] for op in CMP_OPS])


def _cp_match_written(X):
    # every document gets the written value as field `l`; the $match operand is the stored one
    return ([{'$addFields': {'l': X}}, {'$match': {'l': {'$gte': '@stored', '$lte': '@stored'}}},
             {'$project': {'_id': 1}}], lambda res: [x['_id'] for x in res])


def _cp_in(X):
    return ([{'$match': {'_id': 1}}, {'$project': {'x': {'$in': [X, '$u']},
                                                   'y': {'$in': ['$f', [0, X]]}}}],
            lambda res: [res[0].get('x'), res[0].get('y')] if len(res) == 1 else res)


def _cp_subtract(X):
    return ([{'$match': {'_id': 1}}, {'$project': {'x': {'$subtract': ['$f', X]},
                                                   'y': {'$subtract': [X, '$f']}}}],
            lambda res: [res[0].get('x'), res[0].get('y')] if len(res) == 1 else res)


def _cp_max_min(X):
    return ([{'$match': {'_id': 1}}, {'$project': {'mx': {'$max': ['$f', X]},
                                                   'mn': {'$min': [X, '$f']}}}],
            lambda res: [res[0].get('mx'), res[0].get('mn')] if len(res) == 1 else res)


def _cp_filter(X):
    return ([{'$match': {'_id': 1}},
             {'$project': {'x': {'$filter': {'input': [X, 1, 'a'], 'as': 'i',
                                             'cond': {'$eq': ['$$i', '$f']}}}}}],
            lambda res: len(res[0].get('x')) if len(res) == 1 else res)


def _cp_set_union(X):
    return ([{'$match': {'_id': 1}}, {'$project': {'x': {'$setUnion': ['$u', [X]]}}}],
            lambda res: len(res[0].get('x')) if len(res) == 1 else res)


LO = _dt.datetime(1800, 1, 1)
HI = _dt.datetime(2300, 1, 1)


def _cp_bucket(X):
    return ([{'$bucket': {'groupBy': '$f', 'boundaries': [LO, X, HI]}}],
            lambda res: sorted((ms_of(x['_id']), x['count']) for x in res))


def _cp_lookup(X):
    return ([{'$match': {'_id': 1}}, {'$addFields': {'l': X}},
             {'$lookup': {'from': 'o', 'localField': 'l', 'foreignField': 'f', 'as': 'j'}}],
            lambda res: [x['_id'] for x in res[0]['j']] if len(res) == 1 else res)


def _cp_graph_lookup(X):
    return ([{'$match': {'_id': 1}},
             {'$graphLookup': {'from': 'o', 'startWith': X, 'connectFromField': 'nokey',
                               'connectToField': 'f', 'as': 'j'}}],
            lambda res: [x['_id'] for x in res[0]['j']] if len(res) == 1 else res)


def _exp_bucket(a, b, tz):
    out = {}
    for ms in (a, FAR_MS):                 # the stored datetime and the decoy (always after X)
        key = b if ms >= b else ms_of(LO)
        out[key] = out.get(key, 0) + 1
    return sorted(out.items())

# (name, build, expect(ms_stored, ms_X, tz)); `d` and `X` themselves are passed for $max / $min
COMPARE_POSITIONS = [
    ('field op literal', _cp_field_literal, lambda a, b, tz: [cmp_ms(op, a, b) for op in CMP_OPS]),
    ('literal op field', _cp_literal_field, lambda a, b, tz: [cmp_ms(op, b, a) for op in CMP_OPS]),
    ('$match $expr', _cp_match_expr,
     lambda a, b, tz: [[i for i, ms in ((1, a), (2, FAR_MS)) if cmp_ms(op, ms, b)]
                       for op in CMP_OPS]),
    ('$match on a written field', _cp_match_written, lambda a, b, tz: [1, 2] if a == b else []),
    ('$in', _cp_in, lambda a, b, tz: [a == b, a == b]),
    ('$subtract', _cp_subtract, lambda a, b, tz: [a - b, b - a]),
    ('$max $min', _cp_max_min,
     lambda a, b, tz: [spec_read(from_ms(max(a, b)), tz), spec_read(from_ms(min(a, b)), tz)]),
    ('$filter', _cp_filter, lambda a, b, tz: 1 if a == b else 0),
    ('$setUnion', _cp_set_union, lambda a, b, tz: 2 if a == b else 3),
    ('$bucket boundaries', _cp_bucket, _exp_bucket),
    ('$lookup on a written field', _cp_lookup, lambda a, b, tz: [5] if a == b else []),
    ('$graphLookup startWith', _cp_graph_lookup, lambda a, b, tz: [5] if a == b else []),
]


# A computed position: the pipeline computes a datetime.  build(case) -> (pipeline, observe, expect)
# where case gives  parts  = the `$dateFromParts` argument document (millisecond possibly outside
#                            0..999: it carries over),
#                   t      = the naive datetime those parts denote,
#                   n      = a whole number of milliseconds (for `$add` / `$subtract`),
#                   date   = the stored datetime of document 1, X = a written datetime;
# observe(result) -> the observation, expect(tz) -> what the rule demands for it: a computed
# datetime is a datetime like any other — it compares with stored and written ones by its instant,
# and reaches the caller naive, or aware UTC under tz_aware=True, at every depth.

def _one(res, f):
    return f(res[0]) if len(res) == 1 else res


def _kp_date_from_parts(c):
    return ([{'$match': {'_id': 1}}, {'$project': {'x': {'$dateFromParts': c['parts']},
                                                   'deep': {'a': [{'$dateFromParts': c['parts']}]}}}],
            lambda res: _one(res, lambda d: [d.get('x'), d.get('deep')]),
            lambda tz: [spec_read(c['t'], tz), {'a': [spec_read(c['t'], tz)]}])


def _kp_date_from_parts_field(c):
    dfp = {'$dateFromParts': c['parts']}
    a, b = ms_of(c['date']), ms_of(c['t'])
    return ([{'$match': {'_id': 1}},
             {'$project': dict([(op[1:], {op: ['$f', dfp]}) for op in CMP_OPS]
                               + [('r' + op[1:], {op: [dfp, '$f']}) for op in CMP_OPS])}],
            lambda res: _one(res, lambda d: [d.get(op[1:]) for op in CMP_OPS]
                             + [d.get('r' + op[1:]) for op in CMP_OPS]),
            lambda tz: [cmp_ms(op, a, b) for op in CMP_OPS] + [cmp_ms(op, b, a) for op in CMP_OPS])


def _kp_date_from_parts_literal(c):
    dfp = {'$dateFromParts': c['parts']}
    a, b = ms_of(c['X']), ms_of(c['t'])
    return ([{'$match': {'_id': 1}},
             {'$project': dict((op[1:], {op: [c['X'], dfp]}) for op in CMP_OPS)}],
            lambda res: _one(res, lambda d: [d.get(op[1:]) for op in CMP_OPS]),
            lambda tz: [cmp_ms(op, a, b) for op in CMP_OPS])


def _kp_add(c):
    n = c['n']
    a, x = ms_of(c['date']), ms_of(c['X'])
    return ([{'$match': {'_id': 1}},
             {'$project': {'p': {'$add': ['$f', n]}, 'q': {'$add': [n, c['X']]},
                           's': {'$subtract': ['$f', n]},
                           'lt': {'$lt': ['$f', {'$add': ['$f', 1]}]},
                           'eq': {'$eq': [{'$add': [c['X'], a - x]}, '$f']},
                           'mx': {'$max': ['$f', {'$add': ['$f', 1]}]}}}],
            lambda res: _one(res, lambda d: [d.get(k) for k in ('p', 'q', 's', 'lt', 'eq', 'mx')]),
            lambda tz: [spec_read(from_ms(a + n), tz), spec_read(from_ms(x + n), tz),
                        spec_read(from_ms(a - n), tz), True, True, spec_read(from_ms(a + 1), tz)])


def _kp_group_id(c):
    dfp = {'$dateFromParts': c['parts']}
    return ([{'$group': {'_id': {'d': dfp}, 'p': {'$push': {'c': dfp, 'f': '$f'}},
                         'm': {'$max': dfp}, 'n': {'$sum': 1}}}],
            lambda res: _one(res, lambda d: [d.get('_id'), d.get('p'), d.get('m'), d.get('n')]),
            lambda tz: [{'d': spec_read(c['t'], tz)},
                        [{'c': spec_read(c['t'], tz), 'f': spec_read(c['date'], tz)},
                         {'c': spec_read(c['t'], tz), 'f': spec_read(c['far'], tz)}],
                        spec_read(c['t'], tz), 2])


def _kp_facet(c):
    dfp = {'$dateFromParts': c['parts']}
    return ([{'$facet': {'x': [{'$match': {'_id': 1}}, {'$project': {'c': dfp}}],
                         'y': [{'$group': {'_id': dfp}}]}}],
            lambda res: _one(res, lambda d: [d.get('x'), d.get('y')]),
            lambda tz: [[{'_id': 1, 'c': spec_read(c['t'], tz)}], [{'_id': spec_read(c['t'], tz)}]])


def _kp_lookup(c):
    # the stored datetime, rebuilt from its parts, joins the foreign document that stores it
    d = spec_patch(c['date'])
    parts = {'year': d.year, 'month': d.month, 'day': d.day, 'hour': d.hour, 'minute': d.minute,
             'second': d.second, 'millisecond': d.microsecond // 1000}
    return ([{'$match': {'_id': 1}}, {'$addFields': {'l': {'$dateFromParts': parts}}},
             {'$lookup': {'from': 'o', 'localField': 'l', 'foreignField': 'f', 'as': 'j'}},
             {'$graphLookup': {'from': 'o', 'startWith': '$l', 'connectFromField': 'nokey',
                               'connectToField': 'f', 'as': 'g'}},
             {'$project': {'l': 1, 'j': 1, 'g': 1}}],
            lambda res: _one(res, lambda x: [x.get('l'), x.get('j'), x.get('g')]),
            lambda tz: [spec_read(d, tz), [{'_id': 5, 'f': spec_read(d, tz)}],
                        [{'_id': 5, 'f': spec_read(d, tz)}]])


def _kp_out(c):
    # `$out` stores a computed datetime like an inserted one (observed in the raw store)
    return ([{'$match': {'_id': 1}}, {'$project': {'c': {'$dateFromParts': c['parts']}}},
             {'$out': 'outc'}],
            None,
            lambda tz: [{'_id': 1, 'c': c['t']}])

COMPUTED_POSITIONS = [
    ('$dateFromParts', _kp_date_from_parts),
    ('field op $dateFromParts', _kp_date_from_parts_field),
    ('literal op $dateFromParts', _kp_date_from_parts_literal),
    ('$add $subtract of a date', _kp_add),
    ('$group by a computed datetime', _kp_group_id),
    ('$facet with computed datetimes', _kp_facet),
    ('$lookup / $graphLookup on a computed datetime', _kp_lookup),
    ('$out of a computed datetime', _kp_out),
]


def subst_stored(v, stored):
    """replace the marker '@stored' by the stored datetime"""
    if isinstance(v, dict):
        return type(v)((k, subst_stored(x, stored)) for k, x in v.items())
    if isinstance(v, list):
        return [subst_stored(x, stored) for x in v]
    if isinstance(v, tuple):
        return tuple(subst_stored(x, stored) for x in v)
    return stored if isinstance(v, str) and v == '@stored' else v
