"""one-off: (re)write the C19 entry `concurrent-delete-keyerror` of known_findings.json.

The finding is repaired in the library (a0040b0: `Collection._delete` removes through
`CollectionStore.discard`, which tells whether it removed a document): the entry is a `fixed`
record.  Its witness — two `delete_one` of the same document, the first preempted between reading
and deleting — is kept (with the log recorded on the unrepaired library) and is re-run by every
check of C19 (props/c19.py): if anything at all goes wrong in it again, that is a VIOLATION.
Run against the repaired library: the witness must not reproduce here."""
import json, os, sys
sys.path.insert(0, os.path.dirname(os.path.abspath(__file__)))
import wire
import c19_iter_probe

COMMIT = 'a0040b0'
k, res = c19_iter_probe.delete_delete_witness(any_problem=True)
assert k is None, 'the witness still goes wrong on this library: %r' % (res['problems'],)
path = os.path.join(wire.VERIF, 'known_findings.json')
data = json.load(open(path))
old = [x for x in data['findings']
       if x['property'] == 'C19' and x['id'] == 'concurrent-delete-keyerror'][0]
witness = dict(old['witness'])
witness['lean'] = ('Props.C19.unrepaired_delete_race (scan + `del store[2]` twice: the second `del` '
                   'raises KeyError under deleteRaceSchedule) / deleters_never_fail, '
                   'repaired_delete_race_gone, pop_never_raises (scan + discard: no schedule, any '
                   'number of threads, makes a deleter fail)')
witness['spec'] = 'both calls return; deleted_count 1 and 0'
entry = {'property': 'C19', 'id': old['id'], 'status': 'fixed', 'what': old['what'],
         'witness': witness, 'commit': COMMIT,
         'fixed': 'fixed: property=C19 %s %s' % (COMMIT, old['what'])}
data['findings'] = [entry if x is old else x for x in data['findings']]
json.dump(data, open(path, 'w'), indent=1)
print('written', entry['id'], 'as fixed by', COMMIT)
