"""one-off: (re)write the `known` C19 entries of known_findings.json; the witness is replayed on
the real code here (deterministic scheduler)"""
import json, os, sys
sys.path.insert(0, os.path.dirname(os.path.abspath(__file__)))
import wire
import c19_iter_probe

k, res = c19_iter_probe.delete_delete_witness()
assert k is not None, 'the witness no longer reproduces'
entry = {
    'property': 'C19', 'id': 'concurrent-delete-keyerror', 'status': 'known',
    'what': 'two threads deleting the same document: Collection._delete reads the documents to '
            'delete (list(self._iter_documents(filter))) and then does `del self._store[doc_id]`; '
            'when another thread (delete_one / delete_many / a TTL expiry pass) removes the '
            'document between the two, the `del` raises KeyError(doc_id) out of delete_one / '
            'delete_many instead of the call reporting deleted_count 0',
    'witness': {
        'iter_probe_witness': 'delete_delete', 'k': k,
        'setup': 'c = mongomock.MongoClient().db.c; ' + c19_iter_probe.SETUPS['plain'][1],
        'thread 0': "c.delete_one({'_id': 2})", 'thread 1': "c.delete_one({'_id': 2})",
        'schedule': 'thread 0 runs %d steps (it has read the collection and left its read '
                    'section), then thread 1 runs to completion, then thread 0 continues' % k,
        'what_happened': res['story'],
        'python': 'KeyError: 2 in thread 0', 'spec': 'both calls return (deleted_count 1 and 0)',
        'plain_threads': (
            "import mongomock, threading\nfrom unittest import mock\n"
            "c = mongomock.MongoClient().db.c; c.insert_one({'_id': 2})\n"
            "real = type(c)._iter_documents; first = threading.Event(); go = threading.Event()\n"
            "def iter_documents(self, flt):\n    docs = list(real(self, flt))\n"
            "    if threading.current_thread().name == 'A':\n        first.set(); go.wait(5)\n"
            "    return iter(docs)\n"
            "with mock.patch.object(type(c), '_iter_documents', iter_documents):\n"
            "    t = threading.Thread(target=c.delete_one, args=({'_id': 2},), name='A')\n"
            "    t.start(); first.wait(5); c.delete_one({'_id': 2}); go.set(); t.join()\n"
            "# thread A dies with KeyError: 2"),
    },
}
path = os.path.join(wire.VERIF, 'known_findings.json')
data = json.load(open(path))
data['findings'] = [x for x in data['findings']
                    if not (x['property'] == 'C19' and x['id'] == entry['id'])]
data['findings'].append(entry)
json.dump(data, open(path, 'w'), indent=1)
print('written', entry['id'], 'k =', k)
