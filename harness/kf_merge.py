"""(development helper) resolve a cherry-pick conflict in known_findings.json: entries are keyed by
(property, id); theirs wins for entries it added or changed relative to the merge base."""
import json, subprocess, sys
def show(stage):
    out = subprocess.run(['git', 'show', ':%d:known_findings.json' % stage], stdout=subprocess.PIPE).stdout
    return json.loads(out)['findings']
base, ours, theirs = show(1), show(2), show(3)
key = lambda e: (e['property'], e['id'])
b = {key(e): e for e in base}
res = list(ours)
idx = {key(e): i for i, e in enumerate(res)}
for e in theirs:
    k = key(e)
    if k not in b or b[k] != e:
        if k in idx:
            res[idx[k]] = e
        else:
            idx[k] = len(res); res.append(e)
tk = {key(e) for e in theirs}
res = [e for e in res if not (key(e) in b and key(e) not in tk)]   # removed by theirs
json.dump({'findings': res}, open('known_findings.json', 'w'), indent=1)
print('merged', len(res))
