"""C20, python-only probe: unsupported / unknown expression operators placed inside a
sub-expression that the evaluation of its parent may never reach (short-circuit operands,
untaken branches, bodies over empty arrays, array literals).  The property wants the call to
raise wherever the operator stands; a context in which it is skipped is a failure (the ones
that fail on the unchanged code are listed as known findings `lazy-expr:<context>`)."""
import mongomock

BAD = [('not implemented', {'$indexOfArray': [[1], 1]}), ('unknown', {'$fooBar': 1})]

CONTEXTS = [
    ('direct', lambda b: b),
    ('and_after_false', lambda b: {'$and': ['$f', b]}),
    ('and_before_false', lambda b: {'$and': [b, '$f']}),
    ('or_after_true', lambda b: {'$or': ['$t', b]}),
    ('or_before_true', lambda b: {'$or': [b, '$t']}),
    ('not_operand', lambda b: {'$not': [b]}),
    ('cond_untaken_else', lambda b: {'$cond': ['$t', 1, b]}),
    ('cond_untaken_then', lambda b: {'$cond': ['$f', b, 1]}),
    ('cond_taken', lambda b: {'$cond': ['$t', b, 1]}),
    ('cond_doc_untaken', lambda b: {'$cond': {'if': '$t', 'then': 1, 'else': b}}),
    ('switch_later_branch', lambda b: {'$switch': {'branches': [{'case': '$t', 'then': 1},
                                                                 {'case': b, 'then': 2}],
                                                    'default': 0}}),
    ('switch_default_unused', lambda b: {'$switch': {'branches': [{'case': '$t', 'then': 1}],
                                                      'default': b}}),
    ('ifnull_later', lambda b: {'$ifNull': ['$a', b]}),
    ('ifnull_first', lambda b: {'$ifNull': [b, 1]}),
    ('map_empty', lambda b: {'$map': {'input': '$arr', 'as': 'x', 'in': b}}),
    ('map_nonempty', lambda b: {'$map': {'input': '$arr1', 'as': 'x', 'in': b}}),
    ('filter_empty', lambda b: {'$filter': {'input': '$arr', 'as': 'x', 'cond': b}}),
    ('filter_nonempty', lambda b: {'$filter': {'input': '$arr1', 'as': 'x', 'cond': b}}),
    ('let_unused_var', lambda b: {'$let': {'vars': {'v': b}, 'in': 1}}),
    ('let_body', lambda b: {'$let': {'vars': {'v': 1}, 'in': b}}),
    ('arith_operand', lambda b: {'$add': [1, b]}),
    ('cmp_operand', lambda b: {'$eq': [1, b]}),
    ('in_array_literal', lambda b: [b]),
    ('in_doc_literal', lambda b: {'k': b}),
    ('concat_arrays_operand', lambda b: {'$concatArrays': [[1], b]}),
    # argument shapes the evaluator took as constants (or did not evaluate) before the repairs
    # fce7e55 (an array in expression position evaluates its items), 9ff1475 / f32e005 / e7bd52b
    # (one argument given without / as a one-item list), 9957044 (a $let variable bound to a
    # missing value); every one of them is loud since - kept as guards
    ('not_single', lambda b: {'$not': b}),
    ('add_single', lambda b: {'$add': b}),
    ('and_single', lambda b: {'$and': b}),
    ('or_single', lambda b: {'$or': b}),
    ('concat_single', lambda b: {'$concat': b}),
    ('setunion_single', lambda b: {'$setUnion': b}),
    ('sum_single', lambda b: {'$sum': b}),
    ('max_single', lambda b: {'$max': b}),
    ('unary_one_item_list', lambda b: {'$abs': [b]}),
    ('unary_plain', lambda b: {'$abs': b}),
    ('nested_array_literal', lambda b: [[b]]),
    ('array_in_doc_literal', lambda b: {'k': [b]}),
    ('array_operand_item', lambda b: {'$concatArrays': [[b]]}),
    ('in_haystack_item', lambda b: {'$in': [1, [b]]}),
    ('size_of_literal', lambda b: {'$size': [[b]]}),
    ('let_missing_var', lambda b: {'$let': {'vars': {'v': '$nope'}, 'in': b}}),
    ('let_var_after_missing', lambda b: {'$let': {'vars': {'u': '$nope', 'v': b}, 'in': 1}}),
    ('array_path_operand', lambda b: {'$eq': ['$arr1.x', b]}),
    # argument lists of the wrong length: since d10f41c the arity is checked before any argument
    # is evaluated (OperationFailure) - loud before (assertion / ValueError) and after; and the
    # list operands of the accumulators in expression position (50b60be)
    ('arity_short', lambda b: {'$eq': [b]}),
    ('arity_long', lambda b: {'$subtract': [1, 2, b]}),
    ('arity_bare', lambda b: {'$gt': b}),
    ('cond_list_long', lambda b: {'$cond': ['$t', 1, 2, b]}),
    ('cond_list_short', lambda b: {'$cond': ['$f', b]}),
    ('ifnull_single', lambda b: {'$ifNull': [b]}),
    ('setequals_single', lambda b: {'$setEquals': [b]}),
    ('in_bare', lambda b: {'$in': b}),
    ('arrayelemat_short', lambda b: {'$arrayElemAt': [b]}),
    ('sum_missing_then_bad', lambda b: {'$sum': ['$nope', b]}),
    ('max_list_item', lambda b: {'$max': [1, b]}),
]
HOSTS = ['project', 'addFields', 'expr', 'groupId']


def run_host(c, host, e):
    if host == 'project':
        return list(c.aggregate([{'$project': {'r': e}}]))
    if host == 'addFields':
        return list(c.aggregate([{'$addFields': {'r': e}}]))
    if host == 'groupId':
        return list(c.aggregate([{'$group': {'_id': e}}]))
    return list(c.find({'$expr': e}))


def snippet(host, e):
    call = {'project': "list(c.aggregate([{'$project': {'r': %r}}]))",
            'addFields': "list(c.aggregate([{'$addFields': {'r': %r}}]))",
            'groupId': "list(c.aggregate([{'$group': {'_id': %r}}]))",
            'expr': "list(c.find({'$expr': %r}))"}[host] % (e,)
    return ("import mongomock\nc = mongomock.MongoClient().db.c\n"
            "c.insert_one({'_id': 1, 'a': 1, 'f': False, 't': True, 'arr': [], 'arr1': [1]})\n"
            + call + "   # must raise")


def probe():
    """[{context, host, which, silent, python}]"""
    c = mongomock.MongoClient().db.c
    c.insert_one({'_id': 1, 'a': 1, 'f': False, 't': True, 'arr': [], 'arr1': [1]})
    out = []
    for name, mk in CONTEXTS:
        for which, bad in BAD:
            for host in HOSTS:
                e = mk(bad)
                try:
                    run_host(c, host, e)
                    silent, err = True, None
                except Exception as ex:  # pylint: disable=broad-except
                    silent, err = False, type(ex).__name__
                out.append({'context': name, 'host': host, 'which': which, 'silent': silent,
                            'error': err, 'python': snippet(host, e)})
    return out


def silent_contexts(res=None):
    res = res or probe()
    return sorted({r['context'] for r in res if r['silent']})
