"""Update-specification generator (operators of C02) shared by the history harnesses."""
import copy

from gen import FIELDS, INTS, FLOATS

# what the elements of the arrays a `$push` sorts and cuts are ranked by: few values, so that ties
# (a stable sort keeps their order) and equal arrays before / after are common
RANKS = [-2, 0, 1, 2, 3, 5, 7, 8, 2.5, 1.0]


class UpdateGen(object):
    def __init__(self, g, malformed=0.05):
        self.g = g
        self.r = g.r
        self.malformed = malformed
        # probability that a modifier document ($push: $each / $position / $sort / $slice, and an
        # unrecognized clause among them) is spelled in another key order than the usual one:
        # "the order in which the modifiers appear is immaterial"
        self.respell = 0.0
        self.ops_used = {}

    def _note(self, op):
        self.ops_used[op] = self.ops_used.get(op, 0) + 1

    def num(self):
        return self.r.choice(INTS + FLOATS)

    def spelled(self, d):
        """the same document, with probability `respell` its keys in another order"""
        if len(d) < 2 or not self.respell or self.r.random() >= self.respell:
            return d
        keys = list(d)
        self.r.shuffle(keys)
        self._note('respelled')
        return {k: d[k] for k in keys}

    def ranked_push(self, kind, size=3):
        """the operand of a `$push` onto an array the modifiers can really reorder and cut: `kind`
        'num' (an array of numbers, `$sort: ±1`) or 'doc' (an array of {k: number, v: ...}
        sub-documents, `$sort: {k: ±1}`, now and then by the mixed field v or a missing one),
        `size` = roughly how long the array is.  Every subset of $position / $sort / $slice next to
        $each, the bounds around the length of the array after the insertion, spelled in any order
        (`respell`)."""
        r = self.r
        n = r.choice([0, 1, 1, 2, 2, 3])
        if kind == 'num':
            mod = {'$each': [r.choice(RANKS) for _ in range(n)]}
        else:
            mod = {'$each': [{'k': r.choice(RANKS), 'v': r.choice([0, 5, 'x'])} for _ in range(n)]}
        if r.random() < 0.4:
            mod['$position'] = r.choice([0, 1, 2, -1, size, size + 3])
        if r.random() < 0.75:
            if kind == 'num':
                mod['$sort'] = r.choice([1, -1])
            else:
                mod['$sort'] = {'k' if r.random() < 0.85 else r.choice(['v', 'z']): r.choice([1, -1])}
        if r.random() < 0.75:
            total = size + n
            mod['$slice'] = r.choice([0, 1, 2, -1, -2, total - 1, 1 - total, total, -total,
                                      total + 2, max(total // 2, 1), -max(total // 2, 1)])
        self._note('ranked-push')
        return self.spelled(mod)

    def path(self, doc, want=None):
        """a path, mostly existing in doc; want='arr' prefers paths holding arrays, 'num' numbers"""
        if self.r.random() < 0.06:
            # attempts on the (immutable) _id, whole or inside an embedded one
            return self.r.choice(['_id', '_id.k', '_id.j', '_id.x', '_id.k.z'])
        if doc is not None and self.r.random() < 0.8:
            ps = [(c, v) for c, v in self.g.paths_of(doc) if c[0] != '_id']
            if want == 'arr':
                ps2 = [(c, v) for c, v in ps if isinstance(v, list)]
            elif want == 'num':
                ps2 = [(c, v) for c, v in ps
                       if isinstance(v, (int, float)) and not isinstance(v, bool)]
            else:
                ps2 = ps
            if ps2 and self.r.random() < 0.85:
                ps = ps2
            if ps:
                comps = list(self.r.choice(ps)[0])
                if self.r.random() < 0.12:
                    comps.append(self.r.choice(FIELDS + ['0', '1', '3']))
                return '.'.join(comps)
        n = self.r.choice([1, 1, 1, 2, 3])
        return '.'.join(self.r.choice(FIELDS) if i == 0 else self.r.choice(FIELDS + ['0', '1', '2'])
                        for i in range(n))

    def operator(self, doc):
        r = self.r
        kinds = ['$set', '$set', '$unset', '$inc', '$min', '$max', '$push', '$push', '$addToSet',
                 '$pull', '$pullAll', '$pop', '$rename', '$currentDate', '$setOnInsert']
        k = r.choice(kinds)
        if r.random() < self.malformed:
            x = r.choice(['unknown', 'incstr', 'pushclause', 'renamedots', 'popval', 'notdict',
                          'mul', 'emptyop', 'addtosetclause', 'addtosetclause'])
            self._note('malformed:' + x)
            if x == 'unknown':
                return '$foo', {'a': 1}
            if x == 'addtosetclause':
                # $addToSet takes no clause next to $each ($position etc. belong to $push): a
                # WriteError once a document is matched / upserted, whatever the target holds
                each = [self.g.operand(doc, 1) for _ in range(r.choice([0, 1, 2]))]
                other = r.choice(['$position', '$slice', '$sort', '$typo', 'x'])
                arg = {'$each': each, other: r.choice([0, 1, -1])}
                if r.random() < 0.4:
                    arg = dict([(other, arg[other]), ('$each', each)])
                return '$addToSet', {self.path(doc, 'arr') if r.random() < 0.8 else
                                     r.choice(FIELDS): arg}
            if x == 'incstr':
                return '$inc', {self.path(doc): 'x'}
            if x == 'pushclause':
                mod = {'$each': [1], '$bogus': 1}
                if self.respell:
                    # the unrecognized clause among valid ones, in any place
                    if r.random() < 0.5:
                        mod['$sort'] = r.choice([1, -1])
                    if r.random() < 0.5:
                        mod['$slice'] = r.choice([0, 1, 2, -1, -2, 5])
                return '$push', {self.path(doc, 'arr'): self.spelled(mod)}
            if x == 'renamedots':
                return '$rename', {'a.b': 'c'}
            if x == 'popval':
                return '$pop', {self.path(doc, 'arr'): 2}
            if x == 'notdict':
                return r.choice(['$set', '$push', '$inc']), 5
            if x == 'mul':
                return r.choice(['$mul', '$bit']), {'a': 2}
            return r.choice(['$set', '$unset', '$inc']), {}
        self._note(k)
        n = 1 if r.random() < 0.75 else 2
        body = {}
        for _ in range(n):
            if k in ('$set', '$setOnInsert'):
                body[self.path(doc)] = self.g.value(2)
            elif k == '$unset':
                body[self.path(doc)] = ''
            elif k == '$inc':
                body[self.path(doc, 'num')] = self.num()
            elif k in ('$min', '$max'):
                body[self.path(doc, 'num')] = r.choice([self.num(), self.num(), self.g.scalar('sd')])
            elif k == '$push':
                p = self.path(doc, 'arr')
                if r.random() < 0.5:
                    body[p] = self.g.value(1)
                else:
                    mod = {'$each': [self.g.operand(doc, 1) for _ in range(r.choice([0, 1, 2, 3]))]}
                    if r.random() < 0.4:
                        mod['$position'] = r.choice([0, 1, 2, -1, 5])
                    if r.random() < 0.3:
                        if r.random() < 0.5:
                            mod['$each'] = [r.choice(INTS) for _ in range(r.choice([1, 2, 3]))]
                            mod['$sort'] = r.choice([1, -1])
                        else:
                            mod['$each'] = [{'k': r.choice(INTS), 'v': r.choice('ab')}
                                            for _ in range(r.choice([1, 2, 3]))]
                            mod['$sort'] = {'k': r.choice([1, -1])}
                    if r.random() < 0.4:
                        mod['$slice'] = r.choice([0, 1, 2, -1, -2, 5])
                    body[p] = self.spelled(mod)
            elif k == '$addToSet':
                p = self.path(doc, 'arr')
                if r.random() < 0.5:
                    body[p] = self.g.operand(doc, 1)
                else:
                    body[p] = {'$each': [self.g.operand(doc, 1)
                                         for _ in range(r.choice([0, 1, 2, 3]))]}
            elif k == '$pull':
                p = self.path(doc, 'arr')
                x = r.random()
                if x < 0.5:
                    body[p] = self.g.operand(doc, 0)
                elif x < 0.8:
                    body[p] = {r.choice(['$gt', '$gte', '$lt', '$in', '$ne']):
                               (self.num() if r.random() < 0.7 else [self.num(), self.num()])}
                    if '$in' in body[p] and not isinstance(body[p]['$in'], list):
                        body[p]['$in'] = [body[p]['$in']]
                else:
                    body[p] = {r.choice(FIELDS): self.g.operand(doc, 0)}
            elif k == '$pullAll':
                body[self.path(doc, 'arr')] = [self.g.operand(doc, 0)
                                               for _ in range(r.choice([0, 1, 2]))]
            elif k == '$pop':
                body[self.path(doc, 'arr')] = r.choice([1, -1])
            elif k == '$rename':
                body[r.choice(FIELDS)] = r.choice(FIELDS + ['e'])
            elif k == '$currentDate':
                body[self.path(doc)] = r.choice([True, {'$type': 'date'}])
        return k, body

    def update(self, doc=None):
        n = self.r.choice([1, 1, 1, 2, 2, 3])
        u = {}
        for _ in range(n):
            k, body = self.operator(doc)
            if k in u and isinstance(u[k], dict) and isinstance(body, dict):
                u[k].update(body)
            else:
                u[k] = body
        if self.r.random() < self.malformed * 0.5:
            # an unknown operator BEHIND valid (or otherwise failing) ones: refused before any
            # document is looked for, and before the arguments of the earlier operators are
            self._note('malformed:trailing-unknown')
            u[self.r.choice(['$typo', '$mul', '$bit', '$foo'])] = {'a': 1}
        return u

    def replacement(self, doc=None, keep_id=0.85):
        d = self.g.doc(2, maxf=3)
        d.pop('_id', None)
        x = self.r.random()
        if doc is not None and '_id' in doc and x < 0.3:
            # explicit _id: mostly the same one
            idv = copy.deepcopy(doc['_id']) if self.r.random() < keep_id else self.r.choice(INTS)
            d = dict([('_id', idv)] + list(d.items()))
        return d
