"""Update-specification generator (operators of C02) shared by the history harnesses."""
import copy

from gen import FIELDS, INTS, FLOATS

# what the elements of the arrays a `$push` sorts and cuts are ranked by: few values, so that ties
# (a stable sort keeps their order) and equal arrays before / after are common
RANKS = [-2, 0, 1, 2, 3, 5, 7, 8, 2.5, 1.0]


class UpdateGen(object):
    def __init__(self, g, malformed=0.05):
        self.g = g
        self.r = g.r
        self.malformed = malformed
        # probability that a modifier document ($push: $each / $position / $sort / $slice, and an
        # unrecognized clause among them) is spelled in another key order than the usual one:
        # "the order in which the modifiers appear is immaterial"
        self.respell = 0.0
        self.ops_used = {}

    def _note(self, op):
        self.ops_used[op] = self.ops_used.get(op, 0) + 1

    def num(self):
        return self.r.choice(INTS + FLOATS)

    def spelled(self, d):
        """the same document, with probability `respell` its keys in another order"""
        if len(d) < 2 or not self.respell or self.r.random() >= self.respell:
            return d
        keys = list(d)
        self.r.shuffle(keys)
        self._note('respelled')
        return {k: d[k] for k in keys}

    def ranked_push(self, kind, size=3):
        """the operand of a `$push` onto an array the modifiers can really reorder and cut: `kind`
        'num' (an array of numbers, `$sort: ±1`) or 'doc' (an array of {k: number, v: ...}
        sub-documents, `$sort: {k: ±1}`, now and then by the mixed field v or a missing one),
        `size` = roughly how long the array is.  Every subset of $position / $sort / $slice next to
        $each, the bounds around the length of the array after the insertion, spelled in any order
        (`respell`)."""
        r = self.r
        n = r.choice([0, 1, 1, 2, 2, 3])
        if kind == 'num':
            mod = {'$each': [r.choice(RANKS) for _ in range(n)]}
        else:
            mod = {'$each': [{'k': r.choice(RANKS), 'v': r.choice([0, 5, 'x'])} for _ in range(n)]}
        if r.random() < 0.4:
            mod['$position'] = r.choice([0, 1, 2, -1, size, size + 3])
        if r.random() < 0.75:
            if kind == 'num':
                mod['$sort'] = r.choice([1, -1])
            else:
                mod['$sort'] = {'k' if r.random() < 0.85 else r.choice(['v', 'z']): r.choice([1, -1])}
        if r.random() < 0.75:
            total = size + n
            mod['$slice'] = r.choice([0, 1, 2, -1, -2, total - 1, 1 - total, total, -total,
                                      total + 2, max(total // 2, 1), -max(total // 2, 1)])
        self._note('ranked-push')
        return self.spelled(mod)

    def path(self, doc, want=None):
        """a path, mostly existing in doc; want='arr' prefers paths holding arrays, 'num' numbers"""
        if self.r.random() < 0.06:
            # attempts on the (immutable) _id, whole or inside an embedded one
            return self.r.choice(['_id', '_id.k', '_id.j', '_id.x', '_id.k.z'])
        if doc is not None and self.r.random() < 0.8:
            ps = [(c, v) for c, v in self.g.paths_of(doc) if c[0] != '_id']
            if want == 'arr':
                ps2 = [(c, v) for c, v in ps if isinstance(v, list)]
            elif want == 'num':
                ps2 = [(c, v) for c, v in ps
                       if isinstance(v, (int, float)) and not isinstance(v, bool)]
            else:
                ps2 = ps
            if ps2 and self.r.random() < 0.85:
                ps = ps2
            if ps:
                comps = list(self.r.choice(ps)[0])
                if self.r.random() < 0.12:
                    comps.append(self.r.choice(FIELDS + ['0', '1', '3']))
                return '.'.join(comps)
        n = self.r.choice([1, 1, 1, 2, 3])
        return '.'.join(self.r.choice(FIELDS) if i == 0 else self.r.choice(FIELDS + ['0', '1', '2'])
                        for i in range(n))

    def operator(self, doc):
        r = self.r
        kinds = ['$set', '$set', '$unset', '$inc', '$min', '$max', '$push', '$push', '$addToSet',
                 '$pull', '$pullAll', '$pop', '$rename', '$currentDate', '$setOnInsert']
        k = r.choice(kinds)
        if r.random() < self.malformed:
            x = r.choice(['unknown', 'incstr', 'pushclause', 'renamedots', 'popval', 'notdict',
                          'mul', 'emptyop', 'addtosetclause', 'addtosetclause'])
            self._note('malformed:' + x)
            if x == 'unknown':
                return '$foo', {'a': 1}
            if x == 'addtosetclause':
                # $addToSet takes no clause next to $each ($position etc. belong to $push): a
                # WriteError once a document is matched / upserted, whatever the target holds
                each = [self.g.operand(doc, 1) for _ in range(r.choice([0, 1, 2]))]
                other = r.choice(['$position', '$slice', '$sort', '$typo', 'x'])
                arg = {'$each': each, other: r.choice([0, 1, -1])}
                if r.random() < 0.4:
                    arg = dict([(other, arg[other]), ('$each', each)])
                return '$addToSet', {self.path(doc, 'arr') if r.random() < 0.8 else
                                     r.choice(FIELDS): arg}
            if x == 'incstr':
                return '$inc', {self.path(doc): 'x'}
            if x == 'pushclause':
                mod = {'$each': [1], '$bogus': 1}
                if self.respell:
                    # the unrecognized clause among valid ones, in any place
                    if r.random() < 0.5:
                        mod['$sort'] = r.choice([1, -1])
                    if r.random() < 0.5:
                        mod['$slice'] = r.choice([0, 1, 2, -1, -2, 5])
                return '$push', {self.path(doc, 'arr'): self.spelled(mod)}
            if x == 'renamedots':
                return '$rename', {'a.b': 'c'}
            if x == 'popval':
                return '$pop', {self.path(doc, 'arr'): 2}
            if x == 'notdict':
                return r.choice(['$set', '$push', '$inc']), 5
            if x == 'mul':
                return r.choice(['$mul', '$bit']), {'a': 2}
            return r.choice(['$set', '$unset', '$inc']), {}
        self._note(k)
        n = 1 if r.random() < 0.75 else 2
        body = {}
        for _ in range(n):
            if k in ('$set', '$setOnInsert'):
                body[self.path(doc)] = self.g.value(2)
            elif k == '$unset':
                body[self.path(doc)] = ''
            elif k == '$inc':
                body[self.path(doc, 'num')] = self.num()
            elif k in ('$min', '$max'):
                body[self.path(doc, 'num')] = r.choice([self.num(), self.num(), self.g.scalar('sd')])
            elif k == '$push':
                p = self.path(doc, 'arr')
                if r.random() < 0.5:
                    body[p] = self.g.value(1)
                else:
                    mod = {'$each': [self.g.operand(doc, 1) for _ in range(r.choice([0, 1, 2, 3]))]}
                    if r.random() < 0.4:
                        mod['$position'] = r.choice([0, 1, 2, -1, 5])
                    if r.random() < 0.3:
                        if r.random() < 0.5:
                            mod['$each'] = [r.choice(INTS) for _ in range(r.choice([1, 2, 3]))]
                            mod['$sort'] = r.choice([1, -1])
                        else:
                            mod['$each'] = [{'k': r.choice(INTS), 'v': r.choice('ab')}
                                            for _ in range(r.choice([1, 2, 3]))]
                            mod['$sort'] = {'k': r.choice([1, -1])}
                    if r.random() < 0.4:
                        mod['$slice'] = r.choice([0, 1, 2, -1, -2, 5])
                    body[p] = self.spelled(mod)
            elif k == '$addToSet':
                p = self.path(doc, 'arr')
                if r.random() < 0.5:
                    body[p] = self.g.operand(doc, 1)
                else:
                    body[p] = {'$each': [self.g.operand(doc, 1)
                                         for _ in range(r.choice([0, 1, 2, 3]))]}
            elif k == '$pull':
                p = self.path(doc, 'arr')
                x = r.random()
                if x < 0.5:
                    body[p] = self.g.operand(doc, 0)
                elif x < 0.8:
                    body[p] = {r.choice(['$gt', '$gte', '$lt', '$in', '$ne']):
                               (self.num() if r.random() < 0.7 else [self.num(), self.num()])}
                    if '$in' in body[p] and not isinstance(body[p]['$in'], list):
                        body[p]['$in'] = [body[p]['$in']]
                else:
                    body[p] = {r.choice(FIELDS): self.g.operand(doc, 0)}
            elif k == '$pullAll':
                body[self.path(doc, 'arr')] = [self.g.operand(doc, 0)
                                               for _ in range(r.choice([0, 1, 2]))]
            elif k == '$pop':
                body[self.path(doc, 'arr')] = r.choice([1, -1])
            elif k == '$rename':
                body[r.choice(FIELDS)] = r.choice(FIELDS + ['e'])
            elif k == '$currentDate':
                body[self.path(doc)] = r.choice([True, {'$type': 'date'}])
        return k, body

    def update(self, doc=None):
        n = self.r.choice([1, 1, 1, 2, 2, 3])
        u = {}
        for _ in range(n):
            k, body = self.operator(doc)
            if k in u and isinstance(u[k], dict) and isinstance(body, dict):
                u[k].update(body)
            else:
                u[k] = body
        if self.r.random() < self.malformed * 0.5:
            # an unknown operator BEHIND valid (or otherwise failing) ones: refused before any
            # document is looked for, and before the arguments of the earlier operators are
            self._note('malformed:trailing-unknown')
            u[self.r.choice(['$typo', '$mul', '$bit', '$foo'])] = {'a': 1}
        return u

    def replacement(self, doc=None, keep_id=0.85):
        d = self.g.doc(2, maxf=3)
        d.pop('_id', None)
        x = self.r.random()
        if doc is not None and '_id' in doc and x < 0.3:
            # explicit _id: mostly the same one
            idv = copy.deepcopy(doc['_id']) if self.r.random() < keep_id else self.r.choice(INTS)
            d = dict([('_id', idv)] + list(d.items()))
        return d


class PositionalGen(object):
    """Updates through the positional operator `$` together with the filter that is to select the
    array element: documents holding arrays of sub-documents (fields k, v, c.y, l) under `a` / `b`
    and an array of scalars under `d`; filters that constrain the array by ONE condition (dotted
    or operator), by `$elemMatch`, by several conditions, only through other fields, inside
    `$and` / `$or`, by a negation, through a key that merely shares a prefix, or that no element
    satisfies; every operator that takes a positional path, alone, twice, nested, next to
    non-positional operators, with `$[]` / `$[id]`, on nested arrays, as an upsert.  `kind` names
    the filter shape, for the evidence."""

    ARR = ['a', 'b']

    def __init__(self, rng):
        self.r = rng
        self.kinds = {}

    def _note(self, k):
        self.kinds[k] = self.kinds.get(k, 0) + 1

    def element(self):
        r = self.r
        e = {'k': r.choice([1, 2, 3]), 'v': r.choice([0, 5, 'x'])}
        x = r.random()
        if x < 0.3:
            e['l'] = [r.choice([1, 2, 3]) for _ in range(r.choice([0, 1, 2, 3]))]
        elif x < 0.45:
            e['c'] = {'y': r.choice([0, 1])}
        elif x < 0.55:
            e['l'] = [{'k': r.choice([1, 2]), 'v': r.choice([0, 5])}
                      for _ in range(r.choice([1, 2]))]
        elif x < 0.6:
            del e['v']
        return e

    def docs(self):
        """two documents with an array of sub-documents under a or b (sometimes holding a
        scalar), an array of scalars under d and a plain field c"""
        r = self.r
        f = r.choice(self.ARR)
        out = []
        for _ in range(2):
            arr = [self.element() for _ in range(r.choice([0, 1, 2, 2, 3]))]
            if r.random() < 0.1:
                arr.insert(r.randrange(len(arr) + 1), r.choice([1, 'x', None, [1, 2]]))
            d = {f: arr, 'c': r.choice([1, 2]),
                 'd': [r.choice([1, 2, 3, 5]) for _ in range(r.choice([0, 2, 2, 3]))]}
            if r.random() < 0.15:
                d['ab'] = r.choice([1, None, [{'k': 1}]])
            out.append(d)
        return out, f

    def filter(self, f):
        r = self.r
        x = r.random()
        k = r.choice([1, 2, 3])
        if x < 0.22:
            self._note('filter:single-dotted')
            return {f + '.k': r.choice([k, {'$gt': k - 1}, {'$gte': k}, {'$in': [k, 9]}])}
        if x < 0.42:
            self._note('filter:elemMatch')
            q = {'k': r.choice([k, {'$gte': k}])}
            if r.random() < 0.4:
                q['v'] = r.choice([0, 5, 'x'])
            return {f: {'$elemMatch': q}}
        if x < 0.52:
            self._note('filter:several-conditions')
            return {f + '.k': k, f + '.v': r.choice([0, 5, 'x'])}
        if x < 0.62:
            self._note('filter:other-fields-only')
            return r.choice([{'c': r.choice([1, 2])}, {}, {'c': {'$gte': 1}}])
        if x < 0.68:
            self._note('filter:no-match')
            return r.choice([{f + '.k': 9}, {f: {'$elemMatch': {'k': 9}}}, {'c': 9, f + '.k': k}])
        if x < 0.78:
            self._note('filter:scalar-array')
            n = r.choice([1, 2, 3, 5])
            return r.choice([{'d': n}, {'d': {'$gt': n - 1}}, {'d': {'$elemMatch': {'$gte': n}}},
                             {'d': {'$in': [n, 7]}}])
        if x < 0.84:
            self._note('filter:logical')
            return r.choice([{'$and': [{f + '.k': k}]}, {'$or': [{f + '.k': k}, {'c': 9}]},
                             {'$and': [{f: {'$elemMatch': {'k': k}}}, {'c': {'$gte': 1}}]}])
        if x < 0.88:
            self._note('filter:negation')
            return r.choice([{f + '.k': {'$ne': k}}, {f + '.k': {'$nin': [k]}},
                             {f + '.k': {'$not': {'$gt': k}}}])
        if x < 0.92:
            self._note('filter:prefix-key')
            base = {f + '.k': k}
            extra = r.choice([{'ab': None}, {'ab': {'$exists': False}}, {'ab.k': 1}, {'ab': 1}])
            return dict(list(base.items()) + list(extra.items())) if r.random() < 0.5 else \
                dict(list(extra.items()) + list(base.items()))
        if x < 0.96:
            self._note('filter:array-and-dotted')
            return r.choice([{f + '.k': k, f: {'$size': 2}}, {f: {'$size': 2}, f + '.k': k},
                             {f: {'$elemMatch': {'k': k}}, 'c': r.choice([1, 2])},
                             {f + '.k': k, 'c': r.choice([1, 2])}])
        self._note('filter:elemMatch-on-nested')
        return r.choice([{f + '.l': {'$elemMatch': {'k': 1}}}, {f + '.l.k': 1}, {f + '.l': 2},
                         {f + '.c.y': 1}])

    def update(self, f):
        r = self.r
        P = f + '.$'
        val = lambda: r.choice([7, 'y', None, {'k': 9, 'v': 9}, [4]])
        singles = [
            lambda: {'$set': {P + '.v': val()}},
            lambda: {'$set': {P + '.v': val()}},
            lambda: {'$inc': {P + '.k': r.choice([1, 10])}},
            lambda: {'$unset': {P + '.v': ''}},
            lambda: {'$min': {P + '.k': r.choice([0, 2])}},
            lambda: {'$max': {P + '.k': r.choice([2, 7])}},
            lambda: {'$set': {P: val()}},
            lambda: {r.choice(['$inc', '$unset', '$min', '$max', '$pop']): {P: r.choice([1, -1])}},
            lambda: {'$currentDate': {P + '.t': True}},
            lambda: {'$pop': {P + '.l': r.choice([1, -1])}},
            lambda: {'$push': {P + '.l': r.choice([4, {'$each': [4, 1], '$position': 0}])}},
            lambda: {'$addToSet': {P + '.l': r.choice([1, 4, {'$each': [1, 4]}])}},
            lambda: {'$pull': {P + '.l': r.choice([1, 2, {'k': 1}, {'$gt': 1}])}},
            lambda: {'$pullAll': {P + '.l': [1, 2]}},
            lambda: {'$push': {P: 4}},
            lambda: {'$set': {P + '.c.y': 3}},
            lambda: {'$set': {P + '.l.$': 8}},
            lambda: {'$set': {P + '.l.0': 8}},
            lambda: {'$set': {P + '.l.$.v': 8}},
            lambda: {'$set': {'d.$': r.choice([8, 'y'])}},
            lambda: {'$inc': {'d.$': 10}},
            lambda: {'$set': {f + '.$[].v': 7}},
            lambda: {'$set': {f + '.$[e].v': 7}},
            lambda: {'$set': {f + '.0.l.$': 7}},
            lambda: {'$setOnInsert': {P + '.v': 7}},
            lambda: {'$rename': {P + '.v': P + '.w'}},
        ]
        x = r.random()
        if x < 0.7:
            self._note('update:single')
            return r.choice(singles)()
        if x < 0.8:
            self._note('update:two-positional-keys')
            op = r.choice(['$set', '$set', '$inc'])
            v1, v2 = (r.choice([7, 'y']), r.choice([8, 'z'])) if op == '$set' else (1, 10)
            second = r.choice([P + '.k', P + '.c.y', P + '.w', 'd.$', P])
            return {op: dict([(P + '.v', v1), (second, v2)])}
        if x < 0.93:
            self._note('update:with-other-operator')
            pos = r.choice(singles[:14])()
            other = r.choice([{'$set': {'c': 5}}, {'$inc': {'c': 1}}, {'$push': {'d': 4}},
                              {'$addToSet': {'d': 4}}, {'$pull': {'d': 2}}, {'$unset': {'c': ''}},
                              {'$set': {f + '.0.v': 6}}, {'$push': {f: {'k': 1, 'v': 0}}},
                              {'$set': {f: []}}, {'$rename': {'c': 'e'}}, {'$pop': {f: -1}},
                              {'$addToSet': {'e.l': 1}}, {'$pullAll': {'e.l': [1]}}])
            a, b = (pos, other) if r.random() < 0.5 else (other, pos)
            u = dict(a)
            for k2, body in b.items():
                if k2 in u:
                    u[k2] = dict(list(u[k2].items()) + list(body.items()))
                else:
                    u[k2] = body
            return u
        self._note('update:two-positional-operators')
        a, b = r.choice(singles[:14])(), r.choice(singles[:14])()
        u = dict(a)
        for k2, body in b.items():
            u[k2] = dict(list(u.get(k2, {}).items()) + list(body.items()))
        return u

    def ops(self, f, shadow=None):
        """one operation using the positional operator: update_one / update_many /
        find_one_and_update / a bulk_write of update requests"""
        r = self.r
        filt = self.filter(f)
        u = self.update(f)
        upsert = r.random() < 0.08
        x = r.random()
        if x < 0.4:
            return ['update_one', filt, u, upsert]
        if x < 0.72:
            return ['update_many', filt, u, upsert]
        if x < 0.86:
            sort = r.choice([None, [['c', 1]], [['_id', -1]]])
            return ['find_one_and_update', filt, u, None, sort, upsert, r.random() < 0.5]
        reqs = [[r.choice(['UpdateOne', 'UpdateMany']), filt, u, upsert]]
        if r.random() < 0.5:
            reqs.append([r.choice(['UpdateOne', 'UpdateMany']), self.filter(f), self.update(f),
                         False])
        return ['bulk_write', reqs, r.random() < 0.5]
