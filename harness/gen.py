"""Grammar-directed generators shared by the property harnesses.

Every random choice comes from the one random.Random passed in, so a (seed, index) pair
replays a case exactly.  Small alphabets on purpose, so that collisions (equal values, paths that
exist, duplicate keys) happen often.
"""
import copy
import datetime as _dt

from wire import FixedOffset

FIELDS = ['a', 'b', 'c', 'd']
IDX = ['0', '1', '2']
DATES = [_dt.datetime(2020, 1, 1), _dt.datetime(2020, 1, 1, 0, 0, 0, 5000),
         _dt.datetime(2021, 6, 15, 12, 30), _dt.datetime(1969, 12, 31, 23, 59, 59, 999000)]
STRS = ['', 'a', 'b', 'ab', 'ba', 'B']
INTS = [-2, -1, 0, 1, 2, 3, 5]
FLOATS = [-1.5, 0.0, 0.5, 1.0, 1.5, 2.0, 2.5]


class Gen(object):
    def __init__(self, rng, oids):
        self.r = rng
        self.oids = oids

    # -- values -----------------------------------------------------------------------------
    def scalar(self, kinds='nbifsdo'):
        k = self.r.choice(kinds)
        if k == 'n':
            return None
        if k == 'b':
            return self.r.random() < 0.5
        if k == 'i':
            return self.r.choice(INTS)
        if k == 'f':
            return self.r.choice(FLOATS)
        if k == 's':
            return self.r.choice(STRS)
        if k == 'd':
            return self.r.choice(DATES)
        if k == 'o':
            return self.oids.make(self.r.randrange(3))
        raise ValueError(k)

    def simple_scalar(self):
        """ints, strings, null mostly: the bulk of ordinary documents"""
        return self.scalar(self.r.choice(['i', 'i', 'i', 's', 's', 'n', 'f', 'b', 'd', 'o']))

    def value(self, depth=2, kinds=None):
        x = self.r.random()
        if depth <= 0 or x < 0.55:
            return self.simple_scalar() if kinds is None else self.scalar(kinds)
        if x < 0.78:
            return self.array(depth - 1)
        return self.doc(depth - 1)

    def array(self, depth=1):
        n = self.r.choice([0, 1, 2, 2, 3])
        style = self.r.random()
        if style < 0.12 and depth >= 0:      # arrays nested in arrays
            return [[self.scalar(self.r.choice('ifsb')) for _ in range(self.r.choice([0, 1, 2]))]
                    if self.r.random() < 0.7 else self.scalar(self.r.choice('ifs'))
                    for _ in range(max(n, 1))]
        if style < 0.4:      # scalars of one kind
            k = self.r.choice('ifs')
            return [self.scalar(k) for _ in range(n)]
        if style < 0.7 and depth >= 0:     # sub-documents
            return [self.doc(depth - 1, maxf=2) for _ in range(n)]
        return [self.value(depth - 1) for _ in range(n)]

    def doc(self, depth=2, maxf=3, with_id=False):
        n = self.r.randint(0, maxf)
        names = self.r.sample(FIELDS, n)
        d = {}
        if with_id:
            d['_id'] = self.r.choice(INTS + ['a', 'b'])
        for f in names:
            d[f] = self.value(depth)
        return d

    # -- paths ------------------------------------------------------------------------------
    def paths_of(self, v, prefix=()):
        """all (path components, value) pairs reachable in v by explicit keys / indexes"""
        out = []
        if isinstance(v, dict):
            for k, x in v.items():
                out.append((prefix + (k,), x))
                out.extend(self.paths_of(x, prefix + (k,)))
        elif isinstance(v, list):
            for i, x in enumerate(v):
                out.append((prefix + (str(i),), x))
                out.extend(self.paths_of(x, prefix + (str(i),)))
        return out

    def path(self, doc=None):
        """a dotted path: mostly one that exists in doc (possibly skipping array indexes)"""
        if doc is not None and self.r.random() < 0.75:
            ps = self.paths_of(doc)
            if ps:
                comps, _ = self.r.choice(ps)
                comps = list(comps)
                if self.r.random() < 0.6:   # implicit array traversal: drop numeric components
                    comps = [c for c in comps if not c.isdigit()] or comps
                if self.r.random() < 0.15:
                    comps.append(self.r.choice(FIELDS + IDX))
                return '.'.join(comps)
        n = self.r.choice([1, 1, 2, 3])
        return '.'.join(self.r.choice(FIELDS + IDX) if i else self.r.choice(FIELDS)
                        for i in range(n))

    def subvalues(self, v):
        out = [v]
        if isinstance(v, dict):
            for x in v.values():
                out.extend(self.subvalues(x))
        elif isinstance(v, list):
            for x in v:
                out.extend(self.subvalues(x))
        return out

    def operand(self, doc=None, depth=1):
        """a comparison operand: often a value occurring in doc"""
        if doc is not None and self.r.random() < 0.6:
            return copy.deepcopy(self.r.choice(self.subvalues(doc)))
        return self.value(depth)
