"""Translator for C16: reads the EDIT DISCIPLINE of the aggregation stage handlers off the syntax
tree of /repo/mongomock/aggregate.py and collection.py and writes it as
lean/Generated/AggDiscipline.lean (a `MongoModel.AggHeap.Disc`).  `discipline_is_reference` there
is proved by `decide`, so the proof step breaks when the code's discipline changes."""
import ast
import os

REPO = os.environ.get('VERIF_DEV_REPO') or '/repo'

REFERENCE = {'source': 'deep', 'lookupForeign': 'deep', 'lookupWritesInput': True,
             'addFieldsTop': 'shallow', 'addFieldsNested': 'shallow', 'unwindDoc': 'deep',
             'unwindItem': 'deep', 'unwindIndexed': 'deep', 'samplePops': False,
             'facetSharesInput': False, 'literal': 'deep', 'constArray': 'deep',
             'outStores': 'deep'}

_DEEP = ('copy.deepcopy', 'deepcopy')
_SHALLOW = ('dict', 'copy.copy', 'collections.OrderedDict')


def _funcs(path):
    tree = ast.parse(open(path).read())
    out = {}
    for node in ast.walk(tree):
        if isinstance(node, ast.FunctionDef):
            out.setdefault(node.name, node)
    return out


def _calls(fn):
    return [ast.unparse(n.func) for n in ast.walk(fn) if isinstance(n, ast.Call)]


def _call_nodes(fn, name):
    return [n for n in ast.walk(fn) if isinstance(n, ast.Call) and ast.unparse(n.func) == name]


def _copy_of(fn, var):
    """how `var` is copied inside fn: deep / shallow / none"""
    for n in ast.walk(fn):
        if isinstance(n, ast.Call) and n.args and ast.unparse(n.args[0]) == var:
            f = ast.unparse(n.func)
            if f in ('copy.deepcopy', 'deepcopy'):
                return 'deep'
    for n in ast.walk(fn):
        if isinstance(n, ast.Call) and n.args and ast.unparse(n.args[0]) == var:
            f = ast.unparse(n.func)
            if f in ('dict', 'copy.copy', 'collections.OrderedDict'):
                return 'shallow'
    return 'none'


def _returned_copy(ret):
    """how a `return <expr>` hands out its value: deep (copy.deepcopy(x)) / shallow / none"""
    v = ret.value
    if isinstance(v, ast.Call):
        f = ast.unparse(v.func)
        if f in ('copy.deepcopy', 'deepcopy'):
            return 'deep'
        if f in ('dict', 'list', 'copy.copy'):
            return 'shallow'
    return 'none'


def _branch_return(fn, marker):
    """the `return` inside the `if` of fn whose test mentions `marker`"""
    for n in ast.walk(fn):
        if isinstance(n, ast.If) and marker in ast.unparse(n.test):
            for m in n.body:
                if isinstance(m, ast.Return):
                    return m
    return None


def _copy_kind(node):
    """how an expression hands a value on: deep / shallow copy call, or the value itself"""
    if isinstance(node, ast.Call):
        f = ast.unparse(node.func)
        if f in _DEEP:
            return 'deep'
        if f in _SHALLOW:
            return 'shallow'
    return 'none'


def _weakest(kinds):
    kinds = list(kinds)
    for k in ('none', 'shallow', 'deep'):
        if k in kinds:
            return k
    return 'none'


def _add_fields_nested(fn):
    """`$addFields` walks a dotted name in a loop `for subfield in parts[:-1]`: how is the
    sub-document `out_doc[subfield]` obtained that the walk then descends into and writes?
    Every assignment `out_doc[subfield] = <expr>` whose right-hand side READS the document
    (mentions `out_doc`) counts; the weakest copy decides."""
    kinds = []
    for loop in ast.walk(fn):
        if not (isinstance(loop, ast.For) and 'parts' in ast.unparse(loop.iter)):
            continue
        var = ast.unparse(loop.target)
        for n in ast.walk(loop):
            if isinstance(n, ast.Assign) and any(
                    isinstance(t, ast.Subscript) and ast.unparse(t.slice) == var
                    for t in n.targets) and 'out_doc' in ast.unparse(n.value):
                kinds.append(_copy_kind(n.value))
    return _weakest(kinds) if kinds else 'none'


def _assigned_kind(fn, name, before):
    """how the local `name` was obtained at its last assignment above line `before`"""
    best = None
    for n in ast.walk(fn):
        if isinstance(n, ast.Assign) and n.lineno < before and any(
                isinstance(t, ast.Name) and t.id == name for t in n.targets):
            if best is None or n.lineno > best.lineno:
                best = n
    if best is None:
        return 'none'           # a parameter / loop variable: the object that was handed in
    if isinstance(best.value, ast.Call) and best.value.args and isinstance(
            best.value.args[0], ast.Name) and best.value.args[0].id == name and \
            _copy_kind(best.value) == 'none':
        # `new_doc = helpers.set_value_by_dot(new_doc, …)` hands the same object back
        return _assigned_kind(fn, name, best.lineno)
    return _copy_kind(best.value)


def _unwind_item(uw):
    """which array element does an output document of `$unwind` hold?  Inside the loop over
    `iter_array` the loop variable `field_item` is the ORIGINAL element; it must be re-assigned
    from the per-element copy (`field_item = …(new_doc, path)[index]`, after `new_doc` was
    deep-copied) before `set_value_by_dot(new_doc, path, field_item)` attaches it."""
    for loop in ast.walk(uw):
        if not (isinstance(loop, ast.For) and ast.unparse(loop.iter) == 'iter_array'):
            continue
        item = [ast.unparse(e) for e in loop.target.elts][-1] if isinstance(
            loop.target, ast.Tuple) else ast.unparse(loop.target)
        attach = [n for n in ast.walk(loop) if isinstance(n, ast.Call)
                  and ast.unparse(n.func).endswith('set_value_by_dot')
                  and len(n.args) == 3 and ast.unparse(n.args[2]) == item]
        if not attach:
            return 'none'
        re = [n for n in ast.walk(loop) if isinstance(n, ast.Assign)
              and any(isinstance(t, ast.Name) and t.id == item for t in n.targets)
              and n.lineno < attach[0].lineno]
        if re and all('new_doc' in ast.unparse(n.value) and 'index' in ast.unparse(n.value)
                      for n in re) and _assigned_kind(uw, 'new_doc', re[0].lineno) == 'deep':
            return 'deep'
        return 'none'
    return 'none'


def _unwind_indexed(uw):
    """what does `$unwind` write an includeArrayIndex into?  Every call of the local helper that
    writes the index (`_set_index(<doc>, …)`) must be handed a deep copy: either the copy call
    itself or a local that was assigned one.  (The kept documents go through `_preserved`.)"""
    inner = {n.name: n for n in ast.walk(uw) if isinstance(n, ast.FunctionDef) and n is not uw}
    if '_set_index' not in inner:
        return 'none'           # not the code this translator knows: the table must differ
    kinds = []
    for scope in [uw] + list(inner.values()):
        for n in ast.walk(scope):
            if isinstance(n, ast.Call) and ast.unparse(n.func) == '_set_index' and n.args:
                a = n.args[0]
                if isinstance(a, ast.Name):
                    kinds.append(_assigned_kind(scope, a.id, n.lineno + 1))
                else:
                    kinds.append(_copy_kind(a))
    return _weakest(kinds) if kinds else 'none'


def extract():
    agg = _funcs(os.path.join(REPO, 'mongomock', 'aggregate.py'))
    col = _funcs(os.path.join(REPO, 'mongomock', 'collection.py'))
    d = {}
    a = col['aggregate']
    d['source'] = 'deep' if 'self.find' in _calls(a) else (
        'deep' if any('deepcopy' in c for c in _calls(a)) else 'none')
    lk = agg['_handle_lookup_stage']
    d['lookupForeign'] = 'deep' if 'foreign_collection.find' in _calls(lk) else 'none'
    loop_vars = [ast.unparse(n.target) for n in ast.walk(lk)
                 if isinstance(n, ast.For) and ast.unparse(n.iter) == 'in_collection']
    d['lookupWritesInput'] = any(
        isinstance(n, ast.Assign) and any(
            isinstance(t, ast.Subscript) and ast.unparse(t.value) in loop_vars for t in n.targets)
        for n in ast.walk(lk))
    d['addFieldsTop'] = _copy_of(agg['_handle_add_fields_stage'], 'doc')
    d['addFieldsNested'] = _add_fields_nested(agg['_handle_add_fields_stage'])
    uw = agg['_handle_unwind_stage']
    # both places that build a new document out of the input document (empty array with
    # preserve…, one per element): `new_doc = <copy>(doc)`; the weakest copy decides
    built = [_copy_kind(n.value) for n in ast.walk(uw)
             if isinstance(n, ast.Assign) and any(isinstance(t, ast.Name) and t.id == 'new_doc'
                                                  for t in n.targets)
             and isinstance(n.value, ast.Call) and n.value.args
             and ast.unparse(n.value.args[0]) == 'doc']
    d['unwindDoc'] = _weakest(built) if len(built) >= 2 else 'none'
    d['unwindItem'] = _unwind_item(uw)
    d['unwindIndexed'] = _unwind_indexed(uw)
    sm = agg['_handle_sample_stage']
    # any call that edits the option dict in place
    d['samplePops'] = any(c in ('options.pop', 'options.popitem', 'options.clear',
                                'options.update', 'options.setdefault', 'options.__delitem__')
                          for c in _calls(sm)) or any(
        isinstance(n, ast.Delete) for n in ast.walk(sm)) or any(
        isinstance(n, (ast.Assign, ast.AugAssign)) and any(
            isinstance(t, ast.Subscript) and ast.unparse(t.value) == 'options'
            for t in (n.targets if isinstance(n, ast.Assign) else [n.target]))
        for n in ast.walk(sm))
    fc = agg['_handle_facet_stage']
    pp = _call_nodes(fc, 'process_pipeline')
    # every sub-pipeline must be started on `copy.deepcopy(in_collection)`, inside the loop
    d['facetSharesInput'] = not (bool(pp) and all(
        ast.unparse(n.args[0]) in ('copy.deepcopy(in_collection)', 'deepcopy(in_collection)')
        for n in pp))
    lit = _branch_return(agg['_handle_projection_operator'], "'$literal'")
    d['literal'] = _returned_copy(lit) if lit is not None else 'none'
    arr = _branch_return(agg['_parse_basic_expression'], 'isinstance(expression, list)')
    d['constArray'] = _returned_copy(arr) if arr is not None else 'none'
    out = agg['_handle_out_stage']
    d['outStores'] = 'deep' if 'out_collection.insert_many' in _calls(out) else 'none'
    return d


def _lean(v):
    if v is True:
        return 'true'
    if v is False:
        return 'false'
    return {'deep': '.deep', 'shallow': '.shallow', 'none': '.none'}.get(v, '.none')


def write_lean(path):
    d = extract()
    fields = ', '.join('%s := %s' % (k, _lean(d[k])) for k in REFERENCE)
    src = '''/- GENERATED by harness/extract_agg_discipline.py from mongomock/{aggregate,collection}.py of the
   tree under check (/repo, or $VERIF_DEV_REPO) on every run of ./check C16.  Do not edit. -/
import MongoModel.AggHeap

namespace MongoModel.Generated.AggDiscipline
open MongoModel.AggHeap

/-- the edit discipline of the stage handlers as the source has it now -/
def discipline : Disc := { %s }

/-- the theorems of Props/C16.lean are proved for `Disc.reference` -/
theorem discipline_is_reference : discipline = Disc.reference := by decide

end MongoModel.Generated.AggDiscipline
''' % (fields,)
    old = open(path).read() if os.path.exists(path) else None
    if old != src:
        with open(path, 'w') as fh:
            fh.write(src)
    return d


if __name__ == '__main__':
    print(extract())
