"""Translator for C16: reads the EDIT DISCIPLINE of the aggregation stage handlers off the syntax
tree of /repo/mongomock/aggregate.py and collection.py and writes it as
lean/Generated/AggDiscipline.lean (a `MongoModel.AggHeap.Disc`).  `discipline_is_reference` there
is proved by `decide`, so the proof step breaks when the code's discipline changes."""
import ast
import os

REPO = os.environ.get('VERIF_DEV_REPO') or '/repo'

REFERENCE = {'source': 'deep', 'pipelineCopy': 'deep', 'lookupForeign': 'deep', 'lookupWritesInput': True,
             'addFieldsTop': 'shallow', 'addFieldsNested': 'shallow',
             'addFieldsItemValue': 'deep', 'resultCopy': 'deep', 'unwindDoc': 'deep',
             'unwindItem': 'deep', 'unwindIndexed': 'deep', 'samplePops': False,
             'facetSharesInput': False, 'literal': 'deep', 'arrayConst': 'evaluated',
             'outStores': 'deep'}

_DEEP = ('copy.deepcopy', 'deepcopy')
_SHALLOW = ('dict', 'copy.copy', 'collections.OrderedDict')


def _funcs(path):
    tree = ast.parse(open(path).read())
    out = {}
    for node in ast.walk(tree):
        if isinstance(node, ast.FunctionDef):
            out.setdefault(node.name, node)
    return out


def _calls(fn):
    return [ast.unparse(n.func) for n in ast.walk(fn) if isinstance(n, ast.Call)]


def _call_nodes(fn, name):
    return [n for n in ast.walk(fn) if isinstance(n, ast.Call) and ast.unparse(n.func) == name]


def _copy_of(fn, var):
    """how `var` is copied inside fn: deep / shallow / none"""
    for n in ast.walk(fn):
        if isinstance(n, ast.Call) and n.args and ast.unparse(n.args[0]) == var:
            f = ast.unparse(n.func)
            if f in ('copy.deepcopy', 'deepcopy'):
                return 'deep'
    for n in ast.walk(fn):
        if isinstance(n, ast.Call) and n.args and ast.unparse(n.args[0]) == var:
            f = ast.unparse(n.func)
            if f in ('dict', 'copy.copy', 'collections.OrderedDict'):
                return 'shallow'
    return 'none'


def _returned_copy(ret):
    """how a `return <expr>` hands out its value: deep (copy.deepcopy(x)) / shallow / none"""
    v = ret.value
    if isinstance(v, ast.Call):
        f = ast.unparse(v.func)
        if f in ('copy.deepcopy', 'deepcopy'):
            return 'deep'
        if f in ('dict', 'list', 'copy.copy'):
            return 'shallow'
    return 'none'


def _branch_return(fn, marker):
    """the `return` inside the `if` of fn whose test mentions `marker`"""
    for n in ast.walk(fn):
        if isinstance(n, ast.If) and marker in ast.unparse(n.test):
            for m in n.body:
                if isinstance(m, ast.Return):
                    return m
    return None


def _copy_kind(node):
    """how an expression hands a value on: deep / shallow copy call, or the value itself"""
    if isinstance(node, ast.Call):
        f = ast.unparse(node.func)
        if f in _DEEP:
            return 'deep'
        if f in _SHALLOW:
            return 'shallow'
    return 'none'


def _weakest(kinds):
    kinds = list(kinds)
    for k in ('none', 'shallow', 'deep'):
        if k in kinds:
            return k
    return 'none'


def _add_fields_walk(agg):
    """`$addFields` places a value at a dotted name through the helper `_add_field(value, parts,
    new_value)`.  Returns (nested, item):
      nested — how a DOCUMENT found on the path is taken before it is written: the helper must
               re-bind `value` to a copy of it (`value = copy.copy(value) if isinstance(value,
               dict) else {}`) before `value[parts[0]] = …`; `none` when it writes `value` itself;
      item   — how the new value reaches every item of an ARRAY on the path: the recursive call
               inside the list branch must be handed `copy.deepcopy(new_value)`, and the branch
               must return a NEW list;
    and the handler must place the result into its own `dict(doc)` (`addFieldsTop`)."""
    fn = agg.get('_add_field')
    h = agg['_handle_add_fields_stage']
    if fn is None or '_add_field' not in _calls(h):
        return 'none', 'none'
    params = [a.arg for a in fn.args.args]
    if len(params) != 3:
        return 'none', 'none'
    val, _parts, new = params
    nested, item = 'none', 'none'
    writes = [n for n in ast.walk(fn) if isinstance(n, ast.Assign) and any(
        isinstance(t, ast.Subscript) and ast.unparse(t.value) == val for t in n.targets)]
    rebinds = [n for n in ast.walk(fn) if isinstance(n, ast.Assign) and any(
        isinstance(t, ast.Name) and t.id == val for t in n.targets)]
    if writes and rebinds and all(r.lineno < w.lineno for r in rebinds for w in writes):
        kinds = []
        for r in rebinds:
            v = r.value
            if isinstance(v, ast.IfExp):      # copy.copy(value) if isinstance(value, dict) else {}
                kinds.append(_copy_kind(v.body) if val in ast.unparse(v.body) else 'deep')
                if val in ast.unparse(v.orelse):
                    kinds.append(_copy_kind(v.orelse))
            else:
                kinds.append(_copy_kind(v) if val in ast.unparse(v) else 'deep')
        nested = _weakest(kinds)
    for n in ast.walk(fn):
        if isinstance(n, ast.If) and 'list' in ast.unparse(n.test) and val in ast.unparse(n.test):
            rets = [m for m in n.body if isinstance(m, ast.Return)]
            if rets and isinstance(rets[0].value, ast.ListComp):
                calls = [c for c in ast.walk(rets[0].value) if isinstance(c, ast.Call)
                         and ast.unparse(c.func) == fn.name]
                if calls and all(len(c.args) == 3 for c in calls):
                    item = _weakest(_copy_kind(c.args[2]) if new in ast.unparse(c.args[2]) else 'none'
                                    for c in calls)
    return nested, item


def _source_copy(a, col):
    """how the stored documents enter `aggregate`: through `self.find()` (a cursor of copies) or
    `self._get_dataset(<spec>, None, None, <class>)`, whose `_copy_only_fields(doc, None, …)`
    returns `_copy_field(doc, container)` — a rebuild of every dict and list"""
    calls = _calls(a)
    if 'self.find' in calls:
        return 'deep'
    ds = [n for n in ast.walk(a) if isinstance(n, ast.Call) and ast.unparse(n.func) == 'self._get_dataset']
    if ds and len(ds[0].args) == 4 and ast.unparse(ds[0].args[2]) == 'None':
        gd, cof, cf = col.get('_get_dataset'), col.get('_copy_only_fields'), col.get('_copy_field')
        if gd is not None and cof is not None and cf is not None and \
                'self._copy_only_fields' in _calls(gd):
            first = [n for n in cof.body if isinstance(n, ast.If)]
            if first and 'fields is None' in ast.unparse(first[0].test) and any(
                    isinstance(m, ast.Return) and ast.unparse(m.value).startswith('_copy_field(doc')
                    for m in first[0].body) and cf.name in _calls(cf):
                return 'deep'
    return 'deep' if any('deepcopy' in c for c in calls) else 'none'


def _result_copy(a, hlp):
    """`aggregate` of a tz_aware collection: `if self.codec_options.tz_aware:` must re-bind the
    results to a cursor over `helpers.make_datetime_timezone_aware_in_document(list(results))`,
    a helper that returns a new dict for every dict and a new list for every list"""
    for n in ast.walk(a):
        if isinstance(n, ast.If) and 'tz_aware' in ast.unparse(n.test):
            for m in ast.walk(n):
                if isinstance(m, ast.Call) and ast.unparse(m.func).endswith(
                        'make_datetime_timezone_aware_in_document') and m.args and \
                        'results' in ast.unparse(m.args[0]):
                    fn = hlp.get('make_datetime_timezone_aware_in_document')
                    if fn is None:
                        return 'none'
                    dict_ok = list_ok = False
                    for i in ast.walk(fn):
                        if isinstance(i, ast.If) and 'isinstance(value' in ast.unparse(i.test):
                            r = [x for x in i.body if isinstance(x, ast.Return)]
                            if not r or fn.name + '(' not in ast.unparse(r[0].value):
                                continue
                            if 'dict' in ast.unparse(i.test) and isinstance(r[0].value, ast.DictComp):
                                dict_ok = True
                            if 'list' in ast.unparse(i.test) and isinstance(r[0].value, ast.ListComp):
                                list_ok = True
                    return 'deep' if dict_ok and list_ok else 'none'
    return 'none'


def _assigned_kind(fn, name, before):
    """how the local `name` was obtained at its last assignment above line `before`"""
    best = None
    for n in ast.walk(fn):
        if isinstance(n, ast.Assign) and n.lineno < before and any(
                isinstance(t, ast.Name) and t.id == name for t in n.targets):
            if best is None or n.lineno > best.lineno:
                best = n
    if best is None:
        return 'none'           # a parameter / loop variable: the object that was handed in
    if isinstance(best.value, ast.Call) and best.value.args and isinstance(
            best.value.args[0], ast.Name) and best.value.args[0].id == name and \
            _copy_kind(best.value) == 'none':
        # `new_doc = helpers.set_value_by_dot(new_doc, …)` hands the same object back
        return _assigned_kind(fn, name, best.lineno)
    return _copy_kind(best.value)


def _unwind_item(uw):
    """which array element / non-array value does an output document of `$unwind` hold?  Inside
    the loop over `iter_array` the loop variable `field_item` is the ORIGINAL one.  `deep` when
    (a) it is re-assigned from the per-element copy (`field_item = …(new_doc, path)[index]`,
    `new_doc` a deep copy) before `set_value_by_dot(new_doc, path, field_item)` attaches it, and
    (b) that attachment happens only where it was re-assigned (inside the same `if index is not
    None:`), so that a value that is no array stays the copy's own."""
    for loop in ast.walk(uw):
        if not (isinstance(loop, ast.For) and ast.unparse(loop.iter) == 'iter_array'):
            continue
        item = [ast.unparse(e) for e in loop.target.elts][-1] if isinstance(
            loop.target, ast.Tuple) else ast.unparse(loop.target)

        def is_attach(n):
            return isinstance(n, ast.Call) and ast.unparse(n.func).endswith('set_value_by_dot') \
                and len(n.args) == 3 and ast.unparse(n.args[2]) == item

        def is_reassign(n):
            return isinstance(n, ast.Assign) and any(
                isinstance(t, ast.Name) and t.id == item for t in n.targets)
        attach = [n for n in ast.walk(loop) if is_attach(n)]
        if not attach:
            return 'deep'        # nothing of the input is attached to the copy
        for at in attach:
            # the innermost `if` of the loop body that holds this attachment
            holder = None
            for cond in ast.walk(loop):
                if isinstance(cond, ast.If) and any(m is at for b_ in cond.body for m in ast.walk(b_)):
                    holder = cond
            if holder is None or 'index is not None' not in ast.unparse(holder.test):
                return 'none'
            re = [m for b_ in holder.body for m in ast.walk(b_)
                  if is_reassign(m) and m.lineno < at.lineno]
            if not re or not all('new_doc' in ast.unparse(m.value) and 'index' in ast.unparse(m.value)
                                 for m in re):
                return 'none'
            if _assigned_kind(uw, 'new_doc', re[0].lineno) != 'deep':
                return 'none'
        return 'deep'
    return 'none'


def _unwind_indexed(uw):
    """what does `$unwind` write an includeArrayIndex into?  Every call of the local helper that
    writes the index (`_set_index(<doc>, …)`) must be handed a deep copy: either the copy call
    itself or a local that was assigned one.  (The kept documents go through `_preserved`.)"""
    inner = {n.name: n for n in ast.walk(uw) if isinstance(n, ast.FunctionDef) and n is not uw}
    if '_set_index' not in inner:
        return 'none'           # not the code this translator knows: the table must differ
    kinds = []
    for scope in [uw] + list(inner.values()):
        for n in ast.walk(scope):
            if isinstance(n, ast.Call) and ast.unparse(n.func) == '_set_index' and n.args:
                a = n.args[0]
                if isinstance(a, ast.Name):
                    kinds.append(_assigned_kind(scope, a.id, n.lineno + 1))
                else:
                    kinds.append(_copy_kind(a))
    return _weakest(kinds) if kinds else 'none'


def _rebuilds_containers(fn):
    """does a helper `f(value)` return a NEW dict for every dict and a NEW list for every list,
    built from `f` of the items (so that no container of the argument is handed back)?"""
    name = fn.name
    dict_ok = list_ok = False
    for n in ast.walk(fn):
        if isinstance(n, ast.If) and 'isinstance(value' in ast.unparse(n.test):
            rets = [m for m in n.body if isinstance(m, ast.Return)]
            if not rets:
                continue
            r, test = rets[0].value, ast.unparse(n.test)
            inner = name + '(' in ast.unparse(r)
            if ('best_type' in test or 'dict' in test) and isinstance(r, ast.Call) and inner:
                dict_ok = True
            if 'list' in test and isinstance(r, ast.ListComp) and inner:
                list_ok = True
    return dict_ok and list_ok


def _pipeline_copy(a, hlp):
    """`Collection.aggregate`: is the pipeline that reaches `process_pipeline` a rebuilt one?
    `pipeline = helpers.<f>(pipeline)` with a container-rebuilding `<f>`, unconditionally, above
    the call of `process_pipeline`."""
    call = [n for n in ast.walk(a) if isinstance(n, ast.Call)
            and ast.unparse(n.func).endswith('process_pipeline')]
    if not call or 'pipeline' not in [ast.unparse(x) for x in call[0].args]:
        return 'none'
    for n in a.body:                       # top-level statements only: unconditional
        if isinstance(n, ast.Assign) and n.lineno < call[0].lineno and any(
                isinstance(t, ast.Name) and t.id == 'pipeline' for t in n.targets) and \
                isinstance(n.value, ast.Call) and n.value.args and \
                ast.unparse(n.value.args[0]) == 'pipeline':
            f = ast.unparse(n.value.func)
            if f in _DEEP:
                return 'deep'
            fn = hlp.get(f.split('.')[-1])
            if f.startswith('helpers.') and fn is not None and _rebuilds_containers(fn):
                return 'deep'
    return 'none'


def _array_const(branch_if):
    """an array in expression position (`if isinstance(expression, list):`): `evaluated` when the
    branch returns a new list built from the parsed items, else how the list is handed out"""
    if branch_if is None:
        return 'none'
    src = ' '.join(ast.unparse(m) for m in branch_if.body)
    ret = [m for m in branch_if.body if isinstance(m, ast.Return)]
    if ret and isinstance(ret[0].value, (ast.ListComp, ast.List)) and '_parse' in src and \
            'for item in expression' in src:
        return 'evaluated'
    return _returned_copy(ret[0]) if ret else 'none'


def _branch_if(fn, marker):
    for n in ast.walk(fn):
        if isinstance(n, ast.If) and marker in ast.unparse(n.test):
            return n
    return None


def extract():
    agg = _funcs(os.path.join(REPO, 'mongomock', 'aggregate.py'))
    col = _funcs(os.path.join(REPO, 'mongomock', 'collection.py'))
    d = {}
    a = col['aggregate']
    hlp = _funcs(os.path.join(REPO, 'mongomock', 'helpers.py'))
    d['source'] = _source_copy(a, col)
    d['pipelineCopy'] = _pipeline_copy(a, hlp)
    d['resultCopy'] = _result_copy(a, hlp)
    lk = agg['_handle_lookup_stage']
    d['lookupForeign'] = 'deep' if 'foreign_collection.find' in _calls(lk) else 'none'
    loop_vars = [ast.unparse(n.target) for n in ast.walk(lk)
                 if isinstance(n, ast.For) and ast.unparse(n.iter) == 'in_collection']
    d['lookupWritesInput'] = any(
        isinstance(n, ast.Assign) and any(
            isinstance(t, ast.Subscript) and ast.unparse(t.value) in loop_vars for t in n.targets)
        for n in ast.walk(lk))
    d['addFieldsTop'] = _copy_of(agg['_handle_add_fields_stage'], 'doc')
    d['addFieldsNested'], d['addFieldsItemValue'] = _add_fields_walk(agg)
    uw = agg['_handle_unwind_stage']
    # both places that build a new document out of the input document (empty array with
    # preserve…, one per element): `new_doc = <copy>(doc)`; the weakest copy decides
    built = [_copy_kind(n.value) for n in ast.walk(uw)
             if isinstance(n, ast.Assign) and any(isinstance(t, ast.Name) and t.id == 'new_doc'
                                                  for t in n.targets)
             and isinstance(n.value, ast.Call) and n.value.args
             and ast.unparse(n.value.args[0]) == 'doc']
    d['unwindDoc'] = _weakest(built) if len(built) >= 2 else 'none'
    d['unwindItem'] = _unwind_item(uw)
    d['unwindIndexed'] = _unwind_indexed(uw)
    sm = agg['_handle_sample_stage']
    # any call that edits the option dict in place
    d['samplePops'] = any(c in ('options.pop', 'options.popitem', 'options.clear',
                                'options.update', 'options.setdefault', 'options.__delitem__')
                          for c in _calls(sm)) or any(
        isinstance(n, ast.Delete) for n in ast.walk(sm)) or any(
        isinstance(n, (ast.Assign, ast.AugAssign)) and any(
            isinstance(t, ast.Subscript) and ast.unparse(t.value) == 'options'
            for t in (n.targets if isinstance(n, ast.Assign) else [n.target]))
        for n in ast.walk(sm))
    fc = agg['_handle_facet_stage']
    pp = _call_nodes(fc, 'process_pipeline')
    # every sub-pipeline must be started on `copy.deepcopy(in_collection)`, inside the loop
    d['facetSharesInput'] = not (bool(pp) and all(
        ast.unparse(n.args[0]) in ('copy.deepcopy(in_collection)', 'deepcopy(in_collection)')
        for n in pp))
    lit = _branch_return(agg['_handle_projection_operator'], "'$literal'")
    d['literal'] = _returned_copy(lit) if lit is not None else 'none'
    d['arrayConst'] = _array_const(
        _branch_if(agg['_parse_basic_expression'], 'isinstance(expression, list)'))
    out = agg['_handle_out_stage']
    d['outStores'] = 'deep' if 'out_collection.insert_many' in _calls(out) else 'none'
    return d


def _lean(v, k=None):
    if k == 'arrayConst':
        return '.evaluated' if v == 'evaluated' else '.copied ' + _lean(v)
    if v is True:
        return 'true'
    if v is False:
        return 'false'
    return {'deep': '.deep', 'shallow': '.shallow', 'none': '.none'}.get(v, '.none')


def write_lean(path):
    d = extract()
    fields = ', '.join('%s := %s' % (k, _lean(d[k], k)) for k in REFERENCE)
    src = '''/- GENERATED by harness/extract_agg_discipline.py from mongomock/{aggregate,collection}.py of the
   tree under check (/repo, or $VERIF_DEV_REPO) on every run of ./check C16.  Do not edit. -/
import MongoModel.AggHeap

namespace MongoModel.Generated.AggDiscipline
open MongoModel.AggHeap

/-- the edit discipline of the stage handlers as the source has it now -/
def discipline : Disc := { %s }

/-- the theorems of Props/C16.lean are proved for `Disc.reference` -/
theorem discipline_is_reference : discipline = Disc.reference := by decide

end MongoModel.Generated.AggDiscipline
''' % (fields,)
    old = open(path).read() if os.path.exists(path) else None
    if old != src:
        with open(path, 'w') as fh:
            fh.write(src)
    return d


if __name__ == '__main__':
    print(extract())
