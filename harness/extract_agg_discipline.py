"""Translator for C16: reads the EDIT DISCIPLINE of the aggregation stage handlers off the syntax
tree of /repo/mongomock/aggregate.py and collection.py and writes it as
lean/Generated/AggDiscipline.lean (a `MongoModel.AggHeap.Disc`).  `discipline_is_reference` there
is proved by `decide`, so the proof step breaks when the code's discipline changes."""
import ast
import os

REPO = os.environ.get('VERIF_DEV_REPO') or '/repo'

REFERENCE = {'source': 'deep', 'lookupForeign': 'deep', 'lookupWritesInput': True,
             'addFieldsTop': 'shallow', 'unwindDoc': 'deep', 'samplePops': False,
             'facetSharesInput': False, 'literal': 'deep', 'constArray': 'deep',
             'outStores': 'deep'}


def _funcs(path):
    tree = ast.parse(open(path).read())
    out = {}
    for node in ast.walk(tree):
        if isinstance(node, ast.FunctionDef):
            out.setdefault(node.name, node)
    return out


def _calls(fn):
    return [ast.unparse(n.func) for n in ast.walk(fn) if isinstance(n, ast.Call)]


def _call_nodes(fn, name):
    return [n for n in ast.walk(fn) if isinstance(n, ast.Call) and ast.unparse(n.func) == name]


def _copy_of(fn, var):
    """how `var` is copied inside fn: deep / shallow / none"""
    for n in ast.walk(fn):
        if isinstance(n, ast.Call) and n.args and ast.unparse(n.args[0]) == var:
            f = ast.unparse(n.func)
            if f in ('copy.deepcopy', 'deepcopy'):
                return 'deep'
    for n in ast.walk(fn):
        if isinstance(n, ast.Call) and n.args and ast.unparse(n.args[0]) == var:
            f = ast.unparse(n.func)
            if f in ('dict', 'copy.copy', 'collections.OrderedDict'):
                return 'shallow'
    return 'none'


def _returned_copy(ret):
    """how a `return <expr>` hands out its value: deep (copy.deepcopy(x)) / shallow / none"""
    v = ret.value
    if isinstance(v, ast.Call):
        f = ast.unparse(v.func)
        if f in ('copy.deepcopy', 'deepcopy'):
            return 'deep'
        if f in ('dict', 'list', 'copy.copy'):
            return 'shallow'
    return 'none'


def _branch_return(fn, marker):
    """the `return` inside the `if` of fn whose test mentions `marker`"""
    for n in ast.walk(fn):
        if isinstance(n, ast.If) and marker in ast.unparse(n.test):
            for m in n.body:
                if isinstance(m, ast.Return):
                    return m
    return None


def extract():
    agg = _funcs(os.path.join(REPO, 'mongomock', 'aggregate.py'))
    col = _funcs(os.path.join(REPO, 'mongomock', 'collection.py'))
    d = {}
    a = col['aggregate']
    d['source'] = 'deep' if 'self.find' in _calls(a) else (
        'deep' if any('deepcopy' in c for c in _calls(a)) else 'none')
    lk = agg['_handle_lookup_stage']
    d['lookupForeign'] = 'deep' if 'foreign_collection.find' in _calls(lk) else 'none'
    loop_vars = [ast.unparse(n.target) for n in ast.walk(lk)
                 if isinstance(n, ast.For) and ast.unparse(n.iter) == 'in_collection']
    d['lookupWritesInput'] = any(
        isinstance(n, ast.Assign) and any(
            isinstance(t, ast.Subscript) and ast.unparse(t.value) in loop_vars for t in n.targets)
        for n in ast.walk(lk))
    d['addFieldsTop'] = _copy_of(agg['_handle_add_fields_stage'], 'doc')
    uw = agg['_handle_unwind_stage']
    deep = [n for n in _call_nodes(uw, 'copy.deepcopy') if n.args and ast.unparse(n.args[0]) == 'doc']
    # both places that build a new document (empty array with preserve…, one per element)
    d['unwindDoc'] = 'deep' if len(deep) >= 2 else _copy_of(uw, 'doc') if not deep else 'mixed'
    sm = agg['_handle_sample_stage']
    # any call that edits the option dict in place
    d['samplePops'] = any(c in ('options.pop', 'options.popitem', 'options.clear',
                                'options.update', 'options.setdefault', 'options.__delitem__')
                          for c in _calls(sm)) or any(
        isinstance(n, ast.Delete) for n in ast.walk(sm)) or any(
        isinstance(n, (ast.Assign, ast.AugAssign)) and any(
            isinstance(t, ast.Subscript) and ast.unparse(t.value) == 'options'
            for t in (n.targets if isinstance(n, ast.Assign) else [n.target]))
        for n in ast.walk(sm))
    fc = agg['_handle_facet_stage']
    pp = _call_nodes(fc, 'process_pipeline')
    # every sub-pipeline must be started on `copy.deepcopy(in_collection)`, inside the loop
    d['facetSharesInput'] = not (bool(pp) and all(
        ast.unparse(n.args[0]) in ('copy.deepcopy(in_collection)', 'deepcopy(in_collection)')
        for n in pp))
    lit = _branch_return(agg['_handle_projection_operator'], "'$literal'")
    d['literal'] = _returned_copy(lit) if lit is not None else 'none'
    arr = _branch_return(agg['_parse_basic_expression'], 'isinstance(expression, list)')
    d['constArray'] = _returned_copy(arr) if arr is not None else 'none'
    out = agg['_handle_out_stage']
    d['outStores'] = 'deep' if 'out_collection.insert_many' in _calls(out) else 'none'
    return d


def _lean(v):
    if v is True:
        return 'true'
    if v is False:
        return 'false'
    return {'deep': '.deep', 'shallow': '.shallow', 'none': '.none'}.get(v, '.none')


def write_lean(path):
    d = extract()
    fields = ', '.join('%s := %s' % (k, _lean(d[k])) for k in REFERENCE)
    src = '''/- GENERATED by harness/extract_agg_discipline.py from %s/mongomock/{aggregate,collection}.py
   on every run of ./check C16.  Do not edit. -/
import MongoModel.AggHeap

namespace MongoModel.Generated.AggDiscipline
open MongoModel.AggHeap

/-- the edit discipline of the stage handlers as the source has it now -/
def discipline : Disc := { %s }

/-- the theorems of Props/C16.lean are proved for `Disc.reference` -/
theorem discipline_is_reference : discipline = Disc.reference := by decide

end MongoModel.Generated.AggDiscipline
''' % (REPO, fields)
    old = open(path).read() if os.path.exists(path) else None
    if old != src:
        with open(path, 'w') as fh:
            fh.write(src)
    return d


if __name__ == '__main__':
    print(extract())
