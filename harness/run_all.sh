#!/bin/sh
# development: build, then run every claimed check at the given tier; prints one status line each
#   harness/run_all.sh quick|thorough [seed]
tier=${1:-quick}; seed=${2:-0}
cd "$(dirname "$0")/.." || exit 2
(cd lean && lake build MongoModel Spec Proofs Props Generated mmdriver >/dev/null 2>&1) || echo "BUILD FAILED"
for id in $(python3 -c "import json; print(' '.join(c['property_id'] for c in json.load(open('MANIFEST.json'))['checks']))"); do
  start=$(date +%s)
  out=$(VERIF_SEED=$seed ./check $id --tier $tier 2>&1); rc=$?
  end=$(date +%s)
  echo "$id tier=$tier seed=$seed exit=$rc wall=$((end-start))s $(echo "$out" | grep -c '^VIOLATION') violations; $(echo "$out" | grep '^VIOLATION\|INTERNAL' | head -2 | tr '\n' ' ')"
done
