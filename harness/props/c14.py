"""C14 — single-document operations act on exactly one, well-defined document.

Histories with several matching documents, sort specifications (1-3 keys, ascending and
descending in every position, over scalar, array-valued, embedded-document, dotted and absent
keys, `_id` and `$natural`), projections (including ones that drop `_id` or everything), both
return modes and upserts run on the real code and on the Lean model (`MongoModel.stepX`).
Directly on python: before every single-document operation the harness asks the real code which
documents match (in natural order), puts them in the requested sort order with the independent
reference order of harness/c11_order.py (written from the property's text, not the library's
sort) and afterwards checks that exactly the first one was touched and that the returned image is
that document's.
"""
import copy
import sys

import c11_order
import common
import hist
import histcheck
from histcheck import freeze

ID = 'C14'
SALT = 1414
RULE = ('history = 3-18 generated operations dominated by update_one / replace_one / delete_one '
        'and find_one_and_update / _replace / _delete with filters matching several documents, '
        'sort specifications of 1-3 keys (top-level fields holding scalars of every kind, arrays, '
        'embedded documents or nothing, dotted paths, _id, $natural; every key ascending or '
        'descending whatever its position, ties on every key frequent), projections (none, '
        'inclusion, exclusion, {_id: 0}, one that yields {}), return_document BEFORE/AFTER and '
        'upsert; every step is compared with the Lean model (outcome, full state); on python the '
        'matches are taken before the call (find(filter), natural order) and put in the requested '
        'sort order by the reference order of harness/c11_order.py (key by key, a descending key '
        'reverses that key only, ties on every key keep natural order); afterwards exactly the '
        'first one may differ / disappear and the returned document must be its projected before '
        '/ after image; non-trivial = a find_one_and_* whose first match in sort order is not its '
        'first match in natural order; distinct = by hash of the history')
ASSUMPTIONS = [
    'the pre-call match list uses the real find(filter) (C01 covers it) and the expected images '
    'use the real find_one({_id}, projection) (C12); the sort order of the matches is the '
    'python-only reference harness/c11_order.py `ref_sorted` - where it makes no claim (positional '
    'paths, scalars met inside an array on a dotted path, the listed deviations of C11: NaN keys, '
    'Python-== items inside compared arrays / documents, ...) the order of the real '
    'find(filter).sort(...) is used instead',
    'TTL-free histories',
    'these histories draw no positional $ paths (the positional operator is modelled '
    'and judged under C02); a step the model '
    'answers unmodelled for cuts the history there',
]

known_labels = {e['id'] for e in common.load_known(ID) if e.get('status') == 'known'}
ONE = ('update_one', 'replace_one', 'delete_one')
FAM = ('find_one_and_update', 'find_one_and_replace', 'find_one_and_delete')


def histgen(rng, oids):
    hg = hist.HistGen(rng, oids, weights=dict(
        insert_one=14, insert_many=10, update_one=10, update_many=2, replace_one=6,
        delete_one=6, delete_many=1, find=0, count=0, distinct=0, create_index=1,
        drop_index=0, drop_indexes=0, drop=1, find_one=3, find_one_and_update=16,
        find_one_and_replace=8, find_one_and_delete=8), ttl=False)
    hg.ug.malformed = 0.02
    hg.filt = hg.fam_filter
    hg.sort = hg.wide_sort
    hg.array_keys = 0.15
    return hg


def length(rng):
    return rng.choice([3, 5, 8, 12, 18])


view = histcheck.full_view


REF_STATS = {'fam_steps_judged_by_reference_order': 0, 'fam_steps_library_order_only': 0,
             'fam_steps_descending_key_not_last_with_ties': 0}


def sort_of(op):
    return op[4] if op[0] != 'find_one_and_delete' else op[3]


def requested_order(matches, sort, lib_sorted):
    """the matches (given in natural order) in the requested sort order → (documents, True) by
    the reference order; where the reference makes no claim, (the real cursor's order, False)"""
    if not sort:
        return list(matches), True
    spec = [tuple(x) for x in sort]
    try:
        flags = c11_order.flags_of(matches, [spec])
        if flags:
            raise c11_order.Outside('listed deviation of C11: ' + ', '.join(sorted(flags)))
        return c11_order.ref_sorted(matches, spec), True
    except c11_order.Outside:
        return lib_sorted, False


def ties_under_descending_key(matches, sort):
    """a descending key that is not the last key, with two matches equal on it"""
    for n, (k, direction) in enumerate(sort[:-1]):
        if direction < 0 and not k.startswith('$'):
            ks = [c11_order.ref_key(d, k, True) for d in matches]
            if any(c11_order.key_cmp(x, y) == 0 for i, x in enumerate(ks) for y in ks[:i]):
                return True
    return False


def pre_probe(runner, op):
    k = op[0]
    if k not in ONE and k not in FAM:
        return None
    c = runner.coll
    filt = copy.deepcopy(op[1])
    by_ref = None
    try:
        matches = list(c.find(filt))
        lib_sorted = None
        if k in FAM and sort_of(op):
            # the real cursor's order: used only where the reference makes no claim; a sort the
            # library refuses is refused by the call itself (no claim on that step)
            lib_sorted = list(c.find(copy.deepcopy(op[1])).sort([tuple(x) for x in sort_of(op)]))
    except Exception as e:  # pylint: disable=broad-except
        return {'error': type(e).__name__}
    natural = [d['_id'] for d in matches]
    if k in FAM:
        docs, by_ref = requested_order(matches, sort_of(op), lib_sorted)
        ordered = [d['_id'] for d in docs]
        if sort_of(op):
            REF_STATS['fam_steps_judged_by_reference_order' if by_ref else
                      'fam_steps_library_order_only'] += 1
            if by_ref and ties_under_descending_key(matches, sort_of(op)):
                REF_STATS['fam_steps_descending_key_not_last_with_ties'] += 1
    else:
        ordered = natural
    # positions in the natural order of the whole collection (= the previous observation)
    allids = [d['_id'] for d in c.find({})]

    def pos(x):
        for j, y in enumerate(allids):
            if type(x) is type(y) and x == y:
                return j
        for j, y in enumerate(allids):
            if x == y:
                return j
        return -1
    res = {'ordered': [pos(x) for x in ordered], 'natural': [pos(x) for x in natural],
           'size': len(allids), 'by_ref': by_ref}
    if k in FAM and ordered:
        proj = op[3] if k != 'find_one_and_delete' else op[2]
        try:
            res['before'] = wire_canon(c.find_one({'_id': ordered[0]}, copy.deepcopy(proj)))
        except Exception as e:  # pylint: disable=broad-except
            res['before'] = ('raised', type(e).__name__)
    return res


def probe(runner, op):
    k = op[0]
    if k not in ('find_one_and_update', 'find_one_and_replace'):
        return None
    return {'proj': op[3]}


def by_id(docs):
    return [(d.get('_id'), d) for d in docs]


def changed_ids(prev, cur):
    """ids (as in prev) whose document differs or is gone in cur"""
    out = []
    for i, d in by_id(prev):
        same = [e for j, e in by_id(cur) if freeze(j) == freeze(i)]
        if not same or freeze(same[0]) != freeze(d):
            out.append(i)
    return out


def oracle(history, steps):
    fails = []
    prev = []
    for i, st in enumerate(steps):
        docs = st.obs.get('docs') if isinstance(st.obs, dict) else None
        if not isinstance(docs, list):
            break
        k = st.op[0]
        pre = (st.extra or {}).get('pre')
        if (k in ONE or k in FAM) and pre and 'error' not in pre and st.out[0] != 'err':
            if pre['size'] != len(prev) or any(j < 0 for j in pre['ordered']):
                prev = docs
                continue
            NONE = ('<no match>',)
            first = prev[pre['ordered'][0]].get('_id') if pre['ordered'] else NONE
            ch = changed_ids(prev, docs)
            added = len(docs) - (len(prev) - len([x for x in ch if not any(
                freeze(j) == freeze(x) for j, _ in by_id(docs))]))
            if first is NONE:
                # nothing matched: nothing changes (an upsert may add one document)
                if ch:
                    fails.append((i, 'touched-unmatched', '%s matched nothing but changed %r' % (k, ch)))
            else:
                wrong = [x for x in ch if freeze(x) != freeze(first)]
                if wrong:
                    fails.append((i, 'wrong-target', '%s should act on %r (first match in %s '
                                  'order%s) but changed %r'
                                  % (k, first, 'sort' if k in FAM else 'natural',
                                     ': matches in natural order at positions %r, in the '
                                     'requested order %r' % (pre['natural'], pre['ordered'])
                                     if k in FAM else '', wrong)))
                if len(ch) > 1:
                    fails.append((i, 'more-than-one', '%s changed %d documents: %r' % (k, len(ch), ch)))
            if k in FAM and first is not NONE:
                ret = st.out[1]
                after = bool(st.op[6]) if k != 'find_one_and_delete' else False
                if not after:
                    exp = pre.get('before')
                    if not (isinstance(exp, tuple) and exp and exp[0] == 'raised'):
                        if exp != strip_fresh(freeze(ret)):
                            fails.append((i, 'wrong-image', '%s returned %r, the projected '
                                          'before-image of the target is %r' % (k, ret, exp)))
                else:
                    # the after image must be (a projection of) the target's new document
                    tgt = [d for j, d in by_id(docs) if freeze(j) == freeze(first)]
                    if tgt and isinstance(ret, dict):
                        for key, val in ret.items():
                            if key not in tgt[0] and not isinstance(val, (dict, list)):
                                fails.append((i, 'wrong-image', '%s (AFTER) returned a field %r '
                                              'the target does not have' % (k, key)))
                            elif key in tgt[0] and not isinstance(val, (dict, list)) and \
                                    freeze(tgt[0][key]) != freeze(val):
                                fails.append((i, 'wrong-image', '%s (AFTER) returned %r for %r '
                                              'but the target now holds %r'
                                              % (k, val, key, tgt[0][key])))
                    elif tgt and ret is None:
                        fails.append((i, 'wrong-image', '%s (AFTER) returned None' % k))
        prev = docs
        if any(l not in known_labels for (_, l, _) in fails) or len(fails) > 50:
            break
    return fails


def wire_canon(v):
    """python-side value → the frozen rendering of decoded observations, ObjectIds blanked"""
    import datetime as _dt
    from mongomock import ObjectId
    if isinstance(v, dict):
        return ('doc',) + tuple((k, wire_canon(x)) for k, x in v.items())
    if isinstance(v, list):
        return ('arr',) + tuple(wire_canon(x) for x in v)
    if isinstance(v, bool):
        return ('bool', v)
    if isinstance(v, float):
        return ('dbl', v)
    if isinstance(v, int):
        return ('int', v)
    if isinstance(v, _dt.datetime):
        return ('date', str(hist._dt_us(v)))
    if isinstance(v, ObjectId):
        return '<oid>'
    return v


def strip_fresh(v):
    """blank ObjectIds in a frozen rendering"""
    if isinstance(v, histcheck.Fresh):
        return '<oid>'
    if isinstance(v, tuple):
        if len(v) == 2 and v[0] == 'oid':
            return '<oid>'
        return tuple(strip_fresh(x) for x in v)
    return v


def nontrivial(history, steps):
    for st in steps:
        pre = (st.extra or {}).get('pre')
        if st.op[0] in FAM and pre and 'error' not in pre and pre['ordered'] and pre['natural'] \
                and pre['ordered'][0] != pre['natural'][0]:
            return True
    return False


_run, replay, replay_finding = histcheck.module_api(sys.modules[__name__], 1000, 25000, fixed=True)


def run(ctx, proof, driver_ok):
    for key in REF_STATS:
        REF_STATS[key] = 0
    cov = _run(ctx, proof, driver_ok)
    cov.update(REF_STATS)
    return cov
