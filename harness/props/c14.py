"""C14 — single-document operations act on exactly one, well-defined document.

Histories with several matching documents, sort specifications, projections (including ones
that drop `_id` or everything), both return modes and upserts run on the real code and on the
Lean model (`MongoModel.stepX`).  Directly on python: before every single-document operation
the harness asks the real code which documents match (and in which sort order) and afterwards
checks that exactly the first one was touched and that the returned image is that document's.
"""
import copy
import sys

import common
import hist
import histcheck
from histcheck import freeze

ID = 'C14'
SALT = 1414
RULE = ('history = 3-18 generated operations dominated by update_one / replace_one / delete_one '
        'and find_one_and_update / _replace / _delete with filters matching several documents, '
        '1-2 key sort specifications, projections (none, inclusion, exclusion, {_id: 0}, one that '
        'yields {}), return_document BEFORE/AFTER and upsert; every step is compared with the '
        'Lean model (outcome, full state); on python the set of matches and their sort order are '
        'taken before the call and afterwards exactly the first one may differ / disappear and '
        'the returned document must be its projected before / after image; non-trivial = a '
        'find_one_and_* whose first match in sort order is not its first match in natural order; '
        'distinct = by hash of the history')
ASSUMPTIONS = [
    'the pre-call match list uses the real find(filter) / find(filter).sort(...) (C01, C11 cover '
    'those) and the expected images use the real find_one({_id}, projection) (C12)',
    'TTL-free histories; positional $ paths unmodelled',
]

known_labels = {e['id'] for e in common.load_known(ID) if e.get('status') == 'known'}
ONE = ('update_one', 'replace_one', 'delete_one')
FAM = ('find_one_and_update', 'find_one_and_replace', 'find_one_and_delete')


def histgen(rng, oids):
    hg = hist.HistGen(rng, oids, weights=dict(
        insert_one=14, insert_many=10, update_one=10, update_many=2, replace_one=6,
        delete_one=6, delete_many=1, find=0, count=0, distinct=0, create_index=1,
        drop_index=0, drop_indexes=0, drop=1, find_one=3, find_one_and_update=16,
        find_one_and_replace=8, find_one_and_delete=8), ttl=False)
    hg.ug.malformed = 0.02
    hg.filt = hg.fam_filter
    return hg


def length(rng):
    return rng.choice([3, 5, 8, 12, 18])


view = histcheck.full_view


def pre_probe(runner, op):
    k = op[0]
    if k not in ONE and k not in FAM:
        return None
    c = runner.coll
    filt = copy.deepcopy(op[1])
    try:
        if k in FAM:
            sort = op[4] if k != 'find_one_and_delete' else op[3]
            cur = c.find(filt)
            if sort:
                cur = cur.sort([tuple(x) for x in sort])
            ordered = [d['_id'] for d in cur]
        else:
            ordered = [d['_id'] for d in c.find(filt)]
        natural = [d['_id'] for d in c.find(copy.deepcopy(op[1]))]
    except Exception as e:  # pylint: disable=broad-except
        return {'error': type(e).__name__}
    # positions in the natural order of the whole collection (= the previous observation)
    allids = [d['_id'] for d in c.find({})]

    def pos(x):
        for j, y in enumerate(allids):
            if type(x) is type(y) and x == y:
                return j
        for j, y in enumerate(allids):
            if x == y:
                return j
        return -1
    res = {'ordered': [pos(x) for x in ordered], 'natural': [pos(x) for x in natural],
           'size': len(allids)}
    if k in FAM and ordered:
        proj = op[3] if k != 'find_one_and_delete' else op[2]
        try:
            res['before'] = wire_canon(c.find_one({'_id': ordered[0]}, copy.deepcopy(proj)))
        except Exception as e:  # pylint: disable=broad-except
            res['before'] = ('raised', type(e).__name__)
    return res


def probe(runner, op):
    k = op[0]
    if k not in ('find_one_and_update', 'find_one_and_replace'):
        return None
    return {'proj': op[3]}


def by_id(docs):
    return [(d.get('_id'), d) for d in docs]


def changed_ids(prev, cur):
    """ids (as in prev) whose document differs or is gone in cur"""
    out = []
    for i, d in by_id(prev):
        same = [e for j, e in by_id(cur) if freeze(j) == freeze(i)]
        if not same or freeze(same[0]) != freeze(d):
            out.append(i)
    return out


def oracle(history, steps):
    fails = []
    prev = []
    for i, st in enumerate(steps):
        docs = st.obs.get('docs') if isinstance(st.obs, dict) else None
        if not isinstance(docs, list):
            break
        k = st.op[0]
        pre = (st.extra or {}).get('pre')
        if (k in ONE or k in FAM) and pre and 'error' not in pre and st.out[0] != 'err':
            if pre['size'] != len(prev) or any(j < 0 for j in pre['ordered']):
                prev = docs
                continue
            NONE = ('<no match>',)
            first = prev[pre['ordered'][0]].get('_id') if pre['ordered'] else NONE
            ch = changed_ids(prev, docs)
            added = len(docs) - (len(prev) - len([x for x in ch if not any(
                freeze(j) == freeze(x) for j, _ in by_id(docs))]))
            if first is NONE:
                # nothing matched: nothing changes (an upsert may add one document)
                if ch:
                    fails.append((i, 'touched-unmatched', '%s matched nothing but changed %r' % (k, ch)))
            else:
                wrong = [x for x in ch if freeze(x) != freeze(first)]
                if wrong:
                    fails.append((i, 'wrong-target', '%s should act on %r (first match in %s '
                                  'order) but changed %r' % (k, first, 'sort' if k in FAM else
                                                             'natural', wrong)))
                if len(ch) > 1:
                    fails.append((i, 'more-than-one', '%s changed %d documents: %r' % (k, len(ch), ch)))
            if k in FAM and first is not NONE:
                ret = st.out[1]
                after = bool(st.op[6]) if k != 'find_one_and_delete' else False
                if not after:
                    exp = pre.get('before')
                    if not (isinstance(exp, tuple) and exp and exp[0] == 'raised'):
                        if exp != strip_fresh(freeze(ret)):
                            fails.append((i, 'wrong-image', '%s returned %r, the projected '
                                          'before-image of the target is %r' % (k, ret, exp)))
                else:
                    # the after image must be (a projection of) the target's new document
                    tgt = [d for j, d in by_id(docs) if freeze(j) == freeze(first)]
                    if tgt and isinstance(ret, dict):
                        for key, val in ret.items():
                            if key not in tgt[0] and not isinstance(val, (dict, list)):
                                fails.append((i, 'wrong-image', '%s (AFTER) returned a field %r '
                                              'the target does not have' % (k, key)))
                            elif key in tgt[0] and not isinstance(val, (dict, list)) and \
                                    freeze(tgt[0][key]) != freeze(val):
                                fails.append((i, 'wrong-image', '%s (AFTER) returned %r for %r '
                                              'but the target now holds %r'
                                              % (k, val, key, tgt[0][key])))
                    elif tgt and ret is None:
                        fails.append((i, 'wrong-image', '%s (AFTER) returned None' % k))
        prev = docs
        if any(l not in known_labels for (_, l, _) in fails) or len(fails) > 50:
            break
    return fails


def wire_canon(v):
    """python-side value → the frozen rendering of decoded observations, ObjectIds blanked"""
    import datetime as _dt
    from mongomock import ObjectId
    if isinstance(v, dict):
        return ('doc',) + tuple((k, wire_canon(x)) for k, x in v.items())
    if isinstance(v, list):
        return ('arr',) + tuple(wire_canon(x) for x in v)
    if isinstance(v, bool):
        return ('bool', v)
    if isinstance(v, float):
        return ('dbl', v)
    if isinstance(v, int):
        return ('int', v)
    if isinstance(v, _dt.datetime):
        return ('date', str(hist._dt_us(v)))
    if isinstance(v, ObjectId):
        return '<oid>'
    return v


def strip_fresh(v):
    """blank ObjectIds in a frozen rendering"""
    if isinstance(v, histcheck.Fresh):
        return '<oid>'
    if isinstance(v, tuple):
        if len(v) == 2 and v[0] == 'oid':
            return '<oid>'
        return tuple(strip_fresh(x) for x in v)
    return v


def nontrivial(history, steps):
    for st in steps:
        pre = (st.extra or {}).get('pre')
        if st.op[0] in FAM and pre and 'error' not in pre and pre['ordered'] and pre['natural'] \
                and pre['ordered'][0] != pre['natural'][0]:
            return True
    return False


run, replay, replay_finding = histcheck.module_api(sys.modules[__name__], 1000, 25000, fixed=True)
