"""C02 — update operators and replacements transform documents exactly as specified.

Chained update histories (each update shapes the input of the next) through update_one,
update_many and replace_one, for the emulated server versions 4.4 and 5.0.5, run on the real
code and on the Lean model (`MongoModel.applyUpdate` / `applyUpdateColl`).  Directly on python:
an independent reference implementation of the operator definitions (harness/refupdate.py)
computes the expected document for every matched document whenever it is willing to commit to
an answer, and the reported counts are compared with what was matched / changed.
"""
import copy
import sys

import common
import gen_update
import hist
import histcheck
import refupdate
from histcheck import freeze

ID = 'C02'
SALT = 202
RULE = ('history = 2-14 generated operations, mostly update_one / update_many / replace_one with '
        '1-3 operators each ($set $unset $inc $min $max $push with $each/$position/$sort/$slice, '
        '$addToSet with $each, $pull, $pullAll, $pop, $rename, $currentDate, $setOnInsert) on '
        'dotted paths aimed at existing fields, arrays and beyond their end, chained so that each '
        'update works on the result of the previous ones, half of the histories on emulated '
        'server 4.4; 3% of the operators are malformed (unknown $operator in any position, also behind '
        'valid ones and with filters matching nothing; a clause next to $each in $addToSet; bad '
        'arguments); the witnesses of the repaired defects are replayed first; every step is '
        'compared with the Lean model (outcome, full documents): an accepted unknown operator or '
        '$addToSet clause is reported directly; and, '
        'where the independent reference semantics commits to an answer, with the reference; '
        '10% of the operations use the positional operator $ (gen_update.PositionalGen: paths f.$.x, '
        'f.$, f.$.c.y, f.$.l.$, d.$, $[] / $[id], through $set $unset $inc $min $max $pop '
        '$currentDate $setOnInsert $push $addToSet $pull $pullAll, one or two positional keys, next '
        'to non-positional operators; filters constraining the array by one dotted condition, by '
        '$elemMatch, by several conditions, only through other fields, inside $and / $or, by a '
        'negation, through a key sharing a prefix, or by nothing that matches; through update_one / '
        'update_many / find_one_and_update / bulk_write, 8% as upserts): compared with the Lean '
        'model (MongoModel.applyOpsPos) and, on python, with the rule of the positional operator '
        '(refupdate.resolve_positional: first element satisfying the query\'s condition on the '
        'array, else an error) - a departure is filed under its deviation class; '
        'every update_many over >= 2 matches is compared '
        'with one update_one per matched document on a twin collection; '
        '10% of the operations are a $push with $each and any subset of $position / $sort / $slice '
        '(bounds around the length of the array) onto arrays of 0-5 numbers or of sub-documents '
        'ranked by k that are not in order (4% of the operations insert such documents), so that '
        'the modifiers really reorder and cut; 60% of all modifier documents (also those with an '
        'unrecognized clause among valid ones) are spelled in a shuffled key order - the order in '
        'which the modifiers appear is immaterial: insert at $position, then $sort, then $slice; '
        'non-trivial = an update that changes a document through a dotted path or an array '
        'operator; distinct = by hash of the history')
ASSUMPTIONS = [
    'the reference semantics declines (no verdict) on conflicting paths, type-confused targets, '
    '$pull with conditions, $rename onto itself; these cases are covered by the '
    'model correspondence only',
    'positional paths: the reference resolves $ by the rule of the MongoDB manual for ONE condition '
    'on the array (dotted, $elemMatch, or on the elements as values); it declines where the manual '
    'leaves the position open (several conditions on one array outside $elemMatch, conditions '
    'inside $and/$or/$nor, negations, nested arrays, $[] / $[id]); outside the Lean model '
    '(`unmodelled`, judged on python only): a container carried over to a key under another '
    'top-level field or from $push/$addToSet/$pullAll/$pull, keys behind `f.$` in one operator '
    'document, a path starting with $, two $ in an array-operator path',
    'field order is not part of what the reference compares',
]

known_labels = {e['id'] for e in common.load_known(ID) if e.get('status') == 'known'}


POSITIONAL_KINDS = {}
POSITIONAL_JUDGED = {}      # verdicts of the positional rule on python's steps (evidence)


def _pj(k):
    POSITIONAL_JUDGED[k] = POSITIONAL_JUDGED.get(k, 0) + 1


class Gen02(hist.HistGen):
    def pg(self):
        if not hasattr(self, '_pg'):
            import gen_update
            self._pg = gen_update.PositionalGen(self.r)
            self._pg.kinds = POSITIONAL_KINDS      # one histogram for the whole run (evidence)
        return self._pg

    def history(self, n):
        ops = [self.op() for _ in range(n)]
        return ops

    def op(self):
        r = self.r
        x = r.random()
        if x < 0.04 or (x < 0.14 and not getattr(self, 'posf', None)):
            # documents with arrays of sub-documents / scalars for the positional operator (always
            # there before the first positional update of a history)
            ds, self.posf = self.pg().docs()
            self.shadow.extend(copy.deepcopy(ds))
            return ['insert_many', ds, True]
        if x < 0.13:
            # the positional operator: filter shapes x operators x entry points (gen_update)
            return self.pg().ops(self.posf)
        if x < 0.17:
            # documents with an array the $push modifiers can reorder and cut: numbers, or
            # sub-documents ranked by k, several elements, not in order
            ds = []
            for _ in range(r.choice([1, 2, 3])):
                d = {}
                for f in r.sample(RANKED_FIELDS, r.choice([1, 1, 2])):
                    d[f] = self.ranked_array(r.choice(['num', 'num', 'doc']))
                d['c'] = r.choice([1, 2])
                if r.random() < 0.5:
                    d = dict([('_id', copy.deepcopy(r.choice(self.ids)))] + list(d.items()))
                ds.append(d)
            self.shadow.extend(copy.deepcopy(ds))
            return ['insert_many', ds, False]
        if x < 0.27:
            # $push with $each and any of $position / $sort / $slice, spelled in any order, onto
            # such an array (what the shadow says the field holds decides what is pushed)
            held = [(d, f) for d in self.shadow for f in RANKED_FIELDS
                    if ranked_kind(d.get(f)) is not None]
            if held:
                d, f = r.choice(held)
                kind = ranked_kind(d[f])
                y = r.random()
                if y < 0.35 and '_id' in d:
                    filt = {'_id': copy.deepcopy(d['_id'])}
                elif y < 0.6:
                    filt = {'c': d.get('c', 1)}
                elif y < 0.75:
                    filt = {f: {'$exists': True}}
                else:
                    filt = {}
                u = {'$push': {f: self.ug.ranked_push(kind, len(d[f]))}}
                if r.random() < 0.2:
                    k2, b2 = self.ug.operator(d)
                    if k2 != '$push':
                        u = dict([(k2, b2)] + list(u.items())) if r.random() < 0.5 else \
                            dict(list(u.items()) + [(k2, b2)])
                return [r.choice(['update_one', 'update_one', 'update_many']), filt, u,
                        r.random() < 0.1]
        return hist.HistGen.op(self)

    def ranked_array(self, kind):
        r = self.r
        n = r.choice([0, 1, 2, 3, 3, 4, 5])
        if kind == 'num':
            return [r.choice(gen_update.RANKS) for _ in range(n)]
        return [{'k': r.choice(gen_update.RANKS), 'v': r.choice([0, 5, 'x'])} for _ in range(n)]


RANKED_FIELDS = ['a', 'b', 'd']


def ranked_kind(v):
    """'num' for an array of numbers, 'doc' for an array of sub-documents with a numeric k"""
    def num(x):
        return isinstance(x, (int, float)) and not isinstance(x, bool)
    if not isinstance(v, list) or not v:
        return None
    if all(num(x) for x in v):
        return 'num'
    if all(isinstance(x, dict) and num(x.get('k')) for x in v):
        return 'doc'
    return None


def histgen(rng, oids):
    hg = Gen02(rng, oids, weights=dict(
        insert_one=10, insert_many=4, update_one=40, update_many=16, replace_one=10,
        delete_one=1, delete_many=0, find=0, count=0, distinct=0, create_index=0,
        drop_index=0, drop_indexes=0, drop=0), ttl=False)
    hg.ug.malformed = 0.03
    hg.ug.respell = 0.6
    return hg


def length(rng):
    return rng.choice([2, 4, 6, 9, 14])


view = histcheck.full_view


def singles_twin(runner, op, ids):
    """update_many as one update_one per matched document (addressed by _id), on a twin copy of
    the collection: what the documents should look like afterwards"""
    import mongomock
    from props.c14 import wire_canon
    if not isinstance(op[1], dict) or '_id' in op[1]:
        return None
    t = mongomock.MongoClient().db.twin
    for d in runner.raw_docs():
        t.insert_one(copy.deepcopy(d))
    try:
        for i in ids:
            t.update_one(dict(copy.deepcopy(op[1]), _id=copy.deepcopy(i)), copy.deepcopy(op[2]))
    except Exception as e:  # pylint: disable=broad-except
        return ('raised', type(e).__name__)
    return ('docs', [wire_canon(d) for d in t.find({})])


def pre_probe(runner, op):
    if op[0] not in ('update_one', 'update_many', 'replace_one') and not (
            op[0] == 'find_one_and_update' and refupdate.positional_paths(op[2])):
        return None
    try:
        ids = [d['_id'] for d in runner.coll.find(copy.deepcopy(op[1]))]
        allids = [d['_id'] for d in runner.coll.find({})]
    except Exception as e:  # pylint: disable=broad-except
        return {'error': type(e).__name__}
    singles = None
    if op[0] == 'update_many' and len(ids) >= 2 and not op[3] and \
            not list(runner.coll.index_information()) [1:]:
        singles = singles_twin(runner, op, ids)

    def pos(x):
        for j, y in enumerate(allids):
            if type(x) is type(y) and x == y:
                return j
        return -1
    return {'matched': [pos(x) for x in ids], 'size': len(allids), 'singles': singles}


def thaw(v):
    """decoded observation value → plain python value for the reference (dates and ids opaque)"""
    return v


def oracle(history, steps):
    fails = []
    prev = []
    for i, st in enumerate(steps):
        docs = st.obs.get('docs') if isinstance(st.obs, dict) else None
        if not isinstance(docs, list):
            break
        k = st.op[0]
        pre = (st.extra or {}).get('pre')
        positional_judge(i, st, prev, docs, pre, fails)
        if k in ('update_one', 'update_many') and st.out[0] == 'val' and isinstance(st.op[2], dict):
            # what must be refused: an unknown $operator (whether or not anything matches), and
            # a clause next to $each in $addToSet once the update is applied to a document
            unknown = refupdate.unknown_operators(st.op[2])
            if unknown:
                fails.append((i, 'unknown-operator-accepted', '%s %r %r was accepted (%r): %r is '
                              'no update operator' % (k, st.op[1], st.op[2], st.out[1], unknown[0])))
            clause = refupdate.addtoset_clause(st.op[2])
            applied = (pre and 'error' not in pre and pre.get('matched')) or len(docs) > len(prev)
            if clause and applied and not unknown:
                fails.append((i, 'addtoset-clause-accepted', '%s %r %r was applied to a document '
                              'although $addToSet.%s carries %r next to $each'
                              % (k, st.op[1], st.op[2], clause[0], clause[1])))
        if k in ('update_one', 'update_many', 'replace_one') and st.out[0] == 'val' and pre and \
                'error' not in pre and pre['size'] == len(prev) and all(j >= 0 for j in pre['matched']):
            out = st.out[1]
            spec = histcheck.canon_value(st.op[2], st.oids)
            sg = pre.get('singles')
            if sg and sg[0] == 'docs':
                from props.c14 import strip_fresh
                now = [strip_fresh(freeze(d)) for d in docs]
                if now != [strip_fresh(x) for x in sg[1]]:
                    fails.append((i, 'multi-vs-singles', 'update_many %r %r left %r; updating the '
                                  'matched documents one at a time (update_one by _id) leaves %r'
                                  % (st.op[1], st.op[2], docs, sg[1])))
            matched = pre['matched'] if k == 'update_many' else pre['matched'][:1]
            upserted = out.get('upserted') is not None or (len(docs) == len(prev) + 1)
            if not upserted:
                if out.get('matched') != len(matched):
                    fails.append((i, 'matched-count', '%s reported matched_count %r, %d documents '
                                  'match' % (k, out.get('matched'), len(matched))))
                if len(docs) != len(prev):
                    fails.append((i, 'size-changed', '%s changed the number of documents' % k))
                else:
                    changed = 0
                    for j, (a, b) in enumerate(zip(prev, docs)):
                        if j not in matched and freeze(a) != freeze(b):
                            fails.append((i, 'touched-unmatched', '%s changed a document the '
                                          'filter does not select: %r -> %r' % (k, a, b)))
                        if a != b:
                            changed += 1
                    if out.get('modified') != changed and not (
                            changed <= out.get('modified', -1) <= sum(
                                1 for a, b in zip(prev, docs) if freeze(a) != freeze(b))):
                        fails.append((i, 'modified-count', '%s reported modified_count %r, %d '
                                      'documents changed' % (k, out.get('modified'), changed)))
                    # the reference semantics, document by document
                    if k != 'replace_one':
                        for j in matched:
                            try:
                                exp = refupdate.apply(prev[j], spec, on_insert=False)
                            except refupdate.Unknown:
                                continue
                            except Exception:  # pylint: disable=broad-except
                                continue
                            if not refupdate.same_doc(exp, docs[j]):
                                lab = classify(spec, prev[j]) or 'operator-result'
                                fails.append((i, lab, '%s %r on %r gave %r, the operator '
                                              'definitions give %r'
                                              % (k, spec, prev[j], docs[j], exp)))
                    else:
                        for j in matched:
                            rep = spec
                            if isinstance(rep, dict) and not any(
                                    str(x).startswith('$') for x in rep):
                                exp = dict(rep)
                                exp.setdefault('_id', prev[j].get('_id'))
                                if not refupdate.same_doc(exp, docs[j]) and \
                                        refupdate.eq(exp.get('_id'), prev[j].get('_id')):
                                    fails.append((i, 'replace-result', 'replace_one %r on %r gave '
                                                  '%r' % (rep, prev[j], docs[j])))
        prev = docs
        if any(l not in known_labels for (_, l, _) in fails) or len(fails) > 50:
            break
    return fails


def positional_judge(i, st, prev, docs, pre, fails):
    """the rule of the positional operator (refupdate.resolve_positional) on the documents the
    filter selected: an update the rule refuses must raise, one it accepts must leave exactly the
    documents the rule gives; a departure is filed under the deviation class the update falls in
    (refupdate.positional_class), or under `positional-result` when it falls in none"""
    k = st.op[0]
    if k not in ('update_one', 'update_many', 'find_one_and_update') or \
            not isinstance(st.op[1], dict) or not refupdate.positional_paths(st.op[2]):
        return
    if not pre or 'error' in pre or pre['size'] != len(prev) or \
            any(j < 0 for j in pre['matched']):
        return
    if k == 'find_one_and_update' and (st.op[4] is not None or st.op[3] is not None):
        return
    upsert = st.op[5] if k == 'find_one_and_update' else st.op[3]
    filt = histcheck.canon_value(st.op[1], st.oids)
    spec = histcheck.canon_value(st.op[2], st.oids)
    matched = pre['matched'] if k == 'update_many' else pre['matched'][:1]
    if not matched:
        if upsert and st.out[0] != 'err' and len(docs) == len(prev) + 1 and not any(
                op == '$rename' for op, _ in refupdate.positional_paths(spec)):
            fails.append((i, 'positional-upsert', '%s %r %r upserted %r: a positional path on an '
                          'upsert is an error' % (k, st.op[1], st.op[2], docs[-1])))
        return
    exps = []
    for j in matched:
        try:
            exps.append(('doc', refupdate.apply(prev[j], spec, False, filt=filt)))
        except refupdate.RuleError as e:
            exps.append(('error', str(e)))
        except Exception:  # pylint: disable=broad-except
            _pj('rule declines (no verdict)')
            return
    label = refupdate.positional_class(k, filt, spec, False) or 'positional-result'
    n0 = len(fails)
    try:
        _positional_compare(i, st, k, prev, docs, matched, exps, label, fails)
    finally:
        _pj('departs from the rule' if len(fails) > n0 else
            ('agrees: error' if st.out[0] == 'err' else 'agrees: same documents'))


def _positional_compare(i, st, k, prev, docs, matched, exps, label, fails):
    if st.out[0] == 'err':
        if all(e[0] == 'doc' for e in exps):
            fails.append((i, label, '%s %r %r raised %s; the rule of the positional operator gives '
                          '%r' % (k, st.op[1], st.op[2], st.out[1], [e[1] for e in exps])))
        return
    if len(docs) != len(prev):
        return
    for j, e in zip(matched, exps):
        if e[0] == 'error':
            fails.append((i, label, '%s %r %r was accepted on %r (now %r); the rule of the '
                          'positional operator makes it an error: %s'
                          % (k, st.op[1], st.op[2], prev[j], docs[j], e[1])))
            return
        if not refupdate.same_doc(e[1], docs[j]):
            fails.append((i, label, '%s %r %r on %r gave %r; the rule of the positional operator '
                          '(first element satisfying the query\'s condition on the array) gives %r'
                          % (k, st.op[1], st.op[2], prev[j], docs[j], e[1])))
            return


UPDATER_OPS = ('$set', '$unset', '$inc', '$min', '$max', '$pop', '$currentDate', '$setOnInsert')


def skips_component(doc, parts):
    """the path meets an array with a component that is no index: `_update_document_single_field`
    drops that component and goes on with the next one"""
    cur = doc
    for p in parts:
        if isinstance(cur, dict):
            if p not in cur:
                return False
            cur = cur[p]
        elif isinstance(cur, list):
            if not p.isdigit():
                return True
            if int(p) >= len(cur):
                return False
            cur = cur[int(p)]
        else:
            return False
    return False


def classify(spec, doc):
    """which known deviation class (if any) an operator-result mismatch falls in: `boolnum`,
    and `nonnumeric-component-skipped` (a path component that is no index is dropped when it meets
    an array); $pullAll from an array that is an item of an array, $pullAll on a missing path, duplicates inside
    $addToSet.$each, $min/$max on an array element and $pull with a path into an array are
    repaired and no longer excused."""
    if not isinstance(spec, dict):
        return None
    for op in UPDATER_OPS:
        b0 = spec.get(op)
        if isinstance(b0, dict) and any(skips_component(doc, str(p).split('.')) for p in b0):
            return 'nonnumeric-component-skipped'
    body = spec.get('$addToSet')
    if isinstance(body, dict):
        for p, arg in body.items():
            items = arg['$each'] if isinstance(arg, dict) and isinstance(arg.get('$each'), list) \
                else [arg]
            cur = refupdate.get_at(doc, p.split('.'))
            have = cur[1] if cur[0] == 'value' and isinstance(cur[1], list) else []
            pool = list(have) + list(items)
            if any(isinstance(a, bool) != isinstance(b, bool) and a == b
                   for a in pool for b in pool):
                return 'boolnum'
    for op in ('$pullAll', '$pull'):
        b2 = spec.get(op)
        if isinstance(b2, dict):
            for p, arg in b2.items():
                items = arg if isinstance(arg, list) else [arg]
                cur = refupdate.get_at(doc, p.split('.'))
                have = cur[1] if cur[0] == 'value' and isinstance(cur[1], list) else []
                if any(isinstance(a, bool) != isinstance(b, bool) and not isinstance(a, (dict, list))
                       and not isinstance(b, (dict, list)) and a == b
                       for a in have for b in items):
                    return 'boolnum'
    return None


def nontrivial(history, steps):
    prev = []
    for st in steps:
        docs = st.obs.get('docs') if isinstance(st.obs, dict) else None
        if not isinstance(docs, list):
            return False
        if st.op[0] in ('update_one', 'update_many') and st.out[0] == 'val' and \
                isinstance(st.op[2], dict) and len(docs) == len(prev) and \
                any(freeze(a) != freeze(b) for a, b in zip(prev, docs)):
            for op, body in st.op[2].items():
                if isinstance(body, dict) and (
                        op in ('$push', '$addToSet', '$pull', '$pullAll', '$pop') or
                        any('.' in p for p in body)):
                    return True
        prev = docs
    return False


class Alt(object):
    """the same property module on the emulated server 4.4 (pre-5.0 'empty operator' rule)"""


def _engine(ctx, version):
    mod = sys.modules[__name__]
    eng = histcheck.Engine(ctx, mod)
    return eng


def fixed_witnesses(ctx, mod):
    """the witnesses of the repaired defects (known_findings.json, status "fixed") go through the
    oracle and the model correspondence on every run: a recurrence is a VIOLATION"""
    import wire
    eng = histcheck.Engine(ctx, mod)
    n = 0
    for e in common.load_known(ID):
        if e.get('status') != 'fixed' or not e.get('witness', {}).get('wire_history'):
            continue
        oids = wire.Oids()
        history = wire.dec(e['witness']['wire_history'], oids)
        py = histcheck.run_history(history, oids, mod.server_version, None, pre_probe)
        out = wire.run_driver([hist.model_line(history, oids, mod.pre_v5)])
        eng.judge(history, oids, py, histcheck.model_steps(history, out[0]))
        n += 1
    return n


def run(ctx, proof, driver_ok):
    if not driver_ok:
        return {'explanation': 'model driver unavailable'}
    mod = sys.modules[__name__]
    n = ctx.n(1600, 40000)
    mod.server_version, mod.pre_v5, mod.SALT = '5.0.5', False, 202
    nfixed = fixed_witnesses(ctx, mod)
    cov5 = histcheck.Engine(ctx, mod).run(n // 2)
    mod.server_version, mod.pre_v5, mod.SALT = '4.4.0', True, 244
    cov4 = histcheck.Engine(ctx, mod).run(n // 2)
    mod.server_version, mod.pre_v5, mod.SALT = '5.0.5', False, 202
    cov = dict(cov5)
    cov['evaluations'] = cov5['evaluations'] + cov4['evaluations']
    cov['histories'] = cov5['histories'] + cov4['histories']
    cov['distinct_nontrivial'] = cov5['distinct_nontrivial'] + cov4['distinct_nontrivial']
    cov['per_server_version'] = {'5.0.5': cov5['stats'], '4.4.0': cov4['stats']}
    cov['python_error_kinds_server_4_4'] = cov4['python_error_kinds']
    cov['fixed_witnesses_replayed'] = nfixed
    cov['positional_generator_histogram'] = dict(POSITIONAL_KINDS)
    cov['positional_rule_verdicts_on_python'] = dict(POSITIONAL_JUDGED)
    return cov


server_version = '5.0.5'
pre_v5 = False


def replay(ctx, path):
    import json
    e = json.load(open(path))
    mod = sys.modules[__name__]
    mod.server_version = e.get('server_version', '5.0.5')
    mod.pre_v5 = mod.server_version.startswith('4')
    return histcheck.Engine(ctx, mod).replay(path)


def replay_finding(ctx, e):
    import wire
    mod = sys.modules[__name__]
    oids = wire.Oids()
    history = wire.dec(e['witness']['wire_history'], oids)
    py = histcheck.run_history(history, oids, e['witness'].get('server_version', '5.0.5'),
                               None, pre_probe)
    return any(label == e['id'] for (_, label, _) in oracle(history, py))
