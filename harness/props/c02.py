"""C02 — update operators and replacements transform documents exactly as specified.

Chained update histories (each update shapes the input of the next) through update_one,
update_many and replace_one, for the emulated server versions 4.4 and 5.0.5, run on the real
code and on the Lean model (`MongoModel.applyUpdate` / `applyUpdateColl`).  Directly on python:
an independent reference implementation of the operator definitions (harness/refupdate.py)
computes the expected document for every matched document whenever it is willing to commit to
an answer, and the reported counts are compared with what was matched / changed.
"""
import copy
import sys

import common
import hist
import histcheck
import refupdate
from histcheck import freeze

ID = 'C02'
SALT = 202
RULE = ('history = 2-14 generated operations, mostly update_one / update_many / replace_one with '
        '1-3 operators each ($set $unset $inc $min $max $push with $each/$position/$sort/$slice, '
        '$addToSet with $each, $pull, $pullAll, $pop, $rename, $currentDate, $setOnInsert) on '
        'dotted paths aimed at existing fields, arrays and beyond their end, chained so that each '
        'update works on the result of the previous ones, half of the histories on emulated '
        'server 4.4; every step is compared with the Lean model (outcome, full documents) and, '
        'where the independent reference semantics commits to an answer, with the reference; '
        'non-trivial = an update that changes a document through a dotted path or an array '
        'operator; distinct = by hash of the history')
ASSUMPTIONS = [
    'the reference semantics declines (no verdict) on conflicting paths, type-confused targets, '
    'positional paths, $pull with conditions, $rename onto itself; these cases are covered by the '
    'model correspondence only',
    'field order is not part of what the reference compares',
]

known_labels = {e['id'] for e in common.load_known(ID) if e.get('status') == 'known'}


class Gen02(hist.HistGen):
    def history(self, n):
        ops = [self.op() for _ in range(n)]
        return ops


def histgen(rng, oids):
    hg = Gen02(rng, oids, weights=dict(
        insert_one=10, insert_many=4, update_one=40, update_many=16, replace_one=10,
        delete_one=1, delete_many=0, find=0, count=0, distinct=0, create_index=0,
        drop_index=0, drop_indexes=0, drop=0), ttl=False)
    hg.ug.malformed = 0.03
    return hg


def length(rng):
    return rng.choice([2, 4, 6, 9, 14])


view = histcheck.full_view


def pre_probe(runner, op):
    if op[0] not in ('update_one', 'update_many', 'replace_one'):
        return None
    try:
        ids = [d['_id'] for d in runner.coll.find(copy.deepcopy(op[1]))]
        allids = [d['_id'] for d in runner.coll.find({})]
    except Exception as e:  # pylint: disable=broad-except
        return {'error': type(e).__name__}

    def pos(x):
        for j, y in enumerate(allids):
            if type(x) is type(y) and x == y:
                return j
        return -1
    return {'matched': [pos(x) for x in ids], 'size': len(allids)}


def thaw(v):
    """decoded observation value → plain python value for the reference (dates and ids opaque)"""
    return v


def oracle(history, steps):
    fails = []
    prev = []
    for i, st in enumerate(steps):
        docs = st.obs.get('docs') if isinstance(st.obs, dict) else None
        if not isinstance(docs, list):
            break
        k = st.op[0]
        pre = (st.extra or {}).get('pre')
        if k in ('update_one', 'update_many', 'replace_one') and st.out[0] == 'val' and pre and \
                'error' not in pre and pre['size'] == len(prev) and all(j >= 0 for j in pre['matched']):
            out = st.out[1]
            spec = histcheck.canon_value(st.op[2], st.oids)
            matched = pre['matched'] if k == 'update_many' else pre['matched'][:1]
            upserted = out.get('upserted') is not None or (len(docs) == len(prev) + 1)
            if not upserted:
                if out.get('matched') != len(matched):
                    fails.append((i, 'matched-count', '%s reported matched_count %r, %d documents '
                                  'match' % (k, out.get('matched'), len(matched))))
                if len(docs) != len(prev):
                    fails.append((i, 'size-changed', '%s changed the number of documents' % k))
                else:
                    changed = 0
                    for j, (a, b) in enumerate(zip(prev, docs)):
                        if j not in matched and freeze(a) != freeze(b):
                            fails.append((i, 'touched-unmatched', '%s changed a document the '
                                          'filter does not select: %r -> %r' % (k, a, b)))
                        if a != b:
                            changed += 1
                    if out.get('modified') != changed and not (
                            changed <= out.get('modified', -1) <= sum(
                                1 for a, b in zip(prev, docs) if freeze(a) != freeze(b))):
                        fails.append((i, 'modified-count', '%s reported modified_count %r, %d '
                                      'documents changed' % (k, out.get('modified'), changed)))
                    # the reference semantics, document by document
                    if k != 'replace_one':
                        for j in matched:
                            try:
                                exp = refupdate.apply(prev[j], spec, on_insert=False)
                            except refupdate.Unknown:
                                continue
                            except Exception:  # pylint: disable=broad-except
                                continue
                            if not refupdate.same_doc(exp, docs[j]):
                                lab = 'operator-result'
                                pa = spec.get('$pullAll') if isinstance(spec, dict) else None
                                if isinstance(pa, dict) and any(
                                        '.' in p and refupdate.get_at(prev[j], p.split('.')[:-1])[0]
                                        == 'missing' for p in pa):
                                    lab = 'pullall-creates-path'
                                lab = classify(spec, prev[j]) or lab
                                fails.append((i, lab, '%s %r on %r gave %r, the operator '
                                              'definitions give %r'
                                              % (k, spec, prev[j], docs[j], exp)))
                    else:
                        for j in matched:
                            rep = spec
                            if isinstance(rep, dict) and not any(
                                    str(x).startswith('$') for x in rep):
                                exp = dict(rep)
                                exp.setdefault('_id', prev[j].get('_id'))
                                if not refupdate.same_doc(exp, docs[j]) and \
                                        refupdate.eq(exp.get('_id'), prev[j].get('_id')):
                                    fails.append((i, 'replace-result', 'replace_one %r on %r gave '
                                                  '%r' % (rep, prev[j], docs[j])))
        prev = docs
        if any(l not in known_labels for (_, l, _) in fails) or len(fails) > 50:
            break
    return fails


def classify(spec, doc):
    """which known deviation class (if any) an operator-result mismatch falls in"""
    if not isinstance(spec, dict):
        return None
    for op in ('$min', '$max'):
        body = spec.get(op)
        if isinstance(body, dict):
            for p in body:
                parts = p.split('.')
                parent = refupdate.get_at(doc, parts[:-1]) if len(parts) > 1 else ('value', doc)
                if parent[0] == 'value' and isinstance(parent[1], list):
                    return 'minmax-array-noop'
    body = spec.get('$pull')
    if isinstance(body, dict):
        for p in body:
            parts = p.split('.')
            for n in range(1, len(parts)):
                pre = refupdate.get_at(doc, parts[:n])
                if pre[0] == 'value' and isinstance(pre[1], list):
                    return 'pull-through-array'
    body = spec.get('$addToSet')
    if isinstance(body, dict):
        for p, arg in body.items():
            items = arg['$each'] if isinstance(arg, dict) and isinstance(arg.get('$each'), list) \
                else [arg]
            cur = refupdate.get_at(doc, p.split('.'))
            have = cur[1] if cur[0] == 'value' and isinstance(cur[1], list) else []
            pool = list(have) + list(items)
            if any(isinstance(a, bool) != isinstance(b, bool) and a == b
                   for a in pool for b in pool):
                return 'boolnum'
    for op in ('$pullAll', '$pull'):
        b2 = spec.get(op)
        if isinstance(b2, dict):
            for p, arg in b2.items():
                items = arg if isinstance(arg, list) else [arg]
                cur = refupdate.get_at(doc, p.split('.'))
                have = cur[1] if cur[0] == 'value' and isinstance(cur[1], list) else []
                if any(isinstance(a, bool) != isinstance(b, bool) and not isinstance(a, (dict, list))
                       and not isinstance(b, (dict, list)) and a == b
                       for a in have for b in items):
                    return 'boolnum'
    if isinstance(body, dict):
        for p, arg in body.items():
            if isinstance(arg, dict) and isinstance(arg.get('$each'), list):
                e = arg['$each']
                if any(refupdate.eq(e[a], e[b]) for a in range(len(e)) for b in range(a + 1, len(e))):
                    return 'addtoset-each-dups'
    return None


def nontrivial(history, steps):
    prev = []
    for st in steps:
        docs = st.obs.get('docs') if isinstance(st.obs, dict) else None
        if not isinstance(docs, list):
            return False
        if st.op[0] in ('update_one', 'update_many') and st.out[0] == 'val' and \
                isinstance(st.op[2], dict) and len(docs) == len(prev) and \
                any(freeze(a) != freeze(b) for a, b in zip(prev, docs)):
            for op, body in st.op[2].items():
                if isinstance(body, dict) and (
                        op in ('$push', '$addToSet', '$pull', '$pullAll', '$pop') or
                        any('.' in p for p in body)):
                    return True
        prev = docs
    return False


class Alt(object):
    """the same property module on the emulated server 4.4 (pre-5.0 'empty operator' rule)"""


def _engine(ctx, version):
    mod = sys.modules[__name__]
    eng = histcheck.Engine(ctx, mod)
    return eng


def run(ctx, proof, driver_ok):
    if not driver_ok:
        return {'explanation': 'model driver unavailable'}
    mod = sys.modules[__name__]
    n = ctx.n(1600, 40000)
    mod.server_version, mod.pre_v5, mod.SALT = '5.0.5', False, 202
    cov5 = histcheck.Engine(ctx, mod).run(n // 2)
    mod.server_version, mod.pre_v5, mod.SALT = '4.4.0', True, 244
    cov4 = histcheck.Engine(ctx, mod).run(n // 2)
    mod.server_version, mod.pre_v5, mod.SALT = '5.0.5', False, 202
    cov = dict(cov5)
    cov['evaluations'] = cov5['evaluations'] + cov4['evaluations']
    cov['histories'] = cov5['histories'] + cov4['histories']
    cov['distinct_nontrivial'] = cov5['distinct_nontrivial'] + cov4['distinct_nontrivial']
    cov['per_server_version'] = {'5.0.5': cov5['stats'], '4.4.0': cov4['stats']}
    cov['python_error_kinds_server_4_4'] = cov4['python_error_kinds']
    return cov


server_version = '5.0.5'
pre_v5 = False


def replay(ctx, path):
    import json
    e = json.load(open(path))
    mod = sys.modules[__name__]
    mod.server_version = e.get('server_version', '5.0.5')
    mod.pre_v5 = mod.server_version.startswith('4')
    return histcheck.Engine(ctx, mod).replay(path)


def replay_finding(ctx, e):
    import wire
    mod = sys.modules[__name__]
    oids = wire.Oids()
    history = wire.dec(e['witness']['wire_history'], oids)
    py = histcheck.run_history(history, oids, e['witness'].get('server_version', '5.0.5'),
                               None, pre_probe)
    return any(label == e['id'] for (_, label, _) in oracle(history, py))
