"""C07 — the database stores values, not references: no aliasing in, out, or inside.

The Lean side (lean/MongoModel/Heap.lean, lean/Props/C07.lean) models object identity and the
COPY DISCIPLINE of the code as a table (`copyDiscipline`: which copy primitive is applied at
which value-carrying position) and proves that every step covered by the table keeps the store
separated from everything the caller holds.  This module ties the table to /repo on the SHARING
GRAPH of the real heap: generated histories run on the real mongomock; after EVERY step the
stored documents and every object the caller holds (all arguments passed, all results returned
so far) are walked, `id()` of every dict / list collected, and

  (a) `Sep` is checked on the real heap (no object twice in the store, nothing stored is held,
      nothing a cursor the caller keeps has cached — `Cursor._results` — is held or stored);
  (b) for every value-carrying position the step exercised, the aliasing observed between the
      step's inputs, outputs, the store and a cursor's cache is compared with what the model
      answers for that position and value (driver commands `c07 flow`, `c07 fill`, `c07 out`,
      `c07 proj`);
  (c) every argument is compared (deeply, key order included) with a deep copy taken before the
      call — the only permitted change is the `_id` an insert adds (a changed pipeline with
      container constants is reported under the name of the repaired defect `agg-literal-alias`);

then every object handed over in that step is SCRIBBLED on (marker key in every dict, marker
appended to every list) and the collection re-read through `find({})` and through the raw
store: nothing may have changed.  Single-document writes must change at most one stored
document.  Cursors are kept open across steps: what a cursor hands out again (re-iteration after
`rewind()`, `cursor[i]`, a `clone()`, `cursor.distinct`) — after the caller edited what it got the
first time — must be new objects and, as long as nothing was written in between, the values of
the first read.  Sharing outside the listed known findings is a VIOLATION with the history as
replay; the witnesses of the findings repaired in the library (known_findings.json, status
"fixed") run through the same checks on every run, with nothing listed as known.
"""
import collections
import copy
import json
import random

import mongomock
from mongomock.collection import ReturnDocument

import common
import gen_c07
import wire

ID = 'C07'
RULE = ('history = 4-30 generated operations on one collection, nested mutable values (depth <= 3) '
        'carried by $set/$setOnInsert/$push(+$each,$position,$sort,$slice)/$addToSet(+$each)/'
        '$min/$max/positional $set/replacement/insert/upsert and read back through find (with and '
        'without projection, $slice, $elemMatch), find_one, find_one_and_update/replace/delete '
        '(both return modes), distinct, aggregate ($match/$project/$addFields/$unwind/$group), '
        'cursors kept open and read again in the same and in later steps (rewind + iterate, '
        'cursor[i], clone, cursor.distinct, each after the caller edited the earlier results); '
        'after every step: Sep on the real heap, aliasing per position against '
        'the model, arguments against pre-call copies, scribble on everything handed over and '
        're-read; non-trivial = the history has a multi-document update carrying a container '
        'followed by a single-document update into that container, or a projected read returning a '
        'container (followed by the scribble); distinct = by hash of the history')

ASSUMPTIONS = [
    'find = list(find(...)): laziness of Cursor (the projection dict is read at first iteration) '
    'is not part of the check; the cursors of find_rewind are kept and read again (the value of a '
    're-read is compared with the first read only while no write happened in between: a cursor is '
    'not required to be a snapshot)',
    'what a cursor keeps is observed through the private attributes Cursor._results, _spec, '
    '_sort and _projection (the filter, since b829c96 the projection and since 0c1b9e0 the sort '
    'list are copied when find() is called; the harness keeps and scribbles on all three)',
    'aggregate stages $sample, $out, $facet, $bucket are not generated (C16 covers the pipeline '
    'argument); $lookup / $graphLookup join the collection with itself; bulk_write and the '
    'deprecated entry points are not generated',
    'one history in six runs on a tz_aware client (everything it reads is rebuilt once more: the '
    'model is asked for the table of such a client)',
    'copy.deepcopy is modelled without its memo (inputs are trees; the harness checks on the '
    'real heap that no object occurs twice in the store)',
    'object identity of scalars (str, int, datetime, ObjectId: immutable) is not tracked',
    'order of children is not part of the heap model (it does not concern identity)',
    'sharing INSIDE one aggregation result is not modelled: a pipeline that puts one value of a '
    'document at two places ($addFields: {q: "$b", r: "$b"}) returns a document holding that '
    'object twice (r["q"] is r["r"]); no later read can see it, the model sends every travelling '
    'value through its own copy, and the check looks at sharing between a result and the store, '
    'the arguments, earlier results and the other results of the call',
]

MODEL_OPS = {
    'insert_one': ['insert_one'], 'insert_many': ['insert_many'],
    'update_one': ['update_one', 'update_upsert'], 'update_many': ['update_many', 'update_upsert'],
    'edit_nested': ['update_one'], 'follow_up': ['update_one'],
    'replace_one': ['replace_one', 'replace_upsert'],
    'find': ['find', 'find_projected'], 'find_one': ['find_one', 'find_projected'],
    'find_rewind': ['find', 'find_projected', 'cursor_next', 'cursor_index', 'cursor_distinct'],
    'cursor_again': ['cursor_next', 'cursor_index', 'cursor_distinct'],
    'foau': ['find_one_and_update', 'find_one_and_projected', 'find_one_and_upsert'],
    'foar': ['find_one_and_replace', 'find_one_and_projected', 'find_one_and_upsert'],
    'foad': ['find_one_and_delete', 'find_one_and_projected'],
    'distinct': ['distinct'], 'aggregate': ['aggregate'],
}
# positions at which the model says the code does not copy -> the known finding that lists it
# (proj-id-alias, proj-op-alias, result-id-alias, proj-arg-mutated were fixed by 5ac4c3c: a
# recurrence is a VIOLATION)
# (agg-literal-alias was fixed by aab0261, cursor-cache-alias by b973460: the model copies at
# aggLiteral and at cursorOut, sharing there is a VIOLATION)
FINDING_OF_POS = {}
MARK = '__c07_scribble__'
MARK2 = '__c07_edit__'
READ_ONLY = ('find', 'find_one', 'find_rewind', 'cursor_again', 'distinct', 'aggregate')


# ---------------------------------------------------------------------------------------------
# walking the heap

def containers(v, path=(), seen=None):
    """(object, path) of every dict / list reachable in v, pre-order, each object once (an
    aggregation result may be cyclic: `$addFields: {'b.z': '$b'}`); a tuple is gone through but
    not counted: it cannot be edited, and copy.deepcopy hands back the very tuple when its items
    are scalars (the pairs of a sort list)"""
    if seen is None:
        seen = set()
    if isinstance(v, dict):
        if id(v) in seen:
            return
        seen.add(id(v))
        yield v, path
        for k, x in v.items():
            for y in containers(x, path + (k,), seen):
                yield y
    elif isinstance(v, (list, tuple)):
        if id(v) in seen:
            return
        seen.add(id(v))
        if not isinstance(v, tuple):
            yield v, path
        for i, x in enumerate(v):
            for y in containers(x, path + (i,), seen):
                yield y


def idset(v):
    return set(id(o) for o, _ in containers(v))


def has_container(v):
    return isinstance(v, (dict, list, tuple))


def same(a, b, seen=None):
    """deep equality, types and key order included"""
    if seen is None:
        seen = set()
    if isinstance(a, (dict, list, tuple)):
        if (id(a), id(b)) in seen:
            return True
        seen.add((id(a), id(b)))
    if isinstance(a, dict):
        if not isinstance(b, dict) or list(a.keys()) != list(b.keys()):
            return False
        return all(same(a[k], b[k], seen) for k in a)
    if isinstance(a, (list, tuple)):
        if type(a) is not type(b) or len(a) != len(b):
            return False
        return all(same(x, y, seen) for x, y in zip(a, b))
    return type(a) is type(b) and a == b


def pretty(v):
    try:
        return wire.pretty(v)
    except RecursionError:
        return '<cyclic value>'


def scribble(v, skip_ids):
    """mutate every container of v in place (not those that are stored objects: `skip_ids`)"""
    n = 0
    for o, _ in list(containers(v)):
        if id(o) in skip_ids:
            continue
        if isinstance(o, dict):
            o[MARK] = n
            n += 1
        elif isinstance(o, list):
            o.append(MARK)
            n += 1
    return n


def edit_all(v, skip_ids):
    """what a caller does to a result before it asks the cursor again: a key into every dict, an
    element onto every list; returns what `undo_edits` needs"""
    done = []
    for o, _ in list(containers(v)):
        if id(o) in skip_ids:
            continue
        if isinstance(o, dict):
            o[MARK2] = 1
            done.append(o)
        elif isinstance(o, list):
            o.append(MARK2)
            done.append(o)
    return done


def undo_edits(done):
    for o in done:
        if isinstance(o, dict):
            o.pop(MARK2, None)
        elif o and o[-1] == MARK2:
            o.pop()


def cache_of(cur):
    """what a cursor keeps: its cached results and its copies of the query"""
    r = getattr(cur, '_results', None)
    return (r if isinstance(r, list) else []) + [getattr(cur, '_spec', None),
                                                 getattr(cur, '_sort', None),
                                                 getattr(cur, '_projection', None)]


def results_of(cur):
    r = getattr(cur, '_results', None)
    return r if isinstance(r, list) else []


def canon(vals):
    return sorted((pretty(v) for v in vals))


def enc_now(v, oids):
    """wire form of a value as it is now (before the scribble); cyclic values (aggregation
    results can be) are sent as an empty container of the same kind"""
    try:
        return wire.encs(v, oids)
    except (RecursionError, wire.Unencodable):
        return '{ }' if isinstance(v, dict) else '[ ]'


def path_str(p):
    return '.'.join(str(c) for c in p)


# ---------------------------------------------------------------------------------------------
# positions of an update document

def update_instances(u):
    """(position, value, path) for every value-carrying operand of an update document"""
    out = []
    if not isinstance(u, dict):
        return out
    for op, body in u.items():
        if not isinstance(body, dict):
            continue
        for field, v in body.items():
            p = (op, field)
            if op == '$set':
                if '$' in field.split('.'):
                    out.append(('positionalSet', v, p))
                else:
                    out.append(('setValList' if isinstance(v, list) else 'setValDoc', v, p))
            elif op == '$setOnInsert':
                out.append(('setOnInsertVal', v, p))
            elif op in ('$min', '$max'):
                out.append(('minMaxVal', v, p))
            elif op in ('$push', '$addToSet'):
                base = 'push' if op == '$push' else 'addToSet'
                if isinstance(v, dict) and '$each' in v and isinstance(v['$each'], list):
                    for i, e in enumerate(v['$each']):
                        out.append((base + 'Each', e, p + ('$each', i)))
                else:
                    out.append((base + 'Val', v, p))
    return out


def pipeline_literals(pipeline):
    """container constants of $project / $addFields stages"""
    out = []
    for si, st in enumerate(pipeline if isinstance(pipeline, list) else []):
        if not isinstance(st, dict):
            continue
        for name, body in st.items():
            if name in ('$project', '$addFields', '$set') and isinstance(body, dict):
                for f, v in body.items():
                    if isinstance(v, dict) and '$literal' in v and has_container(v['$literal']):
                        out.append((v['$literal'], (si, name, f, '$literal')))
                    elif isinstance(v, list):
                        out.append((v, (si, name, f)))
    return out


def added_item_values(v, parts, crossed=False):
    """the values found at the dotted path `parts` below v where the path went through an array
    (what `$addFields` / `$set` put into the items of that array)"""
    if not parts:
        if crossed:
            yield v
        return
    if isinstance(v, (list, tuple)):
        for item in v:
            for y in added_item_values(item, parts, True):
                yield y
    elif isinstance(v, dict) and parts[0] in v:
        for y in added_item_values(v[parts[0]], parts[1:], crossed):
            yield y


def agg_pos(pipeline):
    names = [k for st in pipeline if isinstance(st, dict) for k in st]
    if '$lookup' in names or '$graphLookup' in names:
        return 'aggLookup'
    if '$unwind' in names:
        return 'aggUnwind'
    if '$addFields' in names or '$set' in names:
        return 'aggAddFields'
    return 'aggDoc'


# ---------------------------------------------------------------------------------------------
# one history on the real code

class Call(object):
    def __init__(self, i, op, a):
        self.i = i
        self.op = op
        self.k = op[0]
        self.a = a
        self.args = []        # (role, object, deep copy taken before the call)
        self.results = []     # (role, object)
        self.exc = None
        self.info = {}

    def arg(self, role, obj):
        self.args.append((role, obj, copy.deepcopy(obj)))
        return obj


def rd(after):
    return ReturnDocument.AFTER if after else ReturnDocument.BEFORE


def sort_arg(s):
    return [tuple(x) for x in s] if s else None


class HistoryRun(object):
    def __init__(self, history, oids, known, tz=False):
        self.history = history
        self.oids = oids
        self.known = known
        self.tz = tz
        self.client = mongomock.MongoClient(tz_aware=True) if tz else mongomock.MongoClient()
        self.coll = self.client.db.c
        self.held = []            # everything handed over so far (kept alive on purpose)
        self.held_ids = {}        # id(container) -> (step, role)
        self.explained = set()    # stored objects the caller holds through an alias already judged
        self.events = []          # (class, step, detail)  -- judged in run()
        self.instances = []       # value-carrying position instances for the model
        self.projq = []           # projected reads: flows to be asked from the model
        self.stats = collections.Counter()
        self.multi_fields = None
        self.nontrivial = set()
        self.errors = collections.Counter()
        self.cursors = []         # cursors the caller keeps (with what they gave the first time)
        self.version = 0          # number of write calls so far

    # -- the store as it is -----------------------------------------------------------------
    def raw(self):
        return list(self.coll._store._documents.items())

    def snapshot(self):
        return [(k, copy.deepcopy(d)) for k, d in self.raw()]

    def store_ids(self):
        """id -> (store position, path); reports an object that is reachable twice (in two
        documents, or at two places of one document)"""
        seen = {}

        def walk(v, n, p):
            if isinstance(v, dict):
                kids = list(v.items())
            elif isinstance(v, (list, tuple)):
                kids = list(enumerate(v))
            else:
                return
            if id(v) in seen:
                self.events.append(('store-shares-object', self.cur, {
                    'first': [seen[id(v)][0], path_str(seen[id(v)][1])],
                    'second': [n, path_str(p)]}))
                return
            seen[id(v)] = (n, p)
            for k, x in kids:
                walk(x, n, p + (k,))

        for n, (key, d) in enumerate(self.raw()):
            walk(d, n, ())
        return seen

    # -- executing one operation ------------------------------------------------------------
    def dispatch(self, c):
        coll, a, k = self.coll, c.a, c.k
        if k == 'insert_one':
            d = c.arg('document', a[0])
            r = coll.insert_one(d)
            c.results.append(('inserted_id', r.inserted_id))
        elif k == 'insert_many':
            c.arg('documents', a[0])
            r = coll.insert_many(a[0], ordered=a[1])
            for x in r.inserted_ids:
                c.results.append(('inserted_id', x))
        elif k in ('update_one', 'update_many', 'replace_one'):
            f = c.arg('filter', a[0])
            u = c.arg('replacement' if k == 'replace_one' else 'update', a[1])
            r = getattr(coll, k)(f, u, upsert=a[2])
            c.info['matched'] = r.matched_count
            c.info['modified'] = r.modified_count
            if r.upserted_id is not None:
                c.results.append(('upserted_id', r.upserted_id))
        elif k in ('delete_one', 'delete_many'):
            getattr(coll, k)(c.arg('filter', a[0]))
        elif k == 'find':
            f = c.arg('filter', a[0])
            p = c.arg('projection', a[1]) if a[1] is not None else None
            res = list(coll.find(f, p, sort=sort_arg(a[2]), skip=a[3], limit=a[4]))
            c.info['docs'] = res
            for d in res:
                c.results.append(('doc', d))
        elif k == 'find_one':
            f = c.arg('filter', a[0])
            p = c.arg('projection', a[1]) if a[1] is not None else None
            d = coll.find_one(f, p)
            c.info['docs'] = [d] if d is not None else []
            if d is not None:
                c.results.append(('doc', d))
        elif k == 'find_rewind':
            f = c.arg('filter', a[0])
            p = c.arg('projection', a[1]) if a[1] is not None else None
            script = a[2] if len(a) > 2 else [['rewind']]
            srt = c.arg('sort', sort_arg(a[3])) if len(a) > 3 and a[3] else None
            cur = coll.find(f, p, sort=srt)
            first = list(cur)
            c.info['docs'] = first
            for d in first:
                c.results.append(('doc', d))
            rec = {'cur': cur, 'expected': copy.deepcopy(first), 'version': self.version,
                   'projected': p is not None, 'step': c.i, 'reported': set()}
            self.cursors = self.cursors[-2:] + [rec]
            c.info['cursor'] = rec
            c.info['filled'] = True
            # the query the cursor keeps: its own copies of the filter and the projection
            c.info['kept'] = [('cursorSpec', f, getattr(cur, '_spec', None)),
                              ('cursorProj', p, getattr(cur, '_projection', None)),
                              ('cursorSort', srt, getattr(cur, '_sort', None))]
            # the caller edits what it got, then asks the cursor again
            edits = []
            skip = set(id(o) for _, d in self.raw() for o, _ in containers(d))
            for d in first:
                edits.extend(edit_all(d, skip))
            try:
                self.cursor_script(c, rec, script)
            finally:
                undo_edits(edits)
        elif k == 'cursor_again':
            if not self.cursors:
                return
            rec = self.cursors[a[0] % len(self.cursors)]
            c.info['cursor'] = rec
            self.cursor_script(c, rec, [a[1]])
        elif k in ('foau', 'foar'):
            f = c.arg('filter', a[0])
            u = c.arg('update' if k == 'foau' else 'replacement', a[1])
            p = c.arg('projection', a[2]) if a[2] is not None else None
            kw = dict(projection=p, upsert=a[4], return_document=rd(a[3]))
            if k == 'foau':
                kw['sort'] = sort_arg(a[5])
                d = coll.find_one_and_update(f, u, **kw)
            else:
                d = coll.find_one_and_replace(f, u, **kw)
            c.info['docs'] = [d] if d is not None else []
            c.info['after'] = a[3]
            if d is not None:
                c.results.append(('doc', d))
        elif k == 'foad':
            f = c.arg('filter', a[0])
            p = c.arg('projection', a[1]) if a[1] is not None else None
            d = coll.find_one_and_delete(f, projection=p, sort=sort_arg(a[2]))
            c.info['docs'] = [d] if d is not None else []
            c.info['after'] = False
            if d is not None:
                c.results.append(('doc', d))
        elif k == 'distinct':
            f = c.arg('filter', a[1])
            vals = coll.distinct(a[0], f)
            c.results.append(('values', vals))
        elif k == 'aggregate':
            p = c.arg('pipeline', a[0])
            res = list(coll.aggregate(p))
            c.info['docs'] = res
            for d in res:
                c.results.append(('doc', d))
        elif k == 'create_index':
            coll.create_index([tuple(x) for x in a[0]], **a[1])
        elif k == 'follow_up':
            # a single-document update INTO a container that the last multi-document update carried
            cands = []
            for n, (key, d) in enumerate(self.raw()):
                for fld in sorted(self.multi_fields or []):
                    if isinstance(d, dict) and has_container(d.get(fld)) and '.' not in fld:
                        cands.append((n, fld, d))
            if not cands:
                return
            n, fld, d = cands[a[0] % len(cands)]
            f = c.arg('filter', {'_id': copy.deepcopy(d['_id'])})
            tgt = d[fld]
            if isinstance(tgt, dict):
                u = {'$set': {fld + '.zz': {'w': [a[1]]}}}
            elif a[1] % 2 and tgt and isinstance(tgt[0], dict):
                u = {'$set': {fld + '.0.zz': a[1]}}
            else:
                u = {'$push': {fld: {'w': a[1]}}}
            u = c.arg('update', u)
            c.info['target'] = n
            r = coll.update_one(f, u)
            c.info['matched'] = r.matched_count
            c.info['modified'] = r.modified_count
        elif k == 'edit_nested':
            cands = []
            for n, (key, d) in enumerate(self.raw()):
                for o, p in containers(d):
                    if p and p[0] != '_id' and all('.' not in str(x) and '$' not in str(x)
                                                   for x in p):
                        cands.append((n, p, o, d))
            if not cands:
                return
            n, p, o, d = cands[a[0] % len(cands)]
            f = c.arg('filter', {'_id': copy.deepcopy(d['_id'])})
            if isinstance(o, dict):
                u = {'$set': {path_str(p) + '.zz': [7]}}
            else:
                u = {'$push': {path_str(p): {'zz': 7}}}
            u = c.arg('update', u)
            c.info['target'] = n
            r = coll.update_one(f, u)
            c.info['matched'] = r.matched_count
            c.info['modified'] = r.modified_count
        else:
            raise ValueError('unknown op ' + k)

    def cursor_script(self, c, rec, script):
        """the caller asks a cursor it kept for its results again; every object handed out is
        recorded (`handouts`), and its value is compared with what the cursor gave the first time
        as long as nothing was written in between"""
        cur = rec['cur']
        outs = c.info.setdefault('handouts', [])
        unchanged = rec['version'] == self.version
        exp = rec['expected']

        def differs(what, got, want):
            self.stats['cursor re-read compared with the first read'] += 1
            if not same(got, want):
                self.events.append(('cursor-clone-differs-from-first-read' if 'clone' in what
                                    else 'cursor-cache-alias', c.i, {
                    'cursor_of_step': rec['step'], 'action': what,
                    'first_read': pretty(want), 'read_again': pretty(got)}))

        for act in script:
            kind = act[0]
            self.stats['cursor:' + kind] += 1
            try:
                if kind == 'rewind':
                    cur.rewind()
                    got = list(cur)
                    for d in got:
                        outs.append(('cursorOut', d))
                        c.results.append(('doc_again', d))
                    if unchanged:
                        differs('rewind(); list(cursor)', got, exp)
                elif kind == 'next':
                    d = next(cur, None)
                    if d is not None:
                        outs.append(('cursorOut', d))
                        c.results.append(('doc_again', d))
                elif kind == 'index':
                    d = cur[act[1]]
                    outs.append(('cursorOut', d))
                    c.results.append(('doc_again', d))
                    if unchanged and act[1] < len(exp):
                        differs('cursor[%d]' % act[1], d, exp[act[1]])
                elif kind == 'clone':
                    cl = cur.clone()
                    c.info.setdefault('kept', []).extend([
                        ('cloneSpec', getattr(cur, '_spec', None), getattr(cl, '_spec', None)),
                        ('cloneProj', getattr(cur, '_projection', None),
                         getattr(cl, '_projection', None)),
                        ('cloneSort', getattr(cur, '_sort', None), getattr(cl, '_sort', None))])
                    rec.setdefault('clones', []).append(cl)     # kept alive: ids stay unique
                    got = list(cl)
                    for d in got:
                        outs.append(('cursorOut', d))
                        c.results.append(('doc_again', d))
                    if unchanged:
                        differs('list(cursor.clone())', got, exp)
                elif kind == 'distinct':
                    v1 = cur.distinct(act[1])
                    want = canon(v1)
                    for v in v1:
                        outs.append(('distinctVal', v))
                    c.results.append(('values', v1))
                    skip = set(id(o) for _, d in self.raw() for o, _ in containers(d))
                    done = edit_all(v1, skip)
                    try:
                        v2 = cur.distinct(act[1])
                    finally:
                        undo_edits(done)
                    for v in v2:
                        outs.append(('distinctVal', v))
                    c.results.append(('values_again', v2))
                    self.stats['cursor re-read compared with the first read'] += 1
                    if canon(v2) != want:
                        self.events.append(('cursor-cache-alias', c.i, {
                            'cursor_of_step': rec['step'], 'action': 'cursor.distinct(%r) twice'
                            % act[1], 'first_read': want, 'read_again': canon(v2)}))
                else:
                    raise ValueError('unknown cursor action %r' % (act,))
            except (IndexError, TypeError, ValueError, StopIteration) as e:
                self.errors['cursor:' + type(e).__name__] += 1

    # -- (c) arguments ----------------------------------------------------------------------
    def check_args(self, c):
        for role, obj, before in c.args:
            if same(obj, before):
                continue
            if role in ('document', 'documents'):
                docs = [obj] if role == 'document' else obj
                befs = [before] if role == 'document' else before
                ok = isinstance(docs, list) and len(docs) == len(befs)
                for d, b in zip(docs, befs) if ok else []:
                    if same(d, b):
                        continue
                    if (isinstance(d, dict) and '_id' not in b and '_id' in d
                            and same(dict((k, v) for k, v in d.items() if k != '_id'), b)):
                        self.stats['arg:_id added by insert'] += 1
                        continue
                    ok = False
                if ok:
                    continue
            if role == 'pipeline' and pipeline_literals(before):
                # a constant of the pipeline is used as a live object: a later $addFields on a
                # nested path writes into it
                self.events.append(('agg-literal-alias', c.i, {
                    'pipeline_before': pretty(before), 'pipeline_after': pretty(obj)}))
                continue
            self.events.append(('argument-modified', c.i, {
                'role': role, 'before': pretty(before), 'after': pretty(obj)}))

    # -- (a) + (b): the sharing graph -------------------------------------------------------
    def inst(self, c, pos, value, observed, exact=True, detail=None, cmd='flow'):
        if not has_container(value):
            return
        self.stats['inst:' + pos] += 1
        if self.stats_step[pos, cmd] >= 3 and not observed:
            return
        self.stats_step[pos, cmd] += 1
        self.instances.append({'pos': pos, 'value': value, 'wire': enc_now(value, self.oids),
                               'observed': bool(observed), 'exact': exact, 'step': c.i,
                               'op': c.k, 'detail': detail, 'cmd': cmd})

    def check_heap(self, c, pre):
        sids = self.store_ids()
        sidset = set(sids)
        self.stats_step = collections.Counter()
        # nothing the caller held BEFORE this call may have entered the store
        for x in sidset & set(self.held_ids):
            if x not in self.explained:
                self.explained.add(x)
                self.events.append(('store-aliases-held-object', c.i, {
                    'held_since_step': self.held_ids[x][0], 'role': self.held_ids[x][1],
                    'stored_at': [sids[x][0], path_str(sids[x][1])]}))
        # objects handed over in this call that are stored objects
        aliased = {}
        for role, obj, _ in c.args:
            for o, p in containers(obj):
                if id(o) in sidset:
                    aliased[id(o)] = ('arg:' + role, p)
        for role, obj in c.results:
            for o, p in containers(obj):
                if id(o) in sidset:
                    aliased[id(o)] = ('result:' + role, p)
        covered = set()

        def observe(value):
            hit = idset(value) & sidset
            covered.update(hit)
            return bool(hit)

        k = c.k
        # ---- argument -> store positions
        if k == 'insert_one':
            self.inst(c, 'insertDoc', c.args[0][1], observe(c.args[0][1]))
        elif k == 'insert_many':
            for d in c.args[0][1]:
                self.inst(c, 'insertDoc', d, observe(d))
        if k in ('update_one', 'update_many', 'foau', 'edit_nested', 'follow_up') and c.args:
            u = [o for r, o, _ in c.args if r == 'update'][0]
            for pos, v, p in update_instances(u):
                self.inst(c, pos, v, observe(v), detail=path_str(p))
        if k in ('replace_one', 'foar'):
            u = [o for r, o, _ in c.args if r == 'replacement'][0]
            if isinstance(u, dict):
                for f, v in u.items():
                    self.inst(c, 'replaceVal', v, observe(v), detail=f)
        if k in ('update_one', 'update_many', 'replace_one', 'foau', 'foar'):
            f = [o for r, o, _ in c.args if r == 'filter'][0]
            upserted = [o for r, o in c.results if r == 'upserted_id']
            grew = len(self.raw()) > len(pre)
            if (upserted or grew) and isinstance(f, dict):
                for key, v in f.items():
                    self.inst(c, 'upsertId' if key == '_id' else 'upsertSeed', v, observe(v),
                              detail=key)
        # ---- store -> caller positions
        for role, obj in c.results:
            if role == 'inserted_id':
                self.inst(c, 'insertedId', obj, observe(obj))
            elif role == 'upserted_id':
                self.inst(c, 'upsertedId', obj, observe(obj))
            elif role == 'values':
                for v in obj:
                    self.inst(c, 'distinctVal', v, observe(v))
        proj = [o for r, o, _ in c.args if r == 'projection']
        proj_before = [b for r, _, b in c.args if r == 'projection']
        docs = c.info.get('docs', [])
        if k in ('find', 'find_one', 'find_rewind', 'foau', 'foar', 'foad'):
            if not proj:
                for d in docs:
                    self.inst(c, 'findDoc', d, observe(d))
            elif c.exc is None:
                self.projected(c, docs, proj_before[0], pre, sidset, covered)
        # ---- cursors the caller keeps: what they have cached, what they hand out again
        now_held = set(self.held_ids)
        for _, obj, _ in c.args:
            now_held |= idset(obj)
        for role, obj in c.results:
            if role == 'doc':
                now_held |= idset(obj)
        for rec in self.cursors:
            cids = idset(cache_of(rec['cur']))
            if cids & sidset and 'store' not in rec['reported']:
                rec['reported'].add('store')
                self.events.append(('cursor-cache-aliases-store', c.i, {
                    'cursor_of_step': rec['step']}))
            if cids & now_held and 'held' not in rec['reported']:
                rec['reported'].add('held')
                self.events.append(('cursor-cache-aliases-held-object', c.i, {
                    'cursor_of_step': rec['step']}))
        rec = c.info.get('cursor')
        for pos, source, kept in c.info.get('kept', []):
            # argument -> cursor (cursor -> clone): the cursor's copy of the query is its own
            if kept is not None:
                self.inst(c, pos, kept, bool(idset(kept) & idset(source)))
        if rec is not None:
            cached = results_of(rec['cur'])
            cids = idset(cache_of(rec['cur']))
            if c.info.get('filled') and not rec['projected']:
                # store -> cache leg alone (the documents of an unprojected cursor)
                for d in cached:
                    self.inst(c, 'findDoc', d, observe(d), cmd='fill')
            seen = now_held | sidset | cids
            for pos, obj in c.info.get('handouts', []):
                # cache -> caller leg alone: is it a new object, all the way down?
                self.inst(c, pos, obj, bool(idset(obj) & seen), cmd='out')
                covered.update(idset(obj) & sidset)
                seen |= idset(obj)
        if k == 'aggregate':
            pos = agg_pos(c.args[0][1])
            for d in docs:
                self.inst(c, pos, d, observe(d))
            # $addFields / $set (last stage) with a dotted name through an array: every item has
            # a value object of its own
            pl = c.args[0][1]
            last_stage = pl[-1] if isinstance(pl, list) and pl and isinstance(pl[-1], dict) else {}
            for name, body in last_stage.items():
                if name not in ('$addFields', '$set') or not isinstance(body, dict):
                    continue
                pids = idset(pl)
                for f, v in body.items():
                    parts = f.split('.')
                    if len(parts) < 2:
                        continue
                    lit = isinstance(v, list) or (isinstance(v, dict) and '$literal' in v)
                    for d in docs:
                        seen_items = sidset | pids
                        for x in added_item_values(d.get(parts[0]) if isinstance(d, dict)
                                                   else None, parts[1:]):
                            self.inst(c, 'aggAddItemLit' if lit else 'aggAddItemVal', x,
                                      bool(idset(x) & seen_items), exact=False, detail=f)
                            seen_items |= idset(x)
            rids = set()
            for d in docs:
                rids |= idset(d)
            nstages = len(c.args[0][1]) if isinstance(c.args[0][1], list) else 0
            for lit, p in pipeline_literals(c.args[0][1]):
                hit = bool(idset(lit) & rids)
                # a constant of the LAST stage reaches every output document: there the model's
                # "not copied" is checked both ways; earlier stages may be overwritten / dropped
                last = bool(docs) and p[0] == nstages - 1 and '.' not in str(p[2])
                if last:
                    body = c.args[0][1][p[0]][p[1]]
                    last = not any(f != p[2] and f.split('.')[0] == p[2] for f in body)
                if hit or last:
                    self.inst(c, 'aggLiteral', lit, hit, exact=last, detail=path_str(p))
                if hit:
                    self.stats['agg literal shared with the output'] += 1
        # ---- anything aliased that no position accounts for
        for x, (where, p) in aliased.items():
            self.explained.add(x)
            if x not in covered:
                self.events.append(('unexplained-alias', c.i, {
                    'handed_over_as': where, 'path': path_str(p),
                    'stored_at': [sids[x][0], path_str(sids[x][1])]}))
        # ---- every result is an object of its own: no container in two results of one call
        owner = {}
        for n, (role, obj) in enumerate(c.results):
            for x in idset(obj):
                if owner.setdefault(x, n) != n and x not in sidset:
                    self.events.append(('results-share-object', c.i, {
                        'first': [owner[x], c.results[owner[x]][0]], 'second': [n, role]}))
                    owner = None
                    break
            if owner is None:
                break
        # ---- results that are objects the caller held before (other than through the store)
        if True:
            argids = set()
            for _, obj, _ in c.args:
                argids |= idset(obj)
            lit_ids = set()
            if k == 'aggregate':
                for lit, _ in pipeline_literals(c.args[0][1]):
                    lit_ids |= idset(lit)
            for role, obj in c.results:
                for o, p in containers(obj):
                    x = id(o)
                    if x in sidset or x in lit_ids or x in self.explained:
                        continue
                    if x in argids or x in self.held_ids:
                        self.events.append(('result-aliases-held-object', c.i, {
                            'role': role, 'path': path_str(p),
                            'is_argument': x in argids}))
        return sidset

    def projected(self, c, docs, projection, pre, sidset, covered):
        """a read with a projection: which stored document each result came from, and what the
        result shares with the store, field by field; the model says which position each field
        went through (`c07 proj`)"""
        k = c.k
        after = c.info.get('after', True)
        exact = k in ('find', 'find_one', 'find_rewind') or (k in ('foau', 'foar') and after)
        # the source documents, in the order of the results: the same read without projection
        a = c.a
        try:
            if k == 'find':
                full = list(self.coll.find(copy.deepcopy(a[0]), None, sort=sort_arg(a[2]),
                                           skip=a[3], limit=a[4]))
            elif k == 'find_rewind':
                full = list(self.coll.find(copy.deepcopy(a[0])))
            elif k == 'find_one':
                full = [self.coll.find_one(copy.deepcopy(a[0]))]
            else:
                full = None
        except Exception:  # pylint: disable=broad-except
            full = None
        now = dict((self.freeze_id(d.get('_id')), d) for _, d in self.raw())
        old = dict((self.freeze_id(d.get('_id')), d) for _, d in pre)
        for n, r in enumerate(docs):
            if not isinstance(r, dict):
                continue
            src = None
            fid = None
            if full is not None and len(full) == len(docs) and isinstance(full[n], dict):
                fid = self.freeze_id(full[n].get('_id'))
            elif '_id' in r:
                fid = self.freeze_id(r['_id'])
            if fid is not None:
                src = (now.get(fid) or old.get(fid)) if exact else (old.get(fid) or now.get(fid))
            if src is None:
                # the source document cannot be told (no _id in the result): one-sided check
                self.stats['projected read: source document unknown'] += 1
                for key, v in r.items():
                    hit = idset(v) & sidset
                    if hit:
                        covered.update(hit)
                        self.inst(c, 'projOpStored', v, True, exact=False, detail=key)
                continue
            obs = {}
            for key, v in r.items():
                if not has_container(v):
                    continue
                whole = id(v) in sidset
                elems = [e for e in v if has_container(e)] if isinstance(v, list) else []
                obs[key] = {'value': v, 'wire': enc_now(v, self.oids), 'whole': whole,
                            'elems': [(e, bool(idset(e) & sidset), enc_now(e, self.oids))
                                      for e in elems[:4]],
                            'any': bool(idset(v) & sidset)}
                covered.update(idset(v) & sidset)
            self.projq.append({'step': c.i, 'op': k, 'exact': exact, 'obs': obs,
                               'line': 'c07 proj %s %s' % (
                                   wire.encs(projection, self.oids), wire.encs(src, self.oids)),
                               'projection': projection})
            if obs:
                self.nontrivial.add('projected-read')

    @staticmethod
    def freeze_id(v):
        return json.dumps(v, sort_keys=True, default=repr) + type(v).__name__

    # -- one step ---------------------------------------------------------------------------
    def step(self, i, op):
        self.cur = i
        c = Call(i, op, copy.deepcopy(list(op[1:])))
        pre = self.snapshot()
        pre_obj = dict((self.freeze_id(k), id(d)) for k, d in self.raw())
        try:
            self.dispatch(c)
        except Exception as e:  # pylint: disable=broad-except
            c.exc = e
            self.errors[wire.err_name(e)] += 1
        self.stats['op:' + c.k] += 1
        if c.k not in READ_ONLY:
            self.version += 1
        if c.exc is not None:
            for k, d in self.raw():
                if pre_obj.get(self.freeze_id(k), id(d)) != id(d):
                    self.stats['failed update: stored document replaced by its before-image'] += 1
        post = self.snapshot()
        self.check_args(c)
        sidset = self.check_heap(c, pre)
        # single-document writes change at most one stored document
        if c.k in ('update_one', 'replace_one', 'foau', 'foar', 'foad', 'delete_one',
                   'edit_nested', 'follow_up', 'insert_one') and c.exc is None:
            pk = dict((self.freeze_id(k), d) for k, d in pre)
            qk = dict((self.freeze_id(k), d) for k, d in post)
            changed = [k for k in pk if k in qk and not same(pk[k], qk[k])]
            gone = [k for k in pk if k not in qk]
            new = [k for k in qk if k not in pk]
            if len(changed) + len(gone) + len(new) > 1:
                self.events.append(('single-document-write-changed-several', c.i, {
                    'changed': len(changed), 'removed': len(gone), 'added': len(new)}))
            if c.k == 'edit_nested' and 'target' in c.info and c.info.get('modified'):
                self.stats['edit of one nested container, others compared'] += 1
        # non-triviality bookkeeping
        if c.k == 'update_many' and c.exc is None and c.info.get('modified', 0) >= 2:
            u = [o for r, o, _ in c.args if r == 'update'][0]
            fields = [p[1].split('.')[0] for pos, v, p in update_instances(u) if has_container(v)]
            self.multi_fields = set(fields) or None
        elif c.k in ('update_one', 'edit_nested', 'follow_up', 'foau') and c.exc is None \
                and self.multi_fields and c.info.get('modified', 1):
            u = [o for r, o, _ in c.args if r == 'update']
            if u and isinstance(u[0], dict):
                for body in u[0].values():
                    if isinstance(body, dict):
                        for f in body:
                            if f.split('.')[0] in self.multi_fields and (
                                    '.' in f or c.k in ('edit_nested', 'follow_up')):
                                self.nontrivial.add('multi-then-single')
        # hand over, then scribble on everything handed over and re-read
        handed = [(r, o) for r, o, _ in c.args] + list(c.results)
        for role, obj in handed:
            self.held.append(obj)
            for o, _ in containers(obj):
                self.held_ids.setdefault(id(o), (i, role))
        before_find = self.read_all()
        n = 0
        for role, obj in handed:
            n += scribble(obj, sidset)
        self.stats['containers scribbled'] += n
        post2 = self.snapshot()
        after_find = self.read_all()
        if not self.same_store(post, post2) or not same(before_find, after_find):
            self.events.append(('scribble-reaches-store', c.i, {
                'raw_store_before': [pretty(d) for _, d in post],
                'raw_store_after': [pretty(d) for _, d in post2]}))
        return c

    def read_all(self):
        try:
            return list(self.coll.find({}))
        except Exception as e:  # pylint: disable=broad-except
            return ['!' + wire.err_name(e)]

    @staticmethod
    def same_store(a, b):
        return len(a) == len(b) and all(same(x[1], y[1]) for x, y in zip(a, b))

    def run(self):
        for i, op in enumerate(self.history):
            self.step(i, op)
            if any(e[0] not in self.known for e in self.events):
                break
        return self


# ---------------------------------------------------------------------------------------------
# asking the model, judging

def known_ids():
    return {e['id'] for e in common.load_known(ID) if e.get('status') == 'known'}


def render(run, upto=None):
    h = run.history if upto is None else run.history[:upto + 1]
    return {'history': [pretty(op) for op in h], 'wire_history': wire.encs(h, run.oids)}


def parse_flows(ans):
    """`S<hexkey>=<pos>[/e] …` -> [(key, pos, elems)]   or an error / parse marker"""
    if ans.startswith('!') or ans.startswith('?'):
        return ans.split()[0]
    out = []
    for t in ans.split():
        k, _, rest = t.partition('=')
        elems = rest.endswith('/e')
        out.append((bytes.fromhex(k[1:]).decode('utf-8'), rest[:-2] if elems else rest, elems))
    return out


class Judge(object):
    def __init__(self, ctx):
        self.ctx = ctx
        self.known = known_ids()
        self.table = collections.Counter()     # (pos, model, python) -> count
        self.events = collections.Counter()
        self.stale = collections.Counter()
        self.proj_model_errors = collections.Counter()
        self.table_rows = {}

    def load_table(self):
        ans = wire.run_driver(['c07 table'])[0]
        rows, ops = ans.split(' | ')
        for t in rows.split():
            name, _, rest = t.partition('=')
            chain, deep, flow, final = rest.split(':')
            self.table_rows[name] = {'chain': chain.split(','), 'deep': deep == 'deep',
                                     'flow': flow, 'final': final == 'final'}
        self.op_rows = {}
        for t in ops.split():
            name, _, rest = t.partition('=')
            rows_, copying = rest.rsplit(':', 1)
            self.op_rows[name] = {'rows': rows_.split(','), 'copying': copying == 'copying'}

    def violation(self, run, step, cls, detail, rank=0):
        r = render(run, step)
        r.update({'kind': cls, 'step': step, 'operation': pretty(run.history[step]),
                  'detail': detail})
        self.ctx.violation(r, rank=rank + len(r['wire_history']))

    def batch(self, runs):
        ctx = self.ctx
        # events found on the real heap alone
        for run in runs:
            for cls, step, detail in run.events:
                self.events[cls] += 1
                if cls in self.known:
                    ctx.known_seen[cls] = ctx.known_seen.get(cls, 0) + 1
                else:
                    self.violation(run, step, cls, detail)
        # round 1: projected reads -> which position each field went through
        qs = [(run, q) for run in runs for q in run.projq]
        answers = wire.run_driver([q['line'] for _, q in qs]) if qs else []
        for (run, q), ans in zip(qs, answers):
            flows = parse_flows(ans)
            if not isinstance(flows, list):
                # python returned a document, the model raises (or does not model the projection)
                self.proj_model_errors[flows] += 1
                for key, o in q['obs'].items():
                    if o['any']:
                        run.instances.append({'pos': 'projOpStored', 'value': o['value'],
                                              'wire': o['wire'], 'observed': True, 'exact': False, 'step': q['step'],
                                              'op': q['op'], 'detail': key})
                continue
            by_key = dict((k, (pos, elems)) for k, pos, elems in flows)
            for key, o in q['obs'].items():
                if key not in by_key:
                    # the model does not expect this field in the result: judge what it shares
                    if o['any']:
                        run.instances.append({'pos': 'projField', 'value': o['value'],
                                              'wire': o['wire'], 'observed': True,
                                              'exact': False, 'step': q['step'],
                                              'op': q['op'], 'detail': key})
                    continue
                pos, elems = by_key[key]
                if elems:
                    if o['whole']:
                        run.instances.append({'pos': 'projField', 'value': o['value'],
                                              'wire': o['wire'], 'observed': True,
                                              'exact': False, 'step': q['step'], 'op': q['op'],
                                              'detail': key + ' (the list itself)'})
                    for e, hit, w in o['elems']:
                        run.instances.append({'pos': pos, 'value': e, 'wire': w, 'observed': hit,
                                              'exact': q['exact'], 'step': q['step'],
                                              'op': q['op'], 'detail': key + '[]'})
                else:
                    run.instances.append({'pos': pos, 'value': o['value'], 'wire': o['wire'],
                                          'observed': o['any'],
                                          'exact': q['exact'], 'step': q['step'], 'op': q['op'],
                                          'detail': key})
        # round 2: every position instance -> alias / fresh according to the model
        qs = [(run, x) for run in runs for x in run.instances]
        lines = ['c07 %s%s %s %s' % ('tz ' if run.tz else '', x.get('cmd', 'flow'), x['pos'],
                                     x['wire']) for run, x in qs]
        answers = wire.run_driver(lines) if lines else []
        for (run, x), ans in zip(qs, answers):
            t = ans.split()
            if len(t) != 3:
                raise RuntimeError('model driver: %r for %r' % (ans, x['pos']))
            model_alias = t[0] == 'alias'
            rows = set(p for o in MODEL_OPS.get(x['op'], []) for p in self.op_rows[o]['rows'])
            if x['pos'] not in rows:
                r = render(run, x['step'])
                r.update({'kind': 'correspondence broken: the operation uses a value-carrying '
                                  'position that the model does not list in its row',
                          'what_no_longer_checks': 'Op.rows of MongoModel.Heap against the '
                                                   'positions the harness sees exercised',
                          'operation': x['op'], 'position': x['pos']})
                ctx.violation(r, no_input=True)
            leg = {'fill': ' (store -> cache)', 'out': ' (cache -> caller)'}.get(x.get('cmd'), '')
            self.table[(x['pos'] + leg, t[0], 'alias' if x['observed'] else 'fresh')] += 1
            if x['observed'] and model_alias:
                cls = FINDING_OF_POS.get(x['pos'])
                if cls in self.known:
                    ctx.known_seen[cls] = ctx.known_seen.get(cls, 0) + 1
                else:
                    self.violation(run, x['step'], 'aliasing at position %s, which the model says '
                                   'is not copied, is not a listed known finding' % x['pos'],
                                   {'position': x['pos'], 'field': x['detail'],
                                    'value': pretty(x['value'])}, rank=5000)
            elif x['observed'] and not model_alias:
                self.violation(run, x['step'], 'a value shares an object with the store / the '
                               'caller at position %s, where the model (and the code it was '
                               'read from) copies' % x['pos'],
                               {'position': x['pos'], 'field': x['detail'],
                                'value': pretty(x['value']), 'model': ans})
            elif model_alias and not x['observed'] and x['exact']:
                self.stale[x['pos']] += 1


def gen_history(rng):
    oids = wire.Oids()
    g = gen_c07.C07Gen(rng, oids)
    h = g.history(rng.choice([4, 6, 10, 15, 20, 30]))
    wire.encs(h, oids)
    return h, oids, g


def run(ctx, proof, driver_ok):
    if not driver_ok:
        return {'explanation': 'model driver unavailable; no correspondence run'}
    n = ctx.n(1200, 16000)
    rng = random.Random(ctx.seed * 1000003 + 707)
    judge = Judge(ctx)
    judge.load_table()
    known = judge.known
    regress = regression(ctx)
    stats = collections.Counter()
    errors = collections.Counter()
    genstats = collections.Counter()
    nontrivial = {}
    kinds = collections.Counter()
    samples = []
    steps = 0
    done = 0
    batch = 200
    while done < n and not ctx.too_many():
        runs = []
        for _ in range(min(batch, n - done)):
            try:
                h, oids, g = gen_history(rng)
            except wire.Unencodable:
                continue
            run_ = HistoryRun(h, oids, known, tz=rng.random() < 1 / 6.0).run()
            stats['histories on a tz_aware client'] += run_.tz
            runs.append(run_)
            steps += len(h)
            stats.update(run_.stats)
            errors.update(run_.errors)
            genstats.update(g.stats)
            if run_.nontrivial:
                hh = common.case_hash(wire.encs(h, oids))
                if hh not in nontrivial:
                    nontrivial[hh] = sorted(run_.nontrivial)
                    for x in run_.nontrivial:
                        kinds[x] += 1
                    if len(samples) < 4 and len(h) <= 8:
                        samples.append({'history': [pretty(op) for op in h],
                                        'non_trivial_because': sorted(run_.nontrivial),
                                        'events': [e[0] for e in run_.events]})
        done += batch
        judge.batch(runs)
    for pos, cnt in judge.stale.items():
        ctx.notes.append('position %s: the model says the value is not copied, python shared '
                         'nothing in %d instance(s) (finding no longer reproduces there / model '
                         'stale)' % (pos, cnt))
    table = {}
    for (pos, m, p), cnt in sorted(judge.table.items()):
        table.setdefault(pos, {})['model=%s python=%s' % (m, p)] = cnt
    return {
        'evaluations': steps,
        'histories': done,
        'distinct_nontrivial': len(nontrivial),
        'nontrivial_kinds': dict(kinds),
        'rule': RULE,
        'samples': samples,
        'position_instances_model_vs_python': table,
        'positions_never_exercised': sorted(set(judge.table_rows) -
                                            set(k.split(' ')[0] for k in table) -
                                            {'insertArg', 'updTemp', 'rollbackSnapshot',
                                             'upsertInsert', 'projOpCopied'}),
        'model_table': judge.table_rows,
        'model_operations': judge.op_rows,
        'events_on_the_real_heap': dict(judge.events),
        'witnesses_of_repaired_findings': regress,
        'projection_flows_model_raises_python_returns': dict(judge.proj_model_errors),
        'checks': {k: v for k, v in stats.items() if not k.startswith(('op:', 'inst:'))},
        'operation_histogram': {k[3:]: v for k, v in stats.items() if k.startswith('op:')},
        'python_error_kinds': dict(errors),
        'generator_choices': dict(genstats),
    }


def run_one(ctx, history, oids, known=None):
    judge = Judge(ctx)
    judge.load_table()
    if known is not None:
        judge.known = known
    r = HistoryRun(history, oids, judge.known).run()
    judge.batch([r])
    return r, judge


def regression(ctx):
    """the witnesses of the findings repaired in the library, through the same checks as a
    generated history and with NOTHING listed as known: the defect coming back is a VIOLATION"""
    out = {}
    for e in common.load_known(ID):
        w = e.get('witness', {})
        if e.get('status') != 'fixed' or not w.get('wire_history'):
            continue
        oids = wire.Oids()
        history = wire.dec(w['wire_history'], oids)
        before = len(ctx.violations)
        r, judge = run_one(ctx, history, oids, known=set())
        if w.get('consequence') and consequence(w['consequence']):
            rr = render(r)
            rr.update({'kind': 'the repaired defect %s is back: %s' % (e['id'], e['what']),
                       'fixed_by': e.get('commit')})
            ctx.violation(rr, rank=1)
        out[e['id']] = 'python = spec' if len(ctx.violations) == before else 'VIOLATION'
    return out


def replay(ctx, path):
    e = json.load(open(path))
    oids = wire.Oids()
    history = wire.dec(e['wire_history'], oids)
    r, judge = run_one(ctx, history, oids)
    print(json.dumps({'events': [[c, s] for c, s, _ in r.events],
                      'positions': {'%s model=%s python=%s' % k: v for k, v in judge.table.items()},
                      'violations': len(ctx.violations)}, default=repr))
    return common.finish(ctx)


def replay_finding(ctx, entry):
    """does the listed witness still show the aliasing / the edited argument on the real code?"""
    oids = wire.Oids()
    history = wire.dec(entry['witness']['wire_history'], oids)
    sub = common.Ctx(ID, ctx.tier, ctx.seed)
    r, judge = run_one(sub, history, oids, known=known_ids() | {entry['id']})
    seen = set(c for c, _, _ in r.events) | set(sub.known_seen)
    if entry['id'] not in seen:
        return False
    # the consequence named by the witness, checked directly
    chk = entry['witness'].get('consequence')
    return consequence(chk) if chk else True


def consequence(name):
    """the harm of each finding, stated without the harness machinery"""
    c = mongomock.MongoClient().db.c
    if name == 'agg-literal-alias':
        c.insert_many([{'_id': 1}, {'_id': 2}])
        p = [{'$addFields': {'q': {'$literal': {'z': 1}}}}]
        r = list(c.aggregate(p))
        r[0]['q']['z'] = 'changed by the caller'
        return p != [{'$addFields': {'q': {'$literal': {'z': 1}}}}] or r[1]['q'] != {'z': 1}
    if name == 'cursor-projection-by-reference':
        c.insert_one({'_id': 1, 'a': 1, 'b': 2})
        p = {'a': 1}
        cur = c.find({}, p)
        p['a'] = 0
        first = list(cur)
        p.clear()
        p['b'] = 1
        return first != [{'_id': 1, 'a': 1}] or list(cur.clone()) != [{'_id': 1, 'a': 1}]
    if name == 'cursor-sort-by-reference':
        c.insert_many([{'_id': 1, 'a': 2}, {'_id': 2, 'a': 1}])
        srt = [('a', 1)]
        cur = c.find({}, sort=srt)
        srt[0] = ('a', -1)
        first = [d['_id'] for d in cur]
        srt[0] = ('_id', 1)
        return first != [2, 1] or [d['_id'] for d in cur.clone()] != [2, 1]
    if name == 'cursor-cache-alias':
        c.insert_one({'_id': 1, 'a': [1]})
        cur = c.find({})
        d = next(cur)
        d['a'].append('changed by the caller')
        cur.rewind()
        return next(cur)['a'] != [1]
    return True
