"""C12 — projection returns exactly the requested part of each document, nothing else.

Correspondence: mongomock's `find(filter, projection)`, `find_one`, `find_one_and_update /
replace / delete(projection=…)` and `aggregate([{$project: …}])` against the Lean model
(`MongoModel.copyOnlyFields`, `findProject`, `findOneProject`, `aggProject`, `sliceOp`) and the
oracle (`Spec.Proj.project`, `Spec.Proj.slice`), with the domain reasons computed by the Lean
definitions the theorems of Props/C12.lean are about (`Spec.Proj.reasons`, `aggReasons`,
`sliceReasons`).  Besides, the property is stated directly on the Python outputs: wherever the rule
speaks (plain inclusion / exclusion specifications) every result of find, find_one_and_* and
$project IS the document an independent reference projection written from the property text
prescribes (`ref_project`: _id unless excluded plus the named paths and nothing else / everything
but the named paths; `_id` special at the top level only) - a difference is reported with the
paths that should not be there / are lacking; every result is
⊑ the stored document, the number and order of results equal the unprojected query, `$slice`
/ `$elemMatch` fields hold the stated part, and the caller's projection object is unchanged after
every call, successful or raising.  Whenever a datetime is stored (and for a sample of the other
cases) the same entry points are also asked through a `tz_aware=True` client (python only): each
must give the naive client's answer with UTC attached - the projection is computed on the stored
document, whichever client reads - and `find_one_and_*` must agree with `find` on that client.
The dated cases also carry their projection a second time, every datetime of its conditions written
another way (tz-aware under some offset, with a sub-millisecond part, or both): python only, it
must project like the stored form through find, find_one and find_one_and_* on both clients.
"""
import collections
import copy
import datetime
import glob
import json
import os
import random

from sentinels import NOTHING

import mongomock
from mongomock.collection import ReturnDocument
from mongomock.filtering import filter_applies

import common
import gen
import gen_filter
import gen_proj
import wire

RULE = ('case = 1-3 stored documents (variants of one another: nested sub-documents, arrays of '
        'sub-documents, mixed arrays, missing paths; sub-documents use the top-level field names '
        'and, one in four, carry an _id of their own), one filter, one projection (dict / list '
        'form, _id toggling, dotted paths, $slice, $elemMatch, malformed stream; one case in eight '
        'is "dated": arrays of sub-documents / scalars carrying datetimes, $elemMatch conditions '
        'on those dates by equality, range, $in/$nin/$ne, $slice next to date fields, and the same '
        'projection once more with these datetimes written tz-aware / with sub-millisecond parts) '
        'and one '
        'plain $project specification; evaluated through find per document, find over the filter, '
        'find_one, one of find_one_and_update/replace/delete (BEFORE or AFTER), and aggregate on '
        '/repo and through the Lean model, and - when a datetime is stored, plus a 15 % sample - '
        'through a tz_aware=True client as well (python only); an evaluation = one (document, projection) pair on one entry point; '
        'non-trivial = the projection succeeds and its output differs from both the stored '
        'document and {_id}; distinct = by hash of the wire encoding of (document, projection)')

ASSUMPTIONS = [
    'outside F (model answers "unmodelled"): a projection argument that is neither None, a dict '
    'nor a list; computed fields in $project (values other than 0/1/true/false)',
    'scope limits of the rule (oracle silent or not judged): operator fields together with the '
    'full-document oracle (judged per field instead), flag values other than 0/1/true/false, '
    'mixed inclusion/exclusion, colliding paths, empty path components, positional "$", '
    '"_id.x" paths (`_id: 1` next to excluded fields of a $project is INSIDE the domain since '
    'the stage accepts it: the former class idinexclusion is gone)',
    '$elemMatch is judged relative to the real matcher filter_applies (C01 covers the matcher)',
    'find_one_and_* picks its target on the full document (fix: commit in /repo) and returns the '
    'projection of that document, empty or not',
    'sort / skip / limit are not combined with projection here (C11)',
    'the python reference projection (ref_project) speaks exactly where the Lean oracle does '
    '(Spec.Proj.project inside Spec.Proj.reasons = []) and says the same: checked on every '
    'find-path item of every run, a difference is an internal error, not a verdict; it compares '
    'documents whatever the order of their keys (the property does not speak of key order)',
    'tz_aware=True clients are outside the model (the driver is not consulted): their answers are '
    'judged against the naive client\'s answer with UTC attached to every datetime and against '
    'find on the same client',
    'a datetime inside a projection condition is read like one in the filter (fix: commit in '
    '/repo, finding projection-condition-date-raw): the model and the oracle get the stored form '
    '(naive UTC, milliseconds) of the projection; the same projection with its datetimes written '
    'tz-aware (any offset) and / or with a sub-millisecond part is judged python-only: through '
    'find, find_one and find_one_and_*, on the naive and the tz_aware client, it must project '
    'like the stored form',
]

# classes of deviation still excused (listed in known_findings.json with status "known"): none.
# The classes mixedarray, exclscalar, aggdroparr, slicelimit, sliceskip, slicealone were repaired
# in the library: they are no reasons of the Lean domain any more, their witnesses are replayed
# as ordinary cases on every run (`fixed_cases`) and any recurrence is a VIOLATION.
FINDINGS = set()


# ---------------------------------------------------------------------------------------------
# the property stated in Python terms

def sub(o, d):
    """o ⊑ d: every leaf of o is a leaf of d at the same path with the same value; arrays may
    lose elements but not reorder them"""
    if isinstance(o, dict):
        return isinstance(d, dict) and all(k in d and sub(v, d[k]) for k, v in o.items())
    if isinstance(o, list):
        if not isinstance(d, list):
            return False

        def emb(i, j):
            if i == len(o):
                return True
            for t in range(j, len(d)):
                if sub(o[i], d[t]) and emb(i + 1, t + 1):
                    return True
            return False
        return emb(0, 0)
    return type(o) is type(d) and o == d


def id_first(d):
    if isinstance(d, dict) and '_id' in d:
        return dict([('_id', d['_id'])] + [(k, v) for k, v in d.items() if k != '_id'])
    return d


def op_fields(p):
    return {k: v for k, v in p.items() if isinstance(v, dict)} if isinstance(p, dict) else {}


def slice_only(p):
    """a dict whose only entries are `$slice` operator fields (no `_id`)"""
    return (isinstance(p, dict) and p and
            all(isinstance(v, dict) and list(v) == ['$slice'] for v in p.values()))


def single_op(p, doc):
    """(field, op name, operand, array) when the per-field rule applies: exactly one operator
    field, a top-level name other than `_id`, one operator, holding an array in the document,
    and no plain path starting with that name"""
    ops = op_fields(p)
    if len(ops) != 1:
        return None
    (f, op), = ops.items()
    if len(op) != 1 or '.' in f or f == '_id' or not isinstance(doc.get(f), list):
        return None
    for k, v in p.items():
        if k != f and (k == f or k.startswith(f + '.')):
            return None
    if any(isinstance(v, list) for v in p.values()):
        return None
    (name, operand), = op.items()
    return f, name, operand, doc[f]


# ---------------------------------------------------------------------------------------------
# the rule of the property text, in Python, independent of the library and of the Lean side:
# "an inclusion returns _id (unless excluded) plus the named paths - descending through
# sub-documents and through each sub-document element of arrays - and nothing else; an exclusion
# removes exactly the named paths and keeps everything else".  `_id` is special at the TOP level
# only; below it the name is a field like any other.

def is_flag(v):
    return type(v) is bool or (type(v) is int and v in (0, 1))


def ref_norm(p):
    """None: the whole document; (include, paths, keep_id): a plain specification in normal
    form; NOTHING: the rule does not speak (operator fields, values other than 0/1/true/false,
    mixed modes, colliding or repeated paths, empty / `$` components, `_id.x`)"""
    if p is None or (isinstance(p, (dict, list)) and not p):
        return None
    if isinstance(p, list):
        if not all(isinstance(x, str) for x in p) or len(set(p)) != len(p):
            return NOTHING
        p = {x: 1 for x in p}
    if not isinstance(p, dict) or not all(isinstance(k, str) for k in p):
        return NOTHING
    if not all(is_flag(v) for v in p.values()):
        return NOTHING
    keep_id = bool(p.get('_id', 1))
    plain = [(tuple(k.split('.')), bool(v)) for k, v in p.items() if k != '_id']
    paths = [q for q, _ in plain]
    if not plain:
        return keep_id, [], keep_id
    if len({v for _, v in plain}) != 1:
        return NOTHING
    for q in paths:
        if q[0] == '_id' or any(x == '' or x.startswith('$') for x in q):
            return NOTHING
    for i, q in enumerate(paths):
        for j, t in enumerate(paths):
            if i != j and t[:len(q)] == q:
                return NOTHING
    return plain[0][1], paths, keep_id


def tails(k, paths):
    return [q[1:] for q in paths if q and q[0] == k]


def ref_incl(v, paths):
    """what an inclusion of `paths` shows of v (NOTHING: a scalar has nothing to show)"""
    if isinstance(v, dict):
        out = {}
        for k, x in v.items():
            ts = tails(k, paths)
            if not ts:
                continue
            if () in ts:
                out[k] = x
            else:
                y = ref_incl(x, ts)
                if y is not NOTHING:
                    out[k] = y
        return out
    if isinstance(v, list):
        return [y for y in (ref_incl(x, paths) for x in v) if y is not NOTHING]
    return NOTHING


def ref_excl(v, paths):
    if isinstance(v, dict):
        out = {}
        for k, x in v.items():
            ts = tails(k, paths)
            if not ts:
                out[k] = x
            elif () not in ts:
                out[k] = ref_excl(x, ts)
        return out
    if isinstance(v, list):
        return [ref_excl(x, paths) for x in v]
    return v


def ref_project(p, d):
    """the document the rule prescribes for projection p of document d (NOTHING: silent)"""
    n = ref_norm(p)
    if n is NOTHING or not isinstance(d, dict):
        return NOTHING
    if n is None:
        return d
    include, paths, keep_id = n
    if include:
        return ref_incl(d, ([('_id',)] if keep_id else []) + paths)
    return ref_excl(d, ([] if keep_id else [('_id',)]) + paths)


def same_value(a, b):
    """equal values of equal types all the way down; the order of the keys of a document does
    not count (the property does not speak of it)"""
    if isinstance(a, dict):
        return (isinstance(b, dict) and set(a) == set(b) and
                all(same_value(a[k], b[k]) for k in a))
    if isinstance(a, (list, tuple)):
        return (isinstance(b, (list, tuple)) and len(a) == len(b) and
                all(same_value(x, y) for x, y in zip(a, b)))
    if type(a) is not type(b):
        return False
    return a == b or (a != a and b != b)


def leaves(v, prefix=''):
    """{dotted path (array positions included): leaf} of a value"""
    if isinstance(v, dict) and v:
        out = {}
        for k, x in v.items():
            out.update(leaves(x, prefix + '.' + k if prefix else k))
        return out
    if isinstance(v, (list, tuple)) and v:
        out = {}
        for i, x in enumerate(v):
            out.update(leaves(x, prefix + '.' + str(i) if prefix else str(i)))
        return out
    return {prefix: v}


def leaf_diff(got, want):
    """(paths of got the rule does not put there, paths of want that got lacks)"""
    g, x = leaves(got), leaves(want)

    def differ(a, b):
        # a container that is empty on one side and filled on the other is there on both: the
        # difference is what fills it
        out = []
        for k in a:
            if k in b and same_value(a[k], b[k]):
                continue
            if a[k] in ({}, []) and any(q.startswith(k + '.') for q in b):
                continue
            out.append(k)
        return sorted(out)
    return differ(g, x), differ(x, g)


# ---------------------------------------------------------------------------------------------
# cases

def variants(pg, base, k):
    g = pg.g
    out = [base]
    for i in range(1, k):
        e = copy.deepcopy(g.r.choice(out))
        for _ in range(g.r.choice([1, 1, 2])):
            paths = [p for p in g.paths_of(e) if p[0][0] != '_id']
            x = g.r.random()
            if paths and x < 0.65:
                comps, _ = g.r.choice(paths)
                parent = e
                for c in comps[:-1]:
                    parent = parent[int(c)] if isinstance(parent, list) else parent[c]
                last = comps[-1]
                newv = pg.value(1)
                if isinstance(parent, list):
                    parent[int(last)] = newv
                elif g.r.random() < 0.3:
                    del parent[last]
                else:
                    parent[last] = newv
            else:
                e[g.r.choice(gen.FIELDS)] = pg.value(2)
        e['_id'] = i
        out.append(e)
    return out


def gen_case(rng):
    oids = wire.Oids()
    g = gen.Gen(rng, oids)
    pg = gen_proj.ProjGen(g)
    dated = rng.random() < 0.12
    if dated:
        pg.note('flavour:dated')
    docs = variants(pg, pg.dated_doc(0) if dated else pg.doc(0), rng.choice([1, 2, 2, 3]))
    some = rng.choice(docs)
    x = rng.random()
    if x < 0.5:
        f = {}
    elif x < 0.6:
        f = {'_id': rng.choice([0, 1, 2, {'$gt': 0}, {'$ne': 1}])}
    else:
        f = gen_filter.FilterGen(g, malformed=0.03, elem=False, regex=False).filter(some, depth=1)
    p = pg.dated_projection(some) if dated and rng.random() < 0.85 else pg.projection(some)
    if (isinstance(p, dict) and p and not any(isinstance(v, (dict, list)) for v in p.values())
            and rng.random() < 0.5):
        pa = copy.deepcopy(p)
    else:
        pa = pg.agg_projection(some)
    fam = rng.choice(['update', 'update_after', 'replace', 'replace_after', 'delete'])
    # dated cases: the datetimes of the projection conditions written another way
    palt = pg.respell(p) if dated else None
    # the tz_aware client is asked whenever a datetime is stored, and for a sample of the rest
    return {'docs': docs, 'filter': f, 'proj': p, 'aggproj': pa, 'fam': fam, 'oids': oids,
            'kinds': pg.kinds, 'tzprobe': rng.random() < 0.15, 'proj_alt': palt}


def render(c, **kw):
    o = c['oids']
    r = {'docs': [wire.pretty(d) for d in c['docs']], 'filter': wire.pretty(c['filter']),
         'projection': wire.pretty(c['proj']), 'agg_projection': wire.pretty(c['aggproj']),
         'fam': c['fam'],
         'wire_docs': [wire.encs(d, o) for d in c['docs']],
         'wire_filter': wire.encs(c['filter'], o), 'wire_proj': wire.encs(c['proj'], o),
         'wire_aggproj': wire.encs(c['aggproj'], o)}
    if c.get('proj_alt') is not None:
        r['projection_respelled'] = wire.pretty(c['proj_alt'])
        r['wire_proj_alt'] = wire.encs(c['proj_alt'], o)
    r.update(kw)
    return r


def case_from(e):
    oids = wire.Oids()
    return {'docs': [wire.dec(w, oids) for w in e['wire_docs']],
            'filter': wire.dec(e['wire_filter'], oids), 'proj': wire.dec(e['wire_proj'], oids),
            'aggproj': wire.dec(e['wire_aggproj'], oids), 'fam': e.get('fam', 'update'),
            'oids': oids, 'kinds': {},
            'proj_alt': wire.dec(e['wire_proj_alt'], oids) if e.get('wire_proj_alt') else None}


def fresh(docs, tz_aware=False):
    coll = (mongomock.MongoClient(tz_aware=True) if tz_aware else mongomock.MongoClient()).db.c
    for d in docs:
        coll.insert_one(copy.deepcopy(d))
    return coll


def attempt(fn):
    try:
        return fn()
    except Exception as e:  # pylint: disable=broad-except
        return '!' + wire.err_name(e)


def is_err(x):
    return isinstance(x, str) and x.startswith('!')


def w(v, oids):
    """wire form of a python outcome (value, list of values, None for 'no document', error)"""
    if is_err(v):
        return v
    if v is None:
        return '_'
    return wire.encs(v, oids)


def same_object(a, b):
    """a and b are equal, of the same types, dict keys in the same order, all the way down"""
    if type(a) is not type(b):
        return False
    if isinstance(a, dict):
        return list(a) == list(b) and all(same_object(a[k], b[k]) for k in a)
    if isinstance(a, (list, tuple)):
        return len(a) == len(b) and all(same_object(x, y) for x, y in zip(a, b))
    return a == b


def has_date(v):
    if isinstance(v, dict):
        return any(has_date(x) for x in v.values())
    if isinstance(v, (list, tuple)):
        return any(has_date(x) for x in v)
    return isinstance(v, datetime.datetime)


def made_aware(v):
    """what a tz_aware client shows of a stored value: the same value, every naive (UTC) datetime
    carrying UTC"""
    if isinstance(v, dict):
        return {k: made_aware(x) for k, x in v.items()}
    if isinstance(v, (list, tuple)):
        return [made_aware(x) for x in v]
    if isinstance(v, datetime.datetime) and v.tzinfo is None:
        return v.replace(tzinfo=wire.FixedOffset(0))
    return v


def find_and_modify(coll, fam, q, arg):
    ret = ReturnDocument.AFTER if fam.endswith('_after') else ReturnDocument.BEFORE
    if fam.startswith('update'):
        return attempt(lambda: coll.find_one_and_update(q, {'$set': {'zz': 7}}, projection=arg,
                                                        return_document=ret))
    if fam.startswith('replace'):
        return attempt(lambda: coll.find_one_and_replace(q, {'zz': 7, 'a': {'b': 1}},
                                                         projection=arg, return_document=ret))
    return attempt(lambda: coll.find_one_and_delete(q, projection=arg))


def py_eval_tz(c):
    """the same read entry points through a tz_aware client (python only: the model is the naive
    client's; a tz_aware client shows the same projections, computed on the stored documents,
    with UTC attached)"""
    p, f, fam = c['proj'], c['filter'], c['fam']
    coll = fresh(c['docs'], tz_aware=True)
    t = {}

    def arg_of(entry, v):
        a = copy.deepcopy(v)
        c['args'].append((entry + ' (tz_aware)', a, copy.deepcopy(v)))
        return a
    per = []
    for d in c['stored']:
        arg = arg_of('find', p)
        r = attempt(lambda: list(coll.find({'_id': d['_id']}, arg)))
        if not is_err(r):
            r = r[0] if len(r) == 1 else '!wrongcount%d' % len(r)
        per.append(r)
    t['per'] = per
    arg = arg_of('find-list', p)
    t['found'] = attempt(lambda: list(coll.find(copy.deepcopy(f), arg)))
    arg1 = arg_of('find_one', p)
    t['one'] = attempt(lambda: coll.find_one(copy.deepcopy(f), arg1))
    arg2 = arg_of('aggregate', c['aggproj'])
    t['agg'] = attempt(lambda: list(coll.aggregate([{'$project': arg2}])))
    coll2 = fresh(c['docs'], tz_aware=True)
    q = {'_id': c['stored'][0]['_id']}
    arg3 = arg_of('find_one_and_' + fam, p)
    t['famres'] = find_and_modify(coll2, fam, q, arg3)
    # what find shows, on this client, of the document find_one_and_* is to return
    if fam.endswith('_after'):
        arg4 = arg_of('find', p)
        t['famfind'] = attempt(lambda: coll2.find_one(q, arg4))
    else:
        t['famfind'] = per[0]
    c['tz'] = t


def py_eval_alt(c):
    """the projection with its datetimes written another way (tz-aware, sub-millisecond parts),
    through find per document, find_one and find_one_and_* on the naive client and, when it is
    asked, the tz_aware one (python only: the model gets the stored form)"""
    c['alt'] = None
    pa = c.get('proj_alt')
    if pa is None:
        return
    f, fam = c['filter'], c['fam']
    c['alt'] = {}
    for tz in ([False, True] if c['tz'] else [False]):
        coll = fresh(c['docs'], tz_aware=tz)
        tag = ' (respelled%s)' % (', tz_aware' if tz else '')

        def arg_of(entry, tag=tag):
            a = copy.deepcopy(pa)
            c['args'].append((entry + tag, a, copy.deepcopy(pa)))
            return a
        per = []
        for d in c['stored']:
            arg = arg_of('find')
            r = attempt(lambda: list(coll.find({'_id': d['_id']}, arg)))
            if not is_err(r):
                r = r[0] if len(r) == 1 else '!wrongcount%d' % len(r)
            per.append(r)
        arg1 = arg_of('find_one')
        one = attempt(lambda: coll.find_one(copy.deepcopy(f), arg1))
        coll2 = fresh(c['docs'], tz_aware=tz)
        arg3 = arg_of('find_one_and_' + fam)
        famres = find_and_modify(coll2, fam, {'_id': c['stored'][0]['_id']}, arg3)
        c['alt'][tz] = {'per': per, 'one': one, 'famres': famres}


def py_eval(c):
    """run the real code on every entry point; every projection object handed to the code is
    kept in c['args'] as (entry, object after the call, pristine copy)"""
    p, f = c['proj'], c['filter']
    coll = fresh(c['docs'])
    stored = list(coll.find({}))
    c['stored'] = stored
    c['args'] = []

    def arg_of(entry, v):
        a = copy.deepcopy(v)
        c['args'].append((entry, a, copy.deepcopy(v)))
        return a
    per = []
    for d in stored:
        arg = arg_of('find', p)
        r = attempt(lambda: list(coll.find({'_id': d['_id']}, arg)))
        if not is_err(r):
            r = r[0] if len(r) == 1 else '!wrongcount%d' % len(r)
        per.append(r)
    c['per'] = per
    c['plain'] = attempt(lambda: list(coll.find(copy.deepcopy(f))))
    arg = arg_of('find-list', p)
    c['found'] = attempt(lambda: list(coll.find(copy.deepcopy(f), arg)))
    arg1 = arg_of('find_one', p)
    c['one'] = attempt(lambda: coll.find_one(copy.deepcopy(f), arg1))
    arg2 = arg_of('aggregate', c['aggproj'])
    c['agg'] = attempt(lambda: list(coll.aggregate([{'$project': arg2}])))
    # find_one_and_*: on the first stored document, through a collection of its own
    coll2 = fresh(c['docs'])
    d0 = stored[0]
    q = {'_id': d0['_id']}
    fam = c['fam']
    ret = ReturnDocument.AFTER if fam.endswith('_after') else ReturnDocument.BEFORE
    arg3 = arg_of('find_one_and_' + fam, p)
    c['famres'] = find_and_modify(coll2, fam, q, arg3)
    src = d0
    if ret is ReturnDocument.AFTER:
        src = coll2.find_one(q)
    c['famsrc'] = src
    c['fam_before'] = d0
    c['tz'] = None
    if c.get('tzprobe', True) or has_date(stored):
        py_eval_tz(c)
    py_eval_alt(c)


def case_lines(c):
    """the model's side: one driver line per judged item; returns [(tag, line)]"""
    o = c['oids']
    ds = [wire.encs(d, o) for d in c['stored']]
    ps = wire.encs(c['proj'], o)
    fs = wire.encs(c['filter'], o)
    out = [('per%d' % i, 'c12p %s %s' % (d, ps)) for i, d in enumerate(ds)]
    out.append(('found', 'c12f %s %s %s' % (fs, ps, ' '.join(ds))))
    out.append(('one', 'c12o %s %s %s' % (fs, ps, ' '.join(ds))))
    out.append(('agg', 'c12a %s %s' % (wire.encs(c['aggproj'], o), ' '.join(ds))))
    out.append(('fam', 'c12p %s %s' % (wire.encs(c['famsrc'], o), ps)))
    if c['famsrc'] is not c['fam_before']:
        out.append(('fam0', 'c12p %s %s' % (wire.encs(c['fam_before'], o), ps)))
    for i, d in enumerate(c['stored']):
        so = single_op(c['proj'], d)
        if so and so[1] == '$slice':
            try:
                out.append(('slice%d' % i, 'c12s %s %s' % (wire.encs(so[2], o),
                                                           wire.encs(so[3], o))))
            except wire.Unencodable:
                pass
    return out


def parts(line):
    return [x.strip() for x in line.split('|')]


class Judge(object):
    def __init__(self, ctx):
        self.ctx = ctx
        self.known = {e['id'] for e in common.load_known('C12') if e.get('status') == 'known'}
        self.zone = collections.Counter()
        self.zone_entry = collections.Counter()
        self.reasons = collections.Counter()
        self.findings = collections.Counter()
        self.errors = collections.Counter()
        self.entry = collections.Counter()
        self.direct = collections.Counter()
        self.internal = []
        self.refdiff = []
        self.evaluations = 0

    # -- verdict helpers ---------------------------------------------------------------------
    def finding(self, c, labels, **kw):
        labels = sorted(set(labels))
        for r in labels:
            self.findings[r] += 1
        if not (set(labels) & self.known):
            self.ctx.violation(render(c, kind='deviation from the projection rule in an unlisted '
                                      'class', classes=labels, **kw))
        else:
            for r in set(labels) & self.known:
                self.ctx.known_seen[r] = self.ctx.known_seen.get(r, 0) + 1

    def broken(self, c, what, **kw):
        self.ctx.violation(render(c, kind='correspondence broken: python differs from the model '
                                  'on this input; the oracle has no answer here',
                                  what_no_longer_checks=what, **kw), no_input=True)

    def judge(self, c, entry, py, impl, spec_ok, spec_silent, reasons, what, **kw):
        """the verdict table of docs/CONVENTIONS.md for one item.
        spec_ok: python agrees with the oracle; spec_silent: the oracle does not speak"""
        ctx = self.ctx
        self.evaluations += 1
        self.entry[entry] += 1
        if is_err(py):
            self.errors[py[1:]] += 1
        if impl.startswith('!?'):
            self.zone['unmodelled'] += 1
            return
        scope = [r for r in reasons if r not in FINDINGS]
        zone = 'D' if not reasons else ('scope' if scope else 'F-minus-D')
        if spec_silent and zone == 'D':
            zone = 'scope'
        self.zone[zone] += 1
        self.zone_entry[('find_one_and_*' if '_and_' in entry else entry) + ':' + zone] += 1
        for r in reasons:
            self.reasons[r] += 1
        if py == impl:
            if spec_silent or spec_ok or scope:
                return
            if not reasons:
                self.internal.append(render(c, entry=entry, py=py, impl=impl, **kw))
                return
            self.finding(c, reasons, entry=entry, python=py, **kw)
            return
        if not spec_silent and not scope and spec_ok:
            ctx.notes.append('model stale but python follows the rule (%s): %s' % (
                entry, json.dumps(render(c), default=repr)[:300]))
            return
        if not spec_silent and not scope:
            ctx.violation(render(c, kind='%s disagrees with the projection rule' % entry,
                                 entry=entry, python=py, model=impl, zone=zone, reasons=reasons,
                                 **kw),
                          rank=(0 if zone == 'D' else 10000) + len(repr(c['proj'])) +
                          len(repr(c['docs'])))
            return
        self.pending.append((entry, what, dict(kw, python=py, model=impl, reasons=reasons)))

    # -- one case ----------------------------------------------------------------------------
    def case(self, c, out):
        ctx = self.ctx
        o = c['oids']
        self.pending = []
        nviol = len(ctx.violations)
        stored, p = c['stored'], c['proj']
        # per document, find path
        for i, d in enumerate(stored):
            impl, spec, spec2, reasons = parts(out['per%d' % i])
            reasons = reasons.split()
            py = w(c['per'][i], o)
            self.judge(c, 'find', py, impl, py in (spec, spec2), spec == '?', reasons,
                       'mongomock Collection._copy_only_fields ~ MongoModel.copyOnlyFields',
                       doc_index=i)
            self.direct_doc(c, i, d, c['per'][i], out)
            self.direct_rule(c, 'find', p, d, c['per'][i],
                             oracle=(spec, reasons), doc_index=i)
        self.direct_query(c)
        self.direct_args(c)
        self.direct_tz(c)
        self.direct_alt(c)
        # list(find(filter, projection)) and find_one
        impl = parts(out['found'])[0]
        self.judge(c, 'find-list', w(c['found'], o), impl, False, True, [],
                   'mongomock Collection.find(filter, projection) ~ MongoModel.findProject')
        impl = parts(out['one'])[0]
        self.judge(c, 'find_one', w(c['one'], o), impl, False, True, [],
                   'mongomock Collection.find_one(filter, projection) ~ MongoModel.findOneProject')
        # find_one_and_*
        impl, spec, spec2, reasons = parts(out['fam'])
        reasons = reasons.split()
        first = parts(out['fam0'])[0] if 'fam0' in out else impl
        silent = spec == '?'
        if first.startswith('!') and not first.startswith('!?'):
            impl, silent = first, True     # the first lookup already raised
        py = w(c['famres'], o)
        self.judge(c, 'find_one_and_' + c['fam'], py, impl, py in (spec, spec2), silent, reasons,
                   'mongomock Collection.find_one_and_* (projection=) ~ MongoModel.copyOnlyFields')
        self.direct_rule(c, 'find_one_and_' + c['fam'], p, c['famsrc'], c['famres'])
        if not is_err(c['famres']) and c['famres'] is not None:
            if not sub(c['famres'], c['famsrc']):
                ctx.violation(render(c, kind='find_one_and_%s returned a document that is not '
                                     'part of the stored one' % c['fam'],
                                     python=wire.pretty(c['famres'])), rank=50)
        # aggregate
        impl, spec, reasons = parts(out['agg'])
        reasons = reasons.split()
        py = w(c['agg'], o)
        self.judge(c, 'aggregate', py, impl, py == spec, spec == '?', reasons,
                   'mongomock aggregate $project ~ MongoModel.aggProject')
        if (not is_err(c['agg']) and isinstance(c['aggproj'], dict) and c['aggproj'] and
                len(c['agg']) == len(stored)):
            for i, (d, r) in enumerate(zip(stored, c['agg'])):
                self.direct_rule(c, 'aggregate', c['aggproj'], d, r, doc_index=i)
        if not is_err(c['agg']) and not impl.startswith('!?'):
            self.direct['agg-sub'] += 1
            if len(c['agg']) != len(stored) or not all(sub(r, d) for r, d in
                                                       zip(c['agg'], stored)):
                ctx.violation(render(c, kind='$project changed the number/order of documents or '
                                     'returned something that is not part of the stored document',
                                     python=wire.pretty(c['agg'])), rank=60)
        # a disagreement with the model where the oracle is silent: a concrete failing input is
        # one of the direct checks above; otherwise name the correspondence
        if self.pending and len(ctx.violations) == nviol:
            entry, what, kw = self.pending[0]
            self.broken(c, what, entry=entry, **kw)

    def direct_doc(self, c, i, d, res, out):
        """the property stated on python's own output for one document"""
        ctx = self.ctx
        p = c['proj']
        if is_err(res):
            # a well-shaped `$slice` the rule answers must not be refused: judged when the
            # operator field is the whole specification (no other source of errors)
            so = single_op(p, d)
            if (so and so[1] == '$slice' and ('slice%d' % i) in out and
                    all(k == so[0] or (k == '_id' and v in (0, 1)) for k, v in p.items())):
                impl, spec, reasons = parts(out['slice%d' % i])
                self.direct['slice'] += 1
                if spec != '?' and not reasons.split():
                    ctx.violation(render(c, kind='$slice refused an operand the rule answers',
                                         doc_index=i, field=so[0], python=res,
                                         expected=wire.pretty(wire.dec(spec))),
                                  rank=20 + len(repr(p)))
            return
        self.direct['sub'] += 1
        if not sub(res, d):
            ctx.violation(render(c, kind='projection altered or invented a value: the result is '
                                 'not part of the stored document', doc_index=i,
                                 python=wire.pretty(res)), rank=10 + len(repr(p)))
        # `$slice` alone keeps the other fields, as they are
        if slice_only(p):
            self.direct['slicealone'] += 1
            if list(res) != list(d) or not all(
                    same_object(res[k], d[k]) for k in d if k not in p):
                ctx.violation(render(c, kind='a projection made only of $slice fields did not '
                                     'keep the other fields of the document', doc_index=i,
                                     python=wire.pretty(res)), rank=20 + len(repr(p)))
        # per-field rule for `$slice` / `$elemMatch`
        so = single_op(p, d)
        if not so:
            return
        f, name, operand, arr = so
        if name == '$slice' and ('slice%d' % i) in out:
            impl, spec, reasons = parts(out['slice%d' % i])
            reasons = reasons.split()
            self.direct['slice'] += 1
            got = wire.encs(res[f], c['oids']) if f in res else '_'
            if reasons:
                return                      # operand not an int / a pair of ints: the rule is silent
            if spec == '?':
                # the rule refuses the operand (limit <= 0) and the code answered
                ctx.violation(render(c, kind='$slice answered an operand the rule refuses '
                                     '(limit <= 0)', doc_index=i, field=f,
                                     python=wire.pretty(res.get(f))), rank=20 + len(repr(p)))
                return
            if got != spec:
                ctx.violation(render(c, kind='$slice did not keep the stated part of the array',
                                     doc_index=i, field=f, python=wire.pretty(res.get(f)),
                                     expected=wire.pretty(wire.dec(spec))),
                              rank=20 + len(repr(p)))
        elif name == '$elemMatch' and isinstance(operand, dict):
            self.direct['elemMatch'] += 1
            try:
                hits = [x for x in arr if filter_applies(copy.deepcopy(operand), x)]
            except Exception:  # pylint: disable=broad-except
                return
            exp = [hits[0]] if hits else NOTHING
            got = res.get(f, NOTHING)
            if exp is NOTHING:
                bad = got is not NOTHING
            else:
                bad = got is NOTHING or wire.encs(got, c['oids']) != wire.encs(
                    exp, c['oids'])
            if bad:
                ctx.violation(render(c, kind='$elemMatch did not keep exactly the first matching '
                                     'element', doc_index=i, field=f,
                                     python=wire.pretty(res.get(f, '<absent>'))),
                              rank=20 + len(repr(p)))

    def direct_rule(self, c, entry, p, d, res, oracle=None, **kw):
        """the clause itself on python's own output: the result is the document the rule
        prescribes - _id (unless excluded) plus the named paths and nothing else / everything but
        the named paths - wherever the rule speaks (`ref_project`, python only)"""
        want = ref_project(p, d)
        if oracle is not None:
            # harness self-check: the python reference and the Lean oracle (`Spec.Proj.project`
            # inside `Spec.Proj.reasons` = []) speak on the same inputs and say the same
            spec, reasons = oracle
            speaks = not reasons and spec != '?'
            if speaks != (want is not NOTHING) or (speaks and w(want, c['oids']) != spec):
                self.refdiff.append(render(
                    c, entry=entry, lean_oracle=spec, lean_reasons=reasons,
                    python_reference='silent' if want is NOTHING else wire.pretty(want), **kw))
        if want is NOTHING or is_err(res) or res is None:
            return
        self.direct['rule:' + ('find_one_and_*' if '_and_' in entry else entry)] += 1
        if same_value(res, want):
            return
        extra, missing = leaf_diff(res, want)
        n = ref_norm(p)
        mode = 'projection' if n is None else 'inclusion' if n[0] else 'exclusion'
        if extra and not missing:
            kind = ('%s returned something besides %s' % (
                mode, '_id and the named paths' if mode == 'inclusion' else
                'what is left once the named paths are removed'))
        elif missing and not extra:
            kind = '%s left out %s' % (mode, 'a named path' if mode == 'inclusion' else
                                       'something that is not a named path')
        else:
            kind = '%s did not return the part of the document it names' % mode
        self.ctx.violation(render(
            c, kind='%s (%s)' % (kind, entry), entry=entry,
            document=wire.pretty(d), python=wire.pretty(res), expected=wire.pretty(want),
            should_not_be_there=extra, should_be_there=missing, **kw),
            rank=5 + len(repr(p)) + len(repr(d)))

    def direct_tz(self, c):
        """a tz_aware client gets, on every read entry point, the projection of the STORED
        document with UTC attached: (a) the naive client's answer made aware (error names
        included), (b) find_one_and_* agrees with find on the same client"""
        t = c.get('tz')
        if not t:
            return
        ctx = self.ctx
        o = c['oids']
        fam = 'find_one_and_' + c['fam']
        pairs = [('find', c['per'][i], t['per'][i], {'doc_index': i})
                 for i in range(len(c['stored']))]
        pairs += [('find-list', c['found'], t['found'], {}), ('find_one', c['one'], t['one'], {}),
                  (fam, c['famres'], t['famres'], {}), ('aggregate', c['agg'], t['agg'], {})]
        for entry, naive, aware, kw in pairs:
            self.direct['tz:' + ('find_one_and_*' if '_and_' in entry else entry)] += 1
            want = naive if is_err(naive) else made_aware(naive)
            if w(aware, o) != w(want, o):
                ctx.violation(render(
                    c, kind='through a tz_aware client %s does not return the projection of the '
                    'stored document (the answer of the naive client with UTC attached)' % entry,
                    entry=entry, tz_aware=True,
                    python=aware if is_err(aware) else wire.pretty(aware),
                    expected=want if is_err(want) else wire.pretty(want), **kw),
                    rank=12 + len(repr(c['proj'])) + len(repr(c['docs'])))
                return
        # (b) the document handed over by find_one_and_* is what find shows of it
        got, ref = t['famres'], t['famfind']
        self.direct['tz:fam=find'] += 1
        if is_err(ref) or (is_err(got) and is_err(t['per'][0])):
            return                  # the projection is refused on this document
        if w(got, o) != w(ref, o):
            ctx.violation(render(
                c, kind='through a tz_aware client %s and find disagree on the projection of the '
                'same document' % fam, entry=fam, tz_aware=True,
                python=got if is_err(got) else wire.pretty(got), find=wire.pretty(ref)),
                rank=12 + len(repr(c['proj'])) + len(repr(c['docs'])))

    def direct_alt(self, c):
        """every way of writing one instant inside a projection condition projects like the
        stored form (naive UTC, milliseconds) of that instant"""
        alt = c.get('alt')
        if not alt:
            return
        o = c['oids']
        fam = 'find_one_and_' + c['fam']
        for tz, a in sorted(alt.items()):
            ref = c['tz'] if tz else c
            pairs = [('find', ref['per'][i], a['per'][i], {'doc_index': i})
                     for i in range(len(c['stored']))]
            pairs += [('find_one', ref['one'], a['one'], {}), (fam, ref['famres'], a['famres'], {})]
            for entry, want, got, kw in pairs:
                self.direct['respelled:' + ('find_one_and_*' if '_and_' in entry else entry)] += 1
                if w(got, o) != w(want, o):
                    self.ctx.violation(render(
                        c, kind='a datetime inside a projection condition written another way '
                        '(tz-aware / sub-millisecond part) does not project like its stored form '
                        'through %s' % entry, entry=entry, tz_aware=tz,
                        python=got if is_err(got) else wire.pretty(got),
                        expected=want if is_err(want) else wire.pretty(want), **kw),
                        rank=14 + len(repr(c['proj'])) + len(repr(c['docs'])))
                    return

    def direct_args(self, c):
        """the projection object the caller passed is left exactly as it was, whether the call
        succeeded or raised"""
        for entry, arg, pristine in c['args']:
            self.direct['arg'] += 1
            if not same_object(arg, pristine):
                self.ctx.violation(render(c, kind='the projection argument was modified by the '
                                          'call', entry=entry, arg_before=wire.pretty(pristine),
                                          arg_after=wire.pretty(arg)),
                                   rank=30 + len(repr(pristine)))
                return

    def direct_query(self, c):
        """projection neither selects nor reorders"""
        ctx = self.ctx
        plain, found, per = c['plain'], c['found'], c['per']
        if is_err(plain):
            return
        self.direct['map'] += 1
        idx = {id(d): i for i, d in enumerate(c['stored'])}
        pos = []
        for d in plain:
            for i, s in enumerate(c['stored']):
                if s.get('_id') == d.get('_id') and type(s.get('_id')) is type(d.get('_id')):
                    pos.append(i)
                    break
        del idx
        exp = [per[i] for i in pos]
        if is_err(found):
            if not any(is_err(x) for x in exp):
                ctx.violation(render(c, kind='find(filter, projection) raised although find(filter) '
                                     'and the projection of every selected document succeed',
                                     python=found), rank=40)
            return
        if any(is_err(x) for x in exp):
            ctx.violation(render(c, kind='find(filter, projection) succeeded although projecting '
                                 'one of the selected documents raises', python=wire.pretty(found)),
                          rank=40)
            return
        o = c['oids']
        if [wire.encs(x, o) for x in found] != [wire.encs(x, o) for x in exp]:
            ctx.violation(render(c, kind='find(filter, projection) is not the list of the '
                                 'projections of the documents find(filter) returns, in order',
                                 python=wire.pretty(found), unprojected=wire.pretty(plain)),
                          rank=15 + len(repr(c['proj'])))
        one = c['one']
        if not is_err(one):
            want = exp[0] if exp else None
            if (one is None) != (want is None) or (one is not None and
                                                   wire.encs(one, o) != wire.encs(want, o)):
                ctx.violation(render(c, kind='find_one(filter, projection) is not the projection '
                                     'of the first document find(filter) returns',
                                     python=wire.pretty(one)), rank=45)


def run_cases(ctx, cases, judge):
    lines, spans = [], []
    for c in cases:
        py_eval(c)
        ls = case_lines(c)
        spans.append((len(lines), ls))
        lines.extend(l for _, l in ls)
    out = wire.run_driver(lines)
    for c, (a, ls) in zip(cases, spans):
        judge.case(c, {tag: out[a + k] for k, (tag, _) in enumerate(ls)})


def encodable(c):
    try:
        render(c)
        return True
    except wire.Unencodable:
        return False


def corpus_cases():
    out = []
    for path in sorted(glob.glob(os.path.join(common.VERIF, 'corpus', 'C12', '*.json'))):
        out.append(case_from(json.load(open(path))))
    return out


def fixed_cases():
    """the witnesses of the repaired findings, as ordinary cases: judged like any generated case,
    so the old behaviour is a VIOLATION if it comes back"""
    out = []
    for e in common.load_known('C12'):
        if e.get('status') != 'fixed':
            continue
        wt = e['witness']
        agg = wt['entry'] == 'aggregate'
        for fam in wt.get('fams', ['update']):
            out.append(case_from({'wire_docs': [wt['wire_doc']], 'wire_filter': '{ }',
                                  'wire_proj': '{ S61 I1 }' if agg else wt['wire_proj'],
                                  'wire_aggproj': wt['wire_proj'] if agg else '{ S61 I1 }',
                                  'wire_proj_alt': wt.get('wire_proj_alt'), 'fam': fam}))
    return out


def nontrivial(c, i):
    r, d = c['per'][i], c['stored'][i]
    if is_err(r):
        return False
    return r != d and r != ({'_id': d['_id']} if '_id' in d else {})


def run(ctx, proof, driver_ok):
    if not driver_ok:
        return {'explanation': 'model driver unavailable; no correspondence run'}
    n = ctx.n(6000, 120000)
    rng = random.Random(ctx.seed * 1000003 + 1212)
    judge = Judge(ctx)
    corpus = corpus_cases() + fixed_cases()
    run_cases(ctx, corpus, judge)
    kinds = collections.Counter()
    seen = set()
    samples = []
    done = 0
    batch = 1000
    while done < n and not ctx.too_many():
        cases = []
        for _ in range(min(batch, n - done)):
            c = gen_case(rng)
            if encodable(c):
                cases.append(c)
        done += batch
        run_cases(ctx, cases, judge)
        for c in cases:
            for k, v in c['kinds'].items():
                kinds[k] += v
            for i in range(len(c['stored'])):
                if nontrivial(c, i):
                    h = common.case_hash([wire.encs(c['stored'][i], c['oids']),
                                          wire.encs(c['proj'], c['oids'])])
                    if h not in seen:
                        seen.add(h)
                        if len(samples) < 4 and len(repr(c['docs'])) < 400:
                            samples.append({'doc': wire.pretty(c['stored'][i]),
                                            'projection': wire.pretty(c['proj']),
                                            'result': wire.pretty(c['per'][i])})
    if judge.internal:
        raise RuntimeError('model and oracle differ inside D (contradicts the theorem): %r'
                           % judge.internal[:2])
    if judge.refdiff:
        raise RuntimeError('the python reference projection and the Lean oracle differ (harness '
                           'defect): %r' % judge.refdiff[:2])
    return {
        'evaluations': judge.evaluations,
        'distinct_nontrivial': len(seen),
        'rule': RULE,
        'samples': samples,
        'cases': done,
        'corpus_cases': len(corpus),
        'entry_points': dict(judge.entry),
        'zones': dict(judge.zone),
        'zones_by_entry': dict(judge.zone_entry),
        'exclusion_reasons_hit': dict(judge.reasons),
        'deviations_by_class': dict(judge.findings),
        'direct_checks': dict(judge.direct),
        'python_error_kinds': dict(judge.errors),
        'projection_kinds': dict(kinds),
    }


def replay(ctx, path):
    e = json.load(open(path))
    c = case_from(e)
    judge = Judge(ctx)
    run_cases(ctx, [c], judge)
    o = c['oids']
    print(json.dumps({'per_doc': [w(x, o) for x in c['per']], 'found': w(c['found'], o),
                      'find_one': w(c['one'], o), 'aggregate': w(c['agg'], o),
                      'fam': w(c['famres'], o),
                      'tz_aware': c['tz'] and {
                          'per_doc': [w(x, o) for x in c['tz']['per']],
                          'found': w(c['tz']['found'], o), 'find_one': w(c['tz']['one'], o),
                          'aggregate': w(c['tz']['agg'], o), 'fam': w(c['tz']['famres'], o),
                          'fam_find': w(c['tz']['famfind'], o)},
                      'violations': len(ctx.violations)}, default=repr))
    if judge.internal:
        print('model and oracle differ inside D')
        return 2
    if judge.refdiff:
        print('the python reference projection and the Lean oracle differ (harness defect)')
        return 2
    return common.finish(ctx)


def replay_finding(ctx, e):
    """does the listed witness still deviate from the rule on the real code?"""
    wt = e['witness']
    oids = wire.Oids()
    doc = wire.dec(wt['wire_doc'], oids)
    p = wire.dec(wt['wire_proj'], oids)
    coll = fresh([doc])
    arg = copy.deepcopy(p)
    if wt['entry'] == 'aggregate':
        r = attempt(lambda: list(coll.aggregate([{'$project': arg}]))[0])
    else:
        r = attempt(lambda: list(coll.find({}, arg))[0])
    if wt.get('check') == 'arg':
        return arg != p
    if wt['expected'] == '!':
        return not is_err(r)           # the rule refuses the specification, the code answers
    if is_err(r):
        return True
    return wire.encs(id_first(r), oids) != wire.encs(id_first(wire.dec(wt['expected'], oids)),
                                                     oids)
