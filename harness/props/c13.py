"""C13 — upsert inserts exactly one well-formed document iff nothing matches.

Histories dominated by upserting calls (update_one, update_many, replace_one,
find_one_and_update / _replace, bulk upserts) whose filters mix equalities (plain and `$eq`, of
scalars, sub-documents - the empty one included - and arrays), dotted paths and operator conditions, aimed half at existing documents and half past them, run on the real
code and on the Lean model (`MongoModel.applyUpdateColl … upsert`).  Directly on python:
before every such call the harness asks the real `find` what matches; afterwards exactly one
document was added iff nothing matched, nothing existing was touched by an insert, a matching
call equals the same call without upsert (run on a twin) - outcome and state, whether the call
returned or raised, for every filter shape, equality conditions one below the other included
(read off a stored document, so that it satisfies them: such a filter cannot seed a document but
finds one like any other), and for the upserting requests of a bulk -, the new document is what an
independent reference builds (seed from the filter's equalities, then the update with
`$setOnInsert`; equality conditions one below the other must raise), the reported upserted_id is
the new document's `_id` with matched_count 0, and a pure-equality filter - the empty field name
included - finds the new document again.  The witnesses of the repaired defects
(known_findings.json, status "fixed") are replayed through oracle and correspondence on every run.
"""
import collections
import copy
import sys

import common
import gen
import hist
import histcheck
import refupdate
from histcheck import freeze, state_of, renumber_state

ID = 'C13'
SALT = 1313
RULE = ('history = 2-14 generated operations, about two thirds of them update_one / update_many / '
        'replace_one / find_one_and_update / find_one_and_replace / bulk requests with upsert=True '
        '(a sixth with upsert=False), filters of 1-3 conditions mixing equalities stated plainly '
        'and as {$eq: v} - v a scalar (two thirds), an empty / flat / nested sub-document, an array, '
        'or a sub-document with an operator inside - on fields and on dotted paths, _id (scalar and '
        'embedded), _id.k and operator conditions ($gt $in $ne $exists), aimed at existing '
        'documents about half of the time; one filter condition in twenty is a pair of unrelated '
        'fields of which one name is the textual beginning of the other (a / ab, a.b / a.b_x, '
        '_id / _id_id, _id.k / _id.k0, now and then a path below the longer name; either order; '
        'the `_id` itself stated or left to be generated); a tenth of the filters carry an empty field name (\'\', '
        '\'a.\'), an operator condition below an equality ({b: {}, \'b.k\': {$gt: 1}}, either order) or '
        'an equality below another one (either order, plain and $eq; must raise when nothing '
        'matches) - two times out of three read off a stored document (a path holding a '
        'sub-document or array, _id included, and one or two paths into it, array positions '
        'named or passed through), which then matches it; updates with 1-3 '
        'operators including $setOnInsert; every step is compared with the Lean model (outcome, '
        'full state) and judged directly on python against find-before / find-after, a twin run '
        'without upsert whenever something matched (outcome - value or error - and state; for a '
        'bulk: upsert switched off on the requests that find a document when they are reached) '
        'and an independent seed + operator reference (which also says when the '
        'equality conditions conflict and the call must raise, and that a call that finds nothing '
        'and whose new document the reference commits to must not raise - unless it is a '
        'DuplicateKeyError on an `_id` the collection holds / under a further index, or a known '
        'refusal of the same update on a stored document); the witnesses of the repaired '
        'defects are replayed first; non-trivial = an upsert that '
        'inserted a document whose seed has a dotted path or whose filter has an operator '
        'condition; distinct = by hash of the history')
ASSUMPTIONS = [
    'the pre-call match count uses the real find(filter) (C01/C10 cover find and its agreement '
    'with the update path)',
    'the reference declines (no verdict on the new document\'s content) for top-level logical '
    'operators in the filter, conflicting paths, positional paths and the cases refupdate.py '
    'declines; those are covered by the model correspondence only',
    'TTL-free histories',
]

known_labels = {e['id'] for e in common.load_known(ID) if e.get('status') == 'known'}
UPD = ('update_one', 'update_many', 'replace_one')
COUNTS = collections.Counter()      # what the twin oracle saw (reported in the evidence)
FAM = ('find_one_and_update', 'find_one_and_replace')
# what goes on after a field's name to name another, unrelated field
LOOKALIKE_TAILS = ['b', 'c', '_x', '_id', '0', '2', 'B', ' ', '-a']


class Gen13(hist.HistGen):
    def cond_value(self, d, f):
        r = self.r
        if d is not None and f in d and r.random() < 0.5 and not isinstance(d[f], (dict, list)):
            return copy.deepcopy(d[f])
        return r.choice([1, 2, 3, 'x', 'y', None, True, 2.5, 7])

    def eq_value(self, d, f):
        """the value of an equality condition — anything a field can hold: scalars (mostly),
        sub-documents (empty, flat, nested, with empty members), arrays, and now and then a
        sub-document with an operator condition inside (given whole, it contributes nothing)"""
        r = self.r
        x = r.random()
        if x < 0.66:
            return self.cond_value(d, f)
        if d is not None and isinstance(d.get(f), (dict, list)) and r.random() < 0.4:
            return copy.deepcopy(d[f])
        if x < 0.76:
            return {}
        if x < 0.88:
            sub = self.g.doc(1, maxf=2)
            if sub and r.random() < 0.3:
                sub[r.choice(list(sub))] = {}
            return sub
        if x < 0.96:
            return r.choice([[], [1], [1, 2], ['x'], [{}], [[]], [{'a': 1}]])
        return {r.choice(gen.FIELDS): r.choice([{'$gt': 1}, {'$eq': {}}, {'$eq': 2}, {'$lt': 2, '$gt': 0}])}

    def condition(self, d, f):
        """an equality stated plainly or through $eq"""
        v = self.eq_value(d, f)
        return {'$eq': v} if self.r.random() < 0.5 else v

    def conflicting(self, d):
        """equality conditions one below the other that the stored document `d` satisfies, in
        either key order: a path of d that holds a non-empty sub-document or array, with that
        value, and one (now and then two) paths into the value with what it holds there - an
        array position named or, a third of the time, passed through implicitly; every
        condition stated plainly or as {$eq: v}.  `_id` takes part like any field.  None when
        d holds no container"""
        r = self.r
        if d is None:
            return None
        tops = [(list(p), v) for p, v in [((), d)] + self.g.paths_of(d)
                if isinstance(v, (dict, list)) and v and p]
        if not tops:
            return None
        p, v = r.choice(tops)
        below = self.g.paths_of(v)
        conds = [('.'.join(p), copy.deepcopy(v))]
        for q, w in r.sample(below, min(len(below), r.choice([1, 1, 1, 1, 2]))):
            q = list(q)
            if r.random() < 0.33:
                q = [c for c in q if not c.isdigit()] or q
            conds.append(('.'.join(p + q), copy.deepcopy(w)))
        conds = [(k, {'$eq': w} if r.random() < 0.4 else w) for k, w in conds]
        r.shuffle(conds)
        return conds

    def lookalikes(self, d):
        """conditions on a field (top level, below a dotted path, `_id`, below `_id`) and on a
        sibling whose name merely goes on after that field's name without a dot (now and then
        with a path below the sibling), in either key order: equalities stated plainly or as
        {$eq: v}, now and then an operator condition on the shorter name; for `_id` the shorter
        name is left out half of the time (the new document is given an `_id` all the same)"""
        r = self.r
        f1, f2 = r.choice(gen.FIELDS), r.choice(gen.FIELDS)
        base = r.choice([f1, f1, f1, '_id', '_id', f1 + '.' + f2, f1 + '.' + f2, f1 + '.' + f2,
                         '_id.' + r.choice(['j', 'k'])])
        longer = base + r.choice(LOOKALIKE_TAILS)
        if r.random() < 0.2:
            longer += '.' + r.choice(gen.FIELDS)
        conds = [(longer, self.condition(d, longer))]
        if base == '_id':
            if r.random() < 0.5:
                conds.append(('_id', copy.deepcopy(r.choice(self.ids + [50, 51, 'new']))))
        elif r.random() < 0.85:
            conds.append((base, self.condition(d, base)))
        else:
            conds.append((base, r.choice([{'$gt': 1}, {'$exists': False}, {'$ne': 1}])))
        r.shuffle(conds)
        return conds

    def filt(self):
        r = self.r
        d = self.some_doc()
        f = {}
        for _ in range(r.choice([1, 1, 2, 2, 3])):
            x = r.random()
            if x < 0.22:
                if d is not None and '_id' in d and r.random() < 0.45:
                    f['_id'] = copy.deepcopy(d['_id'])
                else:
                    f['_id'] = copy.deepcopy(r.choice(self.ids + [50, 51, 52, 'new', {'j': 'n', 'k': 9}]))
            elif x < 0.27:
                f['_id.' + r.choice(['j', 'k'])] = r.choice([1, 2, 'a'])
            elif x < 0.5:
                k = r.choice(gen.FIELDS)
                f[k] = self.eq_value(d, k)
            elif x < 0.6:
                k = r.choice(gen.FIELDS)
                f[k] = {'$eq': self.eq_value(d, k)}
            elif x < 0.73:
                k = r.choice(gen.FIELDS) + '.' + r.choice(gen.FIELDS + ['0'])
                f[k] = self.condition(None, k) if r.random() < 0.8 else {'$gt': 1}
            elif x < 0.78:
                # two UNRELATED fields of which one name is the textual beginning of the other
                # (user / user_id, a.b / a.bc, _id / _id_str): neither path leads through the
                # other, both equalities go into the new document
                for k, v in self.lookalikes(d):
                    f[k] = v
            elif x < 0.81:
                # the empty field name is a field name like any other
                k = r.choice(['', '', r.choice(gen.FIELDS) + '.', '.' + r.choice(gen.FIELDS)])
                f[k] = self.condition(None, k) if r.random() < 0.7 else self.cond_value(None, k)
            elif x < 0.86:
                # an operator condition below an equality contributes nothing (either key order)
                k = r.choice(gen.FIELDS)
                sub = k + '.' + r.choice(gen.FIELDS + ['k'])
                eqv = r.choice([{}, {'k': 1}, 3, 'x', {r.choice(gen.FIELDS): 2}, [1]])
                opc = r.choice([{'$gt': 1}, {'$exists': False}, {'$in': [1, 2]}, {'$ne': 1}])
                if r.random() < 0.5:
                    f[k] = eqv
                    f[sub] = opc
                else:
                    f[sub] = opc
                    f[k] = eqv
            elif x < 0.91:
                # an equality below another equality: no document can be inferred (WriteError
                # when nothing matches), yet it is a filter like any other for FINDING documents:
                # two times out of three the pair is read off a stored document, which then
                # satisfies both conditions
                pair = self.conflicting(d) if r.random() < 0.67 else None
                aimed = pair is not None
                if pair is None:
                    k = r.choice(gen.FIELDS + ['_id'])
                    sub = k + '.' + r.choice(gen.FIELDS + ['k'])
                    eqv = r.choice([{}, {'k': 1}, 3, {'$eq': {'k': 2}}])
                    pair = [(k, eqv), (sub, r.choice([1, {'$eq': 1}]))]
                    if r.random() < 0.5:
                        pair.reverse()
                for k, v in pair:
                    f[k] = v
                if aimed and r.random() < 0.5:
                    break        # no further condition that the document may not satisfy
            elif x < 0.96:
                k = r.choice(gen.FIELDS)
                f[k] = r.choice([{'$gt': r.choice([0, 2, 100])}, {'$in': [1, 'x', 9]},
                                 {'$ne': r.choice([1, 'x'])}, {'$exists': r.random() < 0.5},
                                 {'$gte': 2, '$lt': 3}, {'$eq': 3, '$lt': 9}])
            else:
                f[r.choice(['$and', '$or'])] = [{r.choice(gen.FIELDS): r.choice([1, 2, 'x'])}]
        return f

    fam_filter = filt

    def op(self):
        o = hist.HistGen.op(self)
        k = o[0]
        # mostly upserts
        if k in UPD and self.r.random() < 0.85:
            o[3] = True
        elif k in FAM and self.r.random() < 0.85:
            o[5] = True
        elif k == 'bulk_write':
            for q in o[1]:
                if q[0] in ('UpdateOne', 'UpdateMany', 'ReplaceOne') and self.r.random() < 0.8:
                    q[3] = True
        return o


def histgen(rng, oids):
    hg = Gen13(rng, oids, weights=dict(
        insert_one=14, insert_many=5, update_one=22, update_many=10, replace_one=10,
        delete_one=2, delete_many=1, find=0, count=0, distinct=0, create_index=2,
        drop_index=0, drop_indexes=0, drop=1, find_one_and_update=8, find_one_and_replace=4,
        bulk_write=4), ttl=False)
    hg.ug.malformed = 0.03
    return hg


def length(rng):
    return rng.choice([2, 4, 6, 9, 14])


view = histcheck.full_view


def upsert_flag(op):
    k = op[0]
    if k in UPD:
        return bool(op[3])
    if k in FAM:
        return bool(op[5])
    return None


def pre_probe(runner, op):
    if upsert_flag(op) is None:
        return None
    try:
        n = len(list(runner.coll.find(copy.deepcopy(op[1]))))
        size = len(list(runner.coll.find({})))
    except Exception as e:  # pylint: disable=broad-except
        return {'error': type(e).__name__}
    return {'matches': n, 'size': size}


def probe(runner, op):
    """after the call: how many documents the same filter finds now, and their positions"""
    if not upsert_flag(op):
        return None
    try:
        ids = [d['_id'] for d in runner.coll.find(copy.deepcopy(op[1]))]
        allids = [d['_id'] for d in runner.coll.find({})]
    except Exception as e:  # pylint: disable=broad-except
        return {'error': type(e).__name__}
    pos = []
    for x in ids:
        p = [j for j, y in enumerate(allids) if type(x) is type(y) and x == y]
        pos.append(p[0] if p else -1)
    return {'found': pos}


def is_opdoc(v):
    return isinstance(v, dict) and v and any(str(k).startswith('$') for k in v)


class Conflict(Exception):
    """the equality conditions of the filter contradict each other: one lies at or below another"""


def seed_of(filt, implied_id=True):
    """the document the filter's equality conditions describe (independent of mongomock):
    plain values and {$eq: v} contribute, dotted paths are expanded (every component, the empty
    one included, is a field name), operator conditions and logical operators contribute
    nothing; raises Conflict when an equality lies at or below another one (the new document
    always has an `_id`: a generated one counts), refupdate.Unknown when it will not commit"""
    seed = {}
    paths = []
    items = list(filt.items())
    implied_id = implied_id and '_id' not in filt
    if implied_id:
        items.append(('_id', None))    # the generated / update-given _id takes part in conflicts
    for n, (k, v) in enumerate(items):
        if k.startswith('$'):
            raise refupdate.Unknown('top-level operator')
        if '$' in k:
            raise refupdate.Unknown('odd path')
        parts = k.split('.')
        if is_opdoc(v):
            if set(v) == {'$eq'}:
                v = v['$eq']
            elif '$eq' in v:
                raise refupdate.Unknown('$eq mixed with operators')
            else:
                continue
        if isinstance(v, dict) and has_dollar(v):
            raise refupdate.Unknown('operator inside an embedded value')
        for q in paths:
            if q[:len(parts)] == parts or parts[:len(q)] == q:
                raise Conflict('%r / %r' % ('.'.join(q), k))
        paths.append(parts)
        if any(p.isdigit() for p in parts):
            raise refupdate.Unknown('numeric component')
        if n < len(filt):
            refupdate.set_at(seed, parts, copy.deepcopy(v))
    return seed, paths[:-1] if implied_id else paths


def has_dollar(v):
    if isinstance(v, dict):
        return any(str(k).startswith('$') or has_dollar(x) for k, x in v.items())
    if isinstance(v, list):
        return any(has_dollar(x) for x in v)
    return False


def update_paths(u):
    out = []
    if isinstance(u, dict):
        for k, body in u.items():
            if str(k).startswith('$') and isinstance(body, dict):
                for p, arg in body.items():
                    out.append(str(p).split('.'))
                    if k == '$rename' and isinstance(arg, str):
                        out.append(arg.split('.'))
            elif not str(k).startswith('$'):
                out.append([k])
    return out


def expected_new(filt, spec, replace):
    """(expected document, has_id) or raises refupdate.Unknown"""
    seed, _ = seed_of(filt)
    if replace:
        if not isinstance(spec, dict) or any(str(k).startswith('$') for k in spec):
            raise refupdate.Unknown('not a replacement')
        doc = copy.deepcopy(spec)
        if '_id' in seed and '_id' in doc and not refupdate.eq(seed['_id'], doc['_id']):
            raise refupdate.Unknown('_id of filter and replacement differ')
        if '_id' in seed:
            doc['_id'] = seed['_id']
        if isinstance(seed.get('_id'), dict) and set(filt) != {'_id'}:
            pass
        return doc
    if not isinstance(spec, dict) or not spec or not all(str(k).startswith('$') for k in spec):
        raise refupdate.Unknown('not an operator update')
    sid = seed.pop('_id', None)
    had_id = sid is not None
    doc = refupdate.apply(seed, spec, on_insert=True)
    if had_id:
        doc['_id'] = sid
    return doc


def strip_id(d, keep):
    if keep or not isinstance(d, dict):
        return d
    return {k: v for k, v in d.items() if k != '_id'}


def without_upsert(op):
    o = copy.deepcopy(op)
    if o[0] in UPD:
        o[3] = False
    else:
        o[5] = False
    return o


def oracle(history, steps):
    fails = []
    prev = []
    for i, st in enumerate(steps):
        docs = st.obs.get('docs') if isinstance(st.obs, dict) else None
        if not isinstance(docs, list):
            break
        k = st.op[0]
        up = upsert_flag(st.op)
        pre = (st.extra or {}).get('pre')
        if up is not None and pre and 'error' not in pre and pre['size'] == len(prev):
            if st.out[0] == 'val':
                fails.extend(judge(history, i, st, prev, docs, up, pre))
            elif up and pre['matches'] > 0:
                # the call raised although a document matches: so must the call without upsert
                fails.extend(judge_matched(history, i, st, prev, docs, pre))
            elif up:
                # the call raised although nothing matches: only when no document can be inferred
                fails.extend(judge_refused(history, i, st, prev, docs))
        elif k == 'bulk_write' and any(is_upsert_request(q) for q in st.op[1]):
            fails.extend(judge_bulk(history, i, st))
        prev = docs
        if any(l not in known_labels for (_, l, _) in fails) or len(fails) > 50:
            break
    return fails


def frozen_out(out):
    return tuple(freeze(x) for x in out)


def judge_matched(history, i, st, prev, docs, pre):
    """upsert=True while `pre['matches']` > 0 documents match the filter - whatever the shape of
    the filter (conflicting equalities included: they only matter for a document that has to be
    inferred) and whatever the outcome, a value or an error: nothing is inserted and the call is
    the same call without upsert (run on a twin)"""
    fails = []
    k = st.op[0]
    out = st.out[1] if st.out[0] == 'val' else None
    COUNTS['matched_upserts_compared_with_twin'] += 1
    if st.out[0] != 'val':
        COUNTS['matched_upserts_that_raised'] += 1
    if conflicting_equalities(st.op[1]):
        COUNTS['matched_upserts_with_conflicting_equalities'] += 1
    if len(docs) != len(prev):
        fails.append((i, 'upsert-despite-match', '%s(upsert=True): %d documents match but the '
                      'collection went from %d to %d documents'
                      % (k, pre['matches'], len(prev), len(docs))))
    if k in UPD and isinstance(out, dict) and out.get('upserted') is not None:
        fails.append((i, 'upsert-despite-match', '%s(upsert=True) with %d matches reports '
                      'upserted_id %r' % (k, pre['matches'], out.get('upserted'))))
    # the same call without upsert, on a twin
    twin = histcheck.run_history(history[:i] + [without_upsert(st.op)], st.oids)
    t = twin[i]
    if renumber_state(state_of(t.obs)) != renumber_state(state_of(st.obs)) or \
            frozen_out(t.out) != frozen_out(st.out):
        fails.append((i, 'upsert-differs-when-matched', '%s filter %r with %d matching documents: '
                      'upsert=True gave %r / %r, upsert=False gives %r / %r'
                      % (k, st.op[1], pre['matches'], st.out, state_of(st.obs), t.out,
                         state_of(t.obs))))
    return fails


def judge_refused(history, i, st, prev, docs):
    """upsert=True, nothing matches and the call raised.  When the filter's equality conditions
    describe a document (no condition at or below another one - two names of which one merely
    begins like the other are two unrelated fields) and the update applies to it - the
    independent reference commits to the new document -, exactly one document has to be
    inserted: the refusal is a failure.  A DuplicateKeyError is left to C06 / C08 when the
    collection has an index besides `_id_` or already holds the new document's `_id`"""
    k = st.op[0]
    filt = histcheck.canon_value(st.op[1], st.oids)
    spec = histcheck.canon_value(st.op[2], st.oids)
    replace = k in ('replace_one', 'find_one_and_replace')
    if k in FAM and st.op[3] is not None:
        # a projection may be refused on its own account (C12)
        COUNTS['refused_upserts_not_judged:projection'] += 1
        return []
    try:
        exp = expected_new(filt, spec, replace)
    except (refupdate.Unknown, Conflict):
        COUNTS['refused_upserts_the_reference_refuses_or_declines'] += 1
        return []
    except Exception:  # pylint: disable=broad-except
        return []
    err = st.out[1] if len(st.out) > 1 else None
    if err == 'DuplicateKeyError':
        indexes = (st.obs.get('indexes') or []) if isinstance(st.obs, dict) else []
        ids = [exp['_id']] if isinstance(exp, dict) and '_id' in exp else []
        if isinstance(filt, dict) and '_id' in filt:
            fid = filt['_id']
            ids.append(fid['$eq'] if is_opdoc(fid) and set(fid) == {'$eq'} else fid)
        # (the store compares `_id`s with Python's ==, which identifies true / false with 1 / 0:
        # the boolnum finding of C01; such a pair counts as the same `_id` here)
        # (and it keys embedded `_id`s without regard to the order of their fields)
        same_id = any(refupdate.same_doc(d.get('_id'), x) or
                      (not isinstance(x, (dict, list)) and not isinstance(d.get('_id'), (dict, list))
                       and not isinstance(x, histcheck.Fresh) and d.get('_id') == x)
                      for d in prev for x in ids)
        if same_id or any(n != '_id_' for n in indexes):
            COUNTS['refused_upserts_not_judged:duplicate-key'] += 1
            return []
    COUNTS['refused_upserts_judged'] += 1
    label = refusal_class(k, spec, exp) or refused_on_stored(st.op, st.oids, err) or 'upsert-refused'
    return [(i, label, '%s(upsert=True) filter %r update %r: nothing matches and the '
             'equality conditions of the filter describe one document - seed + update give %r - '
             'yet the call raised %s and the collection went from %d to %d documents'
             % (k, filt, spec, exp, err, len(prev), len(docs)))]


def refusal_class(k, spec, exp):
    """the REPAIRED finding (known_findings.json, status fixed) a refusal falls in, by the shape
    of the call - none of these labels is excused any more, so a refusal of one of these shapes is
    reported under the name of the defect that has come back (and is not taken for
    `refused-on-stored-too`):
    `pop-missing-refused`: $pop names a path the document does not hold (a no-op by the operator's
    definition; the library used to raise KeyError);
    `fam-empty-replacement`: find_one_and_replace with the empty replacement document (the
    library used to ask for 'update or remove' by truth value);
    `pullall-through-scalar-refused`: $pullAll names a path that leads through a value that is
    neither a document nor an array (nothing to pull from: a no-op; the library used to raise
    TypeError) - repaired where that value holds the last component of the path; where it lies
    further up, the refusal is the KNOWN finding `pullall-deep-through-scalar-refused`"""
    if k == 'find_one_and_replace' and spec == {}:
        return 'fam-empty-replacement'
    body = spec.get('$pop') if isinstance(spec, dict) else None
    if isinstance(body, dict) and isinstance(exp, dict):
        import props.c02 as c02
        # (a component that is no index meeting an ARRAY is another matter: ValueError from
        # int(component), C02's nonnumeric-component family, left to `refused-on-stored-too`)
        if any(refupdate.get_at(exp, str(p).split('.'))[0] == 'missing' and
               not c02.skips_component(exp, str(p).split('.')) for p in body):
            return 'pop-missing-refused'
    body = spec.get('$pullAll') if isinstance(spec, dict) else None
    if isinstance(body, dict) and isinstance(exp, dict):
        for p in body:
            parts = str(p).split('.')
            for n in range(1, len(parts)):
                at = refupdate.get_at(exp, parts[:n])
                if at[0] == 'value' and not isinstance(at[1], (dict, list)):
                    # repaired (7f8876a) when the scalar holds the LAST component; a scalar
                    # further up the path is still walked into (_get_subdocument: TypeError),
                    # known finding `pullall-deep-through-scalar-refused`
                    return 'pullall-through-scalar-refused' if n == len(parts) - 1 else \
                        'pullall-deep-through-scalar-refused'
    return None


def refused_on_stored(op, oids, err=None):
    """`refused-on-stored-too`: the library refuses the same update or replacement (with whatever
    error: which one depends on the filter the positional machinery is handed) on a STORED copy of the document the filter's equalities describe (a twin: that
    document inserted into an empty collection, then the call without upsert, aimed at it by its
    `_id`): the refusal is the operator's (C02 states the operators on stored documents), the
    upsert only passes it on.  A refusal that stems from building the document - the seed, the
    choice of `_id`, `$setOnInsert` - does not show on the twin and stays a failure here"""
    try:
        seed = seed_of(op[1], implied_id=False)[0]
    except Exception:  # pylint: disable=broad-except
        return None
    if '_id' not in seed:
        seed = dict(seed, _id='twin')
    op = without_upsert(op)
    op[1] = {'_id': copy.deepcopy(seed['_id'])}
    try:
        t = histcheck.run_history([['insert_one', seed], op], oids)
    except Exception:  # pylint: disable=broad-except
        return None
    if len(t) == 2 and t[0].out[0] == 'val' and t[1].out[0] == 'err':
        return 'refused-on-stored-too'
    return None


BULK_UPS = ('UpdateOne', 'UpdateMany', 'ReplaceOne')


def conflicting_equalities(filt):
    """the filter itself states an equality (plainly or as {$eq: v}) at or below another one;
    the `_id` a new document would be given does not count"""
    if not isinstance(filt, dict):
        return False
    paths = [str(k).split('.') for k, v in filt.items()
             if not str(k).startswith('$') and (not is_opdoc(v) or set(v) == {'$eq'})]
    return any(m != n and p[:len(q)] == q
               for m, p in enumerate(paths) for n, q in enumerate(paths))


def is_upsert_request(q):
    return q[0] in BULK_UPS and bool(q[3])


def bulk_match_counts(history, i, op):
    """for every upserting request of the bulk `op` = history[i]: how many documents its filter
    finds at the moment the request is reached (the requests before it executed one by one on a
    twin, an ordered bulk stopping at the first refused one); None for the other requests, for
    those never reached and for filters find refuses"""
    pr = hist.PyRunner(getattr(sys.modules[__name__], 'server_version', '5.0.5'))
    counts = [None] * len(op[1])
    try:
        for o in history[:i]:
            pr.apply(o[1] if o and o[0] == 'noobs' else o)
        for j, q in enumerate(op[1]):
            if is_upsert_request(q):
                try:
                    counts[j] = len(list(pr.coll.find(copy.deepcopy(q[1]))))
                except Exception:  # pylint: disable=broad-except
                    counts[j] = None
            out, _ = pr.apply(['bulk_write', [copy.deepcopy(q)], True])
            if op[2] and isinstance(out, tuple) and out and out[0] == '!':
                break
    finally:
        pr.close()
    return counts


def judge_bulk(history, i, st):
    """a bulk whose upserting requests find a document when they are reached equals the bulk
    with upsert switched off on exactly those requests (outcome, counts, upserted list, errors,
    state)"""
    op = st.op
    counts = bulk_match_counts(history, i, op)
    fails = judge_bulk_refused(i, st, counts)
    hit = [j for j, n in enumerate(counts) if n]
    if not hit:
        return fails
    COUNTS['bulks_with_matched_upserts_compared_with_twin'] += 1
    if any(conflicting_equalities(op[1][j][1]) for j in hit):
        COUNTS['bulks_with_matched_upserts_with_conflicting_equalities'] += 1
    twin_op = copy.deepcopy(op)
    for j in hit:
        twin_op[1][j][3] = False
    t = histcheck.run_history(history[:i] + [twin_op], st.oids)[i]
    if renumber_state(state_of(t.obs)) != renumber_state(state_of(st.obs)) or \
            frozen_out(t.out) != frozen_out(st.out):
        fails.append((i, 'upsert-differs-when-matched', 'bulk_write %r: the requests %r (upsert=True) '
                      'find %r documents when they are reached; the bulk gave %r / %r, with upsert=False '
                      'on those requests it gives %r / %r'
                      % (op[1], hit, [counts[j] for j in hit], st.out, state_of(st.obs), t.out,
                         state_of(t.obs))))
    return fails


BULK_AS_CALL = {'UpdateOne': 'update_one', 'UpdateMany': 'update_many', 'ReplaceOne': 'replace_one'}


def judge_bulk_refused(i, st, counts):
    """an upserting request of a bulk that finds nothing when it is reached and whose new document
    the reference commits to must not be among the bulk's write errors (duplicate keys, code
    11000, and the known refusals of the same update on a stored document apart)"""
    fails = []
    if st.out[0] != 'err' or st.out[1] != 'BulkWriteError' or len(st.out) < 3 or \
            not isinstance(st.out[2], dict):
        return fails
    for we in st.out[2].get('writeErrors') or []:
        j = we.get('index') if isinstance(we, dict) else None
        if not isinstance(j, int) or j >= len(counts) or counts[j] != 0 or we.get('code') == 11000:
            continue
        q = st.op[1][j]
        k = BULK_AS_CALL[q[0]]
        filt = histcheck.canon_value(q[1], st.oids)
        spec = histcheck.canon_value(q[2], st.oids)
        try:
            exp = expected_new(filt, spec, k == 'replace_one')
        except Exception:  # pylint: disable=broad-except
            COUNTS['refused_bulk_upserts_the_reference_refuses_or_declines'] += 1
            continue
        COUNTS['refused_bulk_upserts_judged'] += 1
        label = refusal_class(k, spec, exp) or \
            refused_on_stored([k, q[1], q[2], True], st.oids) or 'upsert-refused'
        fails.append((i, label, 'bulk_write %r: request %d (%s, upsert=True) finds nothing when it '
                      'is reached and the equality conditions of its filter describe one document '
                      '- seed + update give %r - yet the bulk reports a write error for it: %r'
                      % (st.op[1], j, q[0], exp, st.out[2])))
    return fails


def judge(history, i, st, prev, docs, up, pre):
    fails = []
    k = st.op[0]
    out = st.out[1]
    before_ids = [freeze(d.get('_id')) for d in prev]
    new = [d for d in docs if freeze(d.get('_id')) not in before_ids]
    if not up:
        if len(docs) > len(prev):
            fails.append((i, 'insert-without-upsert', '%s without upsert grew the collection '
                          'from %d to %d documents' % (k, len(prev), len(docs))))
        if k in UPD and isinstance(out, dict) and out.get('upserted') is not None:
            fails.append((i, 'insert-without-upsert', '%s without upsert reports upserted_id %r'
                          % (k, out.get('upserted'))))
        return fails
    if pre['matches'] > 0:
        return judge_matched(history, i, st, prev, docs, pre)
    # nothing matched: exactly one new document, nothing else touched
    if len(docs) != len(prev) + 1 or len(new) != 1:
        fails.append((i, 'upsert-count', '%s(upsert=True) with no match took the collection from '
                      '%d to %d documents (%d with a new _id)' % (k, len(prev), len(docs), len(new))))
        return fails
    if [freeze(d) for d in docs[:len(prev)]] != [freeze(d) for d in prev]:
        fails.append((i, 'upsert-touched-existing', '%s(upsert=True) with no match changed existing '
                      'documents: %r -> %r' % (k, prev, docs[:len(prev)])))
    nd = new[0]
    if k in UPD and isinstance(out, dict):
        # (also for a null _id: upserted_id is then None, but nothing was matched either)
        if out.get('matched') != 0:
            fails.append((i, 'upsert-matched-count', '%s upserted but reports matched_count %r'
                          % (k, out.get('matched'))))
        if freeze(out.get('upserted')) != freeze(nd.get('_id')):
            fails.append((i, 'upserted-id', '%s reports upserted_id %r, the new document has _id %r'
                          % (k, out.get('upserted'), nd.get('_id'))))
    if k in FAM:
        after = bool(st.op[6])
        if not after and out is not None:
            fails.append((i, 'fam-upsert-return', '%s (BEFORE) upserted but returned %r' % (k, out)))
        if after and st.op[3] is None and freeze(out) != freeze(nd):
            fails.append((i, 'fam-upsert-return', '%s (AFTER) upserted %r but returned %r'
                          % (k, nd, out)))
    # the content of the new document
    filt = histcheck.canon_value(st.op[1], st.oids)
    spec = histcheck.canon_value(st.op[2], st.oids)
    replace = k in ('replace_one', 'find_one_and_replace')
    try:
        exp = expected_new(filt, spec, replace)
    except refupdate.Unknown:
        exp = None
    except Conflict as e:
        exp = None
        fails.append((i, 'upsert-conflict-accepted', '%s(upsert=True) filter %r: the equality '
                      'conditions %s lie one below the other, no document can be inferred, yet the '
                      'call inserted %r' % (k, filt, e, nd)))
    except Exception:  # pylint: disable=broad-except
        exp = None
    if k in UPD + ('find_one_and_update',) and isinstance(st.op[2], dict):
        unknown = refupdate.unknown_operators(st.op[2])
        clause = refupdate.addtoset_clause(st.op[2])
        if unknown and k != 'replace_one':
            fails.append((i, 'unknown-operator-accepted', '%s(upsert=True) %r inserted %r although '
                          '%r is no update operator' % (k, st.op[2], nd, unknown[0])))
        elif clause and k != 'replace_one':
            fails.append((i, 'addtoset-clause-accepted', '%s(upsert=True) %r inserted %r although '
                          '$addToSet.%s carries %r next to $each'
                          % (k, st.op[2], nd, clause[0], clause[1])))
    nullid = isinstance(filt, dict) and '_id' in filt and filt['_id'] is None
    if exp is not None:
        keep = isinstance(exp, dict) and '_id' in exp
        if not refupdate.same_doc(strip_id(exp, keep), strip_id(nd, keep)) and \
                not operator_quirk(spec, exp, nd):
            lab = 'upsert-content'
            if nullid and refupdate.same_doc(strip_id(exp, False), strip_id(nd, False)):
                lab = 'nullid'
            fails.append((i, lab, '%s(upsert=True) filter %r update %r inserted %r, '
                          'seed + update give %r' % (k, filt, spec, nd, exp)))
    # matched again by the same filter when it is made of equalities the update does not touch
    pr = (st.extra or {}).get('probe')
    if pr and 'error' not in pr and isinstance(filt, dict):
        try:
            seed, paths = seed_of(filt)
            # equality conditions only: plain values and {$eq: v}
            pure = all(not is_opdoc(v) or set(v) == {'$eq'} for v in filt.values()) and \
                not has_dollar(seed) and no_nulls_or_arrays(seed)
        except (refupdate.Unknown, Conflict):
            pure = False
        if pure:
            ups = update_paths(spec)
            if replace:
                touched = True       # a replacement overwrites everything but _id
            else:
                touched = any(p[:len(q)] == q or q[:len(p)] == p for p in paths for q in ups)
            if not touched and (len(docs) - 1) not in pr['found']:
                fails.append((i, 'nullid' if nullid else 'not-matched-after', '%s(upsert=True): the inserted document %r '
                              'is not found by the filter %r it was built from' % (k, nd, filt)))
    return fails


def operator_quirk(spec, exp, got):
    """the mismatch is one of C02's operator-level known findings (judged there, not here)"""
    import props.c02 as c02
    try:
        seed_like = exp if isinstance(exp, dict) else {}
        if c02.classify(spec, seed_like):
            return True
    except Exception:  # pylint: disable=broad-except
        return False
    return False


def no_nulls_or_arrays(v):
    if isinstance(v, dict):
        return all(no_nulls_or_arrays(x) for x in v.values())
    if isinstance(v, list):
        return False
    return True


def nontrivial(history, steps):
    prev = []
    for st in steps:
        docs = st.obs.get('docs') if isinstance(st.obs, dict) else None
        if not isinstance(docs, list):
            return False
        pre = (st.extra or {}).get('pre')
        if upsert_flag(st.op) and st.out[0] == 'val' and pre and pre.get('matches') == 0 and \
                len(docs) == len(prev) + 1 and isinstance(st.op[1], dict) and \
                any('.' in k or is_opdoc(v) for k, v in st.op[1].items()):
            return True
        prev = docs
    return False


_run, replay, replay_finding = histcheck.module_api(sys.modules[__name__], 900, 22000)


def fixed_witnesses(ctx, mod):
    """the witnesses of the repaired defects (known_findings.json, status "fixed") go through the
    oracle and the model correspondence on every run: a recurrence is a VIOLATION"""
    import wire

    class Strict(object):
        """the property module with no excused label: whatever the oracle finds on the witness of
        a repaired defect is a VIOLATION, the catch-all classes included"""
        known_labels = frozenset()

        def __getattr__(self, name):
            return getattr(mod, name)
    eng = histcheck.Engine(ctx, Strict())
    n = 0
    for e in common.load_known(ID):
        if e.get('status') != 'fixed' or not e.get('witness', {}).get('wire_history'):
            continue
        oids = wire.Oids()
        history = wire.dec(e['witness']['wire_history'], oids)
        py = histcheck.run_history(history, oids, '5.0.5', probe, pre_probe)
        out = wire.run_driver([hist.model_line(history, oids, False)])
        eng.judge(history, oids, py, histcheck.model_steps(history, out[0]))
        n += 1
    return n


def run(ctx, proof, driver_ok):
    if not driver_ok:
        return {'explanation': 'model driver unavailable'}
    n = fixed_witnesses(ctx, sys.modules[__name__])
    cov = _run(ctx, proof, driver_ok)
    cov['fixed_witnesses_replayed'] = n
    cov['twin_oracle'] = dict(COUNTS)
    return cov
