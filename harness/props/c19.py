"""C19 — a collection can be used from several threads without deadlock or corruption.

regenerate: the translators trace mongomock/thread.py and mongomock/store.py and rewrite
`lean/Generated/RWLockProtocol.lean`, `LockDiscipline.lean`; the explorer (mmdriver) enumerates the
protocol machine's states for the regenerated protocol and the certificates
`Generated/RWLockCert_2*.lean`, `RWLockCert_3*.lean` are rewritten; the proof step (check.py) then
has the Lean kernel check them together with the hand proofs.

run: (i) the witness schedule of every finding — known, or fixed in the library — is replayed on
the real code and the model (a fixed finding that comes back is a violation; the witness of
`concurrent-delete-keyerror`, two delete_one of one document, runs at the Collection level at
every preemption point: no exception, and the two calls report one removed document between
them); (ii) random
schedules of 2-4 threads run on the REAL CollectionStore/RWLock under the deterministic scheduler
(`sched.py`) and on the model (`c19replay`), outcomes compared (exceptions per call, final dicts, locks free, and which
`discard` calls answered that they removed a document); the property itself is also judged
directly on the real outcome — TTL index creation and index drops (of TTL names too) concurrent
with expiry passes are generated and judged like everything else; (iii) when the proof step is
broken the explorer searches the model of the regenerated code for a bad schedule, which is
replayed on the real code; (iv) direct probes on the real code: the lock is released however a
section is left (`release_probe`), the walks over the index dictionaries at the `Collection`
level survive concurrent index creation / drops (`c19_index_probe`), and every reader that ITERATES
the documents (the `documents` generator consumed directly or through find / count_documents /
distinct / aggregate / delete_many / update_many / the pre-check of create_index(unique), and the
collection of expired keys of a TTL pass) is run against every kind of writer (insert, delete,
upsert, TTL delete) at every preemption point (`c19_iter_probe`); (v) in (ii) and (iv) the store
is traced (`sched.trace_store`) and two clauses are judged on the log of what the real code did:
no other thread enters a write section while an iteration is under way, and what an iteration
hands out is the content of the collection at one instant.
"""
import collections
import json
import os
import random

import common
import c19_certs
import c19_index_probe
import c19_iter_probe
import sched
import wire

RULE = ('case = one scenario (initial ids in _documents / indexes / _ttl_indexes, which ids are '
        'expired, 2-4 threads each running 1-3 CollectionStore calls; in one scenario out of five '
        'a scan of a collection of three with a writing thread next to it) plus one schedule (list '
        'of thread numbers — uniform, in short bursts, or one thread some way and then the '
        'others —, control switching before lock operations and at documents handed out by '
        'the `documents` generator); run on the real code with real threads under sched.py and on '
        'the model; non-trivial = at least two threads were simultaneously between their first '
        'and their last lock operation; distinct = hash of (scenario, schedule actually used); '
        'plus the single-preemption schedules of the index and iteration probes (real code only)')

ASSUMPTIONS = [
    'granularity: the model switches threads between any two primitive actions (lock operation, '
    'counter update, dict access, iteration step); preemption between bytecodes INSIDE one such '
    'action (e.g. within `self._counter += 1`, or inside the list comprehension of '
    '_expire_documents) is not exhibited; the real-code scheduler switches only at lock operations '
    'and at yielded documents',
    'a `documents` generator that is abandoned (neither exhausted nor thrown into) releases the '
    'read lock only when garbage-collected; programs always exhaust or throw',
    'for the REGENERATED protocol, exclusion / no-leak / no failing release / deadlock-freedom are '
    'kernel-certified closed sets for N = 2 and 3 threads (any programs, any length); for N >= 4 '
    'they rest on the hand-proved invariant of the reference protocol (any N) tied to the code by '
    'the obligation `Generated.protocol = referenceProtocol`; kernel certificates for N >= 4 are not '
    'built (kernel evaluation costs about 25 ms per state; N = 4 has 135 k states); N = 4 is also '
    'sampled by the random schedules',
    'conformance of compiled code to the protocol (phase tags) is a decidable hypothesis of the '
    'theorems: proved by `decide` for every store method on its own (store_methods_conformant) and '
    'recomputed by the driver for every generated scenario (reported as `nonconformant`), not '
    'proved once for all call sequences',
    '`Collection._delete` is modelled at the store level as its two store calls — a scan '
    '(`documents`) and `discard(key)` — issued by one thread one after the other; that the key '
    'it discards was seen by the scan is not a fact of the model (the theorems hold for any key)',
    'all TTL indexes are on one field with one expiry (the body of the expiry loop does not depend '
    'on which index it is at)',
    '`list(d.values())` is ONE action: a single C call, during which CPython (with the GIL) runs no '
    'other thread; the translator accepts the idiom only when every `next()` on the dict iterator '
    'is driven by a CALL instruction of the frame (a `for` statement or a comprehension over the '
    'live dict is translated as the interruptible iteration, which the model lets fail); '
    'free-threaded builds of CPython are outside the model',
    'the walks over `indexes` at the Collection level (unique check of a write, index listings) '
    'are not in the Lean model: they are judged on the real code only, over all single-preemption '
    'schedules of six (walker, index operation) pairs and a lazily consumed listing',
    'the two clauses about a reader that iterates (no writer admitted meanwhile; what it hands out '
    'is the collection at one instant) are judged on the real code only, from the log of the '
    'traced store: in every random schedule, and over the single-preemption schedules of every '
    '(iterating entry point, writer) pair of c19_iter_probe (quick: the preemption points inside '
    'the reader\'s iterations and a subset of the pairs; thorough: every step, every pair); the '
    'expiry collection is observed through the calls of `_value_meets_expiry` (an implementation '
    'that does not call it once per document is not observed); in-place changes of a stored '
    'document by update operators take no write section at all and are outside these clauses '
    '(the property speaks of reads, inserts, deletes, TTL expiry and index creation)',
]

# classes of deviation listed in known_findings.json WITH STATUS known are counted, not reported
# (`concurrent-delete-keyerror` is a fixed record since a0040b0: an instance of it is a violation)
KNOWN_CLASSES = ('concurrent-delete-keyerror',)

EXTRA_TARGETS = []
REGEN = {}

METHODS_FROZEN = ['contains', 'getItem', 'setItem', 'delItem', 'discard', 'len', 'documents',
                  'isEmpty', 'expireDocuments', 'removeExpired']
METHODS_INDEX = ['createIndex', 'createIndexTtl', 'dropIndex']
BENIGN_KEYERROR = {'getItem', 'delItem', 'dropIndex'}


def regenerate(ctx):
    REGEN.clear()
    REGEN.update(c19_certs.regenerate())
    if REGEN.get('notes'):
        ctx.notes.extend('translator: ' + n for n in REGEN['notes'])


# ---------------------------------------------------------------------------------------------
# scenarios

def ids(xs):
    return ''.join(str(x) for x in xs)


def scenario_line(sc):
    parts = ['D' + ids(sc['docs0']), 'I' + ids(sc['idx0']), 'T' + ids(sc['ttl0']),
             'E' + ids(sc['expired'])]
    for prog in sc['progs']:
        parts.append('|')
        parts += ['%s.%d.%d' % c for c in prog]
    return ' '.join(parts)


def gen_scenario(rng, nthreads=None):
    n = nthreads or rng.choice([2, 2, 3, 3, 4])
    docs0 = rng.choice([[0, 1], [0, 1], [1, 0], [0], [1], [], [0, 1, 2], [2, 0, 1]])
    expired = rng.choice([[], [0], [1], [0, 1], [0, 1, 2]])
    ttl0 = rng.choice([[], [], [0], [0], [0, 1], [1]])
    idx0 = list(ttl0) + rng.choice([[], [2]])
    with_index_ops = rng.random() < 0.4
    progs = []
    for _ in range(n):
        prog = []
        for _ in range(rng.choice([1, 1, 2, 2, 3])):
            pool = METHODS_FROZEN + (METHODS_INDEX * 2 if with_index_ops else [])
            m = rng.choice(pool)
            key, thr = 0, 0
            if m in ('contains', 'getItem', 'setItem', 'delItem', 'discard'):
                key = rng.choice([0, 1, 2])
            elif m == 'documents':
                thr = rng.choice([0, 0, 1, 2])
            elif m == 'createIndex':
                key = 2
            elif m == 'createIndexTtl':
                key = rng.choice([0, 1])
            elif m == 'dropIndex':
                key = rng.choice([0, 1, 2])  # 0, 1: TTL names (when present)
            prog.append((m, key, thr))
        progs.append(prog)
    if rng.random() < 0.2:
        # an iteration over a collection of three with writers around: the first call of one
        # thread is a scan, the first call of another one a write
        docs0 = rng.choice([[0, 1, 2], [2, 0, 1], [1, 2, 0]])
        r = rng.randrange(n)
        w = rng.choice([t for t in range(n) if t != r])
        progs[r][0] = ('documents', 0, rng.choice([0, 0, 0, 3]))
        progs[w][0] = rng.choice([('delItem', rng.choice([0, 1, 2]), 0),
                                  ('discard', rng.choice([0, 1, 2]), 0),
                                  ('setItem', rng.choice([0, 1, 2]), 0),
                                  ('expireDocuments', 0, 0)])
    return {'docs0': docs0, 'idx0': idx0, 'ttl0': ttl0, 'expired': expired, 'progs': progs}


def gen_schedule(rng, n):
    style = rng.random()
    length = rng.choice([0, 10, 30, 60, 120])
    if style < 0.5:
        return [rng.randrange(n) for _ in range(length)]
    if style >= 0.8:
        # one thread gets some way (often into the middle of an iteration), then the others run
        # as far as they can, one after the other
        first = rng.randrange(n)
        out = [first] * rng.randrange(0, 50)
        for t in rng.sample(range(n), n):
            if t != first:
                out += [t] * 60
        return out
    out = []                                   # bursts: a few steps of one thread at a time
    while len(out) < length:
        out += [rng.randrange(n)] * rng.choice([1, 2, 3, 5, 8, 13])
    return out


def mutates_ttl(sc):
    return any(c[0] in ('createIndexTtl', 'dropIndex') for p in sc['progs'] for c in p)


WRITERS = ('setItem', 'delItem', 'discard', 'expireDocuments', 'removeExpired')
WALKERS = ('contains', 'getItem', 'len', 'documents', 'isEmpty', 'removeExpired', 'dropIndex')


def ttl_contended(sc):
    """one thread changes `_ttl_indexes` while ANOTHER one walks it (every guarded read starts
    with an expiry pass over the TTL indexes)"""
    progs = sc['progs']
    for i, p in enumerate(progs):
        if any(c[0] in ('createIndexTtl', 'dropIndex') for c in p):
            for j, q in enumerate(progs):
                if j != i and any(c[0] in WALKERS for c in q):
                    return True
    return False


# ---------------------------------------------------------------------------------------------
# outcomes

def parse_model(line):
    f = [x.split() for x in line.split('|')]
    if len(f) < 7:
        raise RuntimeError('model answered: ' + line)
    evs = []
    for tok in f[1]:
        t, c, e = tok.split('.')
        evs.append((int(t), int(c), e))
    d = {x[0]: [int(ch) for ch in x[1:]] for x in f[2]}
    return {'status': f[0][0], 'events': sorted(evs), 'docs': d['D'], 'idx': d['I'],
            'ttl': d['T'], 'overlap': f[3] == ['1'], 'faults': f[4],
            'free': f[5][0] == 'free', 'excl': f[5][1] == 'excl', 'micro': [int(x) for x in f[6]],
            'removed': sorted([int(y) for y in x.split('.')] for x in (f[7] if len(f) > 7 else []))}


def comparable(o):
    return {'status': o['status'], 'events': [list(e) for e in o['events']],
            'docs': o['docs'], 'idx': o['idx'], 'ttl': o['ttl'],
            'removed': sorted(o.get('removed', [])),    # the discards that answered True
            'free': o['free'] if o['status'] == 'completed' else None, 'excl': o['excl']}


def defects(sc, o):
    """what in a REAL outcome contradicts the property; list of (kind, detail)"""
    out = []
    if o['status'] != 'completed':
        out.append(('deadlock', o.get('blocked')))
    if o['excl']:
        out.append(('exclusion', None))
    if o['status'] == 'completed' and not o['free']:
        out.append(('lock-leaked', None))
    for (t, ci, name) in o['events']:
        m = sc['progs'][t][ci][0]
        if name == 'Thrown' and m == 'documents':
            continue
        if name == 'KeyError' and m in BENIGN_KEYERROR:
            continue
        out.append(('internal-error', '%s in thread %d call %d (%s)' % (name, t, ci, m)))
    for t, ci, r in o.get('odd_answers', ()):
        out.append(('discard-answer', 'discard in thread %d call %d answered %s, not whether it '
                                      'removed a document' % (t, ci, r)))
    # a reader that iterates (`documents`, the expiry collection): judged on the log of the run
    for v in o.get('iter', ()):
        out.append(('writer-admitted-during-iteration' if v['clause'] == 'a'
                    else 'iteration-not-a-snapshot', v['what']))
    return out


def run_real(sc, schedule):
    return sched.replay(sc, schedule)


def run_model(cases):
    lines = ['c19replay gen %s ; %s' % (scenario_line(sc), ' '.join(map(str, s)))
             for sc, s in cases]
    return [parse_model(x) for x in wire.run_driver(lines)]


def snippet(sc, schedule):
    return ('import sys; sys.path.insert(0, "harness"); import sched\n'
            'print(sched.replay(%r, %r))' % (sc, schedule))


# ---------------------------------------------------------------------------------------------
# search for a failing schedule in the model of the regenerated code (proof step broken)

SEARCH_SCENARIOS = [
    {'docs0': [0, 1], 'idx0': [], 'ttl0': [], 'expired': [], 'progs': p} for p in [
        [[('getItem', 0, 0)], [('setItem', 2, 0)]],
        [[('setItem', 2, 0)], [('delItem', 0, 0)]],
        [[('getItem', 0, 0)], [('getItem', 1, 0)]],
        [[('getItem', 2, 0), ('getItem', 0, 0)], [('setItem', 2, 0)]],
        [[('delItem', 2, 0), ('setItem', 2, 0)], [('getItem', 0, 0)]],
        [[('documents', 0, 1), ('len', 0, 0)], [('setItem', 2, 0)]],
        [[('documents', 0, 0)], [('setItem', 2, 0)], [('getItem', 0, 0)]],
        [[('getItem', 0, 0)], [('getItem', 1, 0)], [('setItem', 2, 0)]],
        [[('setItem', 2, 0)], [('delItem', 0, 0)], [('len', 0, 0)]],
        [[('documents', 0, 0)], [('len', 0, 0), ('setItem', 2, 0)]],
        [[('documents', 0, 0)], [('contains', 0, 0), ('delItem', 0, 0)]],
        [[('documents', 0, 0), ('discard', 1, 0)], [('documents', 0, 0), ('discard', 1, 0)]],
        [[('discard', 0, 0)], [('discard', 0, 0)], [('expireDocuments', 0, 0)]],
        [[('expireDocuments', 0, 0)], [('len', 0, 0), ('setItem', 2, 0)]],
    ]] + [
    {'docs0': [0, 1], 'idx0': [], 'ttl0': [], 'expired': [0, 1],
     'progs': [[('expireDocuments', 0, 0)], [('expireDocuments', 0, 0)]]},
    {'docs0': [0, 1], 'idx0': [0], 'ttl0': [0], 'expired': [0],
     'progs': [[('contains', 1, 0)], [('setItem', 2, 0)], [('len', 0, 0)]]},
    # `_ttl_indexes` walked by one thread and changed by another (finding ttl-index-race, fixed)
    {'docs0': [0, 1], 'idx0': [0], 'ttl0': [0], 'expired': [0],
     'progs': [[('contains', 1, 0)], [('createIndexTtl', 1, 0)]]},
    {'docs0': [0, 1], 'idx0': [0, 1], 'ttl0': [0, 1], 'expired': [0],
     'progs': [[('len', 0, 0)], [('dropIndex', 1, 0)]]},
    {'docs0': [0], 'idx0': [0, 1], 'ttl0': [0, 1], 'expired': [],
     'progs': [[('dropIndex', 0, 0)], [('dropIndex', 1, 0)], [('createIndexTtl', 0, 0)]]},
]


def explore(sc, gran, allowed='-', limit=300000):
    out = wire.run_driver(['c19explore gen %s %d %s %s' % (gran, limit, allowed,
                                                          scenario_line(sc))])[0].split()
    if out[0] == 'bad':
        return out[1], [int(x) for x in out[out.index(';') + 1:]]
    return None, out


def search_bad(ctx, cov):
    """BFS of the regenerated model for a bad / deadlocked state; replay on the real code"""
    found = 0
    cov['search'] = []
    for sc in SEARCH_SCENARIOS:
        kind, schedule = explore(sc, 'macro')
        entry = {'scenario': scenario_line(sc), 'model_bad': kind}
        if kind is None:
            mk, ms = explore(sc, 'micro')
            if mk is not None:
                entry['model_bad_micro_only'] = mk
                entry['micro_schedule'] = ms
            cov['search'].append(entry)
            continue
        real = run_real(sc, schedule)
        ds = defects(sc, real)
        entry['real'] = [d[0] for d in ds]
        cov['search'].append(entry)
        if ds:
            found += 1
            ctx.violation({'kind': 'schedule found by the explorer in the model regenerated from '
                                   'the code, confirmed on the real code',
                           'scenario': sc, 'scenario_line': scenario_line(sc),
                           'schedule': schedule, 'model_bad_state': kind,
                           'real_outcome': comparable(real), 'real_defects': ds,
                           'blocked': real.get('blocked'),
                           'python': snippet(sc, schedule)}, rank=len(schedule))
            if found >= 3:
                break
    return found


# ---------------------------------------------------------------------------------------------


# ---------------------------------------------------------------------------------------------
# direct probe of "the lock is released when the guarded operation raises", on the real RWLock
# and on the real CollectionStore (an abandoned `documents` scan is closed with GeneratorExit)

class _Hard(BaseException):
    pass


def _free(rw):
    """no section is held: a writer gets in at once (tried from another thread, bounded wait)"""
    import threading
    got = []

    def w():
        with rw.writer():
            got.append(1)
    t = threading.Thread(target=w, daemon=True)
    t.start()
    t.join(2.0)
    return bool(got)


def release_probe():
    """[(description, python snippet)] for every way of leaving a section after which the lock
    is still held"""
    import mongomock.thread as mthread
    import mongomock.store as mstore
    bad = []
    for kind in ('reader', 'writer'):
        for exc in (KeyError, ValueError, _Hard, GeneratorExit, KeyboardInterrupt):
            rw = mthread.RWLock()
            try:
                with getattr(rw, kind)():
                    raise exc()
            except BaseException:  # pylint: disable=broad-except
                pass
            if not _free(rw):
                bad.append(('%s section left by %s: the lock stays held, the next writer blocks'
                            % (kind, exc.__name__),
                            'import mongomock.thread as t\nrw = t.RWLock()\ntry:\n'
                            '    with rw.%s():\n        raise %s()\nexcept BaseException:\n'
                            '    pass\n# now `with rw.writer(): pass` in another thread never returns'
                            % (kind, exc.__name__ if exc is not _Hard else 'BaseException')))
    # a scan of the store abandoned half-way (the consumer stops: generator closed)
    st = mstore.CollectionStore('c')
    st[1] = {'_id': 1}
    st[2] = {'_id': 2}
    g = st.documents
    next(g)
    g.close()
    if not _free(st._rwlock):
        bad.append(('a `documents` scan abandoned after the first document (generator closed): '
                    'the read lock stays held, the next write blocks',
                    'import mongomock.store as s\nst = s.CollectionStore("c"); st[1] = {"_id": 1}; '
                    'st[2] = {"_id": 2}\ng = st.documents; next(g); g.close()\n'
                    '# now st[3] = {} in another thread never returns'))
    return bad


def run(ctx, proof, driver_ok):
    have_driver = os.path.exists(wire.DRIVER) and REGEN.get('driver_built', True)
    cov = {'rule': RULE, 'evaluations': 0, 'distinct_nontrivial': 0,
           'regenerated': {k: REGEN.get(k) for k in ('changed', 'notes', 'certs')}}
    if not have_driver:
        ctx.notes.append('model driver unavailable: real-code runs are judged without the model')
    rng = random.Random(ctx.seed * 7919 + 19)
    n = ctx.n(200, 5000)
    if not proof.get('ok') and have_driver:
        search_bad(ctx, cov)
    held = release_probe()
    cov['release_probe'] = {'ways_of_leaving_a_section': 11, 'lock_still_held_after': len(held)}
    for what, snip in held:
        ctx.violation({'kind': 'property fails on the real code: lock not released when the '
                               'guarded operation raises', 'what': what, 'python': snip}, rank=0)
    # the index dictionaries at the Collection level, all single-preemption schedules
    runs, broken = c19_index_probe.sweep_pairs()
    lazy = c19_index_probe.lazy_listing()
    cov['index_probe'] = {'pairs': len(c19_index_probe.PAIRS), 'schedules_run': runs,
                          'failing_pairs': len(broken), 'lazy_listing_failures': len(lazy)}
    cov['evaluations'] += runs
    for name, detail in broken:
        rep = {'kind': 'property fails on the real code: an operation that walks the index '
                       'dictionaries of the collection is broken by a concurrent index operation',
               'what': name}
        rep.update(detail)
        ctx.violation(rep, rank=1)
    for what, snip in lazy:
        ctx.violation({'kind': 'property fails on the real code: a reader of the index listing '
                               'does not see it as at one instant', 'what': what,
                       'python': snip}, rank=2)
    # every iterating reader against every kind of writer, all single-preemption schedules
    known = {e['id'] for e in common.load_known('C19') if e.get('status') == 'known'}
    icov, ibad, iknown = c19_iter_probe.sweep(ctx.tier, known & set(KNOWN_CLASSES))
    cov['iteration_probe'] = icov
    cov['evaluations'] += icov['schedules_run']
    for cls, cnt in iknown.items():
        ctx.known_seen[cls] = ctx.known_seen.get(cls, 0) + cnt
    for i, rep in enumerate(ibad):
        clauses = {p['clause'] for p in rep['problems']}
        rep['kind'] = ('property fails on the real code: ' + (
            'a writer is admitted while a reader is iterating the collection / the reader does '
            'not see the collection as it was at one instant' if clauses & {'a', 'b'} else
            'a reader that iterates and a concurrent writer do not both run to completion '
            'without error'))
        # the first report of every reader before the second of any
        earlier = len([1 for r in ibad[:i] if r['iter_probe']['reader'] ==
                       rep['iter_probe']['reader']])
        ctx.violation(rep, rank=3 + 1000 * earlier + i)
    cases = []
    # the witnesses of the findings repaired in the library go through the same correspondence
    fixed = [e for e in common.load_known('C19') if e.get('status') == 'fixed']
    # ... those witnessed by a pair of collection-level operations are re-run as such: a finding
    # repaired in the library that comes back is a violation
    for e in [e for e in fixed if 'iter_probe_witness' in e['witness']]:
        k, res = c19_iter_probe.delete_delete_witness(any_problem=True)
        cov.setdefault('fixed_finding_pair_witnesses_replayed', []).append(e['id'])
        if k is not None:
            rep = c19_iter_probe.describe('plain', c19_iter_probe.DELETE_ONE_2,
                                          c19_iter_probe.DELETE_ONE_2, k, res)
            back = any(p.get('class') == e['id'] or p['clause'] == 'a delete counts what it removes'
                       for p in res['problems'])
            rep['kind'] = ('property fails on the real code: a finding repaired in the library '
                           'is back (%s)' % e['what'] if back else
                           'property fails on the real code: two concurrent delete_one of one '
                           'document (the witness of the repaired finding %s) do not both run '
                           'to completion as they should' % e['id'])
            rep['witness_of_fixed_finding'] = e['id']
            rep['iter_probe']['witness'] = 'delete_delete'
            ctx.violation(rep, rank=2 if back else 2000)
    fixed = [e for e in fixed if 'iter_probe_witness' not in e['witness']]
    for e in fixed:
        cases.append(load_case(e['witness']))
    nfixed = len(cases)
    for _ in range(n):
        sc = gen_scenario(rng)
        cases.append((sc, gen_schedule(rng, len(sc['progs']))))
    reals = [run_real(sc, s) for sc, s in cases]
    models = run_model(cases) if have_driver else [None] * len(cases)
    conf = {}
    if have_driver:
        lines = sorted({scenario_line(sc) for sc, _ in cases})
        for l, o in zip(lines, wire.run_driver(['c19conf gen ' + l for l in lines])):
            conf[l] = o.split()
    hist = collections.Counter()
    zones = collections.Counter()
    status = collections.Counter()
    excs = collections.Counter()
    threads = collections.Counter()
    ttlz = collections.Counter()
    seen, nontrivial = set(), set()
    stale, nonconf = 0, 0
    iterz = collections.Counter()
    samples = []
    for ci, ((sc, schedule), real, model) in enumerate(zip(cases, reals, models)):
        cov['evaluations'] += 1
        zones['D'] += 1
        if mutates_ttl(sc):
            ttlz['programs that create a TTL index / drop an index'] += 1
        if ttl_contended(sc):
            ttlz['... while another thread walks _ttl_indexes'] += 1
        threads[len(sc['progs'])] += 1
        status[real['status']] += 1
        for p in sc['progs']:
            for c in p:
                hist[c[0]] += 1
        for e in real['events']:
            excs[e[2]] += 1
        h = common.case_hash([scenario_line(sc), real['used']])
        seen.add(h)
        if real['overlap']:
            nontrivial.add(h)
        ds = defects(sc, real)
        iterz['iterations judged (documents generator, expiry collection)'] += real.get(
            'iterations', 0)
        if real.get('iterations') and any(c[0] in WRITERS for p in sc['progs'] for c in p):
            iterz['schedules with an iteration and a writing thread'] += 1
        agree = model is None or comparable(real) == comparable(model)
        c = conf.get(scenario_line(sc))
        if c is not None and c[:2] != ['1', '1']:
            nonconf += 1
        rep = {'scenario': sc, 'scenario_line': scenario_line(sc), 'schedule': schedule,
               'real_outcome': comparable(real), 'real_defects': ds,
               'model_outcome': comparable(model) if model else None,
               'python': snippet(sc, schedule)}
        if ds:
            rep['threads'] = {'thread %d' % t: ['%s(key=%d%s)' % (m, k, ', consumer throws at '
                                                                  'document %d' % thr if thr else '')
                                               for m, k, thr in p]
                              for t, p in enumerate(sc['progs'])}
            rep['what_happened'] = real.get('story')
        if ci < nfixed:
            rep['witness_of_fixed_finding'] = fixed[ci]['id']
        if agree and not ds:
            if len(samples) < 4 and real['overlap']:
                samples.append({'scenario': scenario_line(sc), 'schedule_used': real['used'][:40],
                                'outcome': comparable(real)})
            continue
        if agree and ds:
            rep['kind'] = 'the real code misbehaves under this schedule (model agrees)'
            ctx.violation(rep, rank=len(schedule) + 10 * len(sc['progs']))
        elif not ds:
            stale += 1
            if stale <= 5:
                ctx.notes.append('model stale (real outcome is clean, model differs): %s ; %s'
                                 % (scenario_line(sc), schedule))
        else:
            rep['kind'] = 'real code and model disagree, and the real outcome violates the property'
            ctx.violation(rep, rank=len(schedule) + 10 * len(sc['progs']))
        if ctx.too_many():
            break
    if nonconf:
        ctx.violation({'kind': 'code compiled from the regenerated discipline is not conformant / '
                               'disciplined: the theorems do not apply to %d generated '
                               'scenarios' % nonconf}, no_input=True)
    cov.update({'distinct': len(seen), 'distinct_nontrivial': len(nontrivial),
                'zones': dict(zones), 'ttl_index_programs': dict(ttlz),
                'iterating_readers_in_random_schedules': dict(iterz),
                'fixed_finding_witnesses_replayed': nfixed,
                'threads': dict(threads), 'status': dict(status),
                'methods': dict(hist), 'exceptions': dict(excs), 'model_stale': stale,
                'nonconformant_scenarios': nonconf, 'samples': samples,
                'model_compared': bool(have_driver)})
    return cov


def load_case(obj):
    sc = obj['scenario']
    sc = dict(sc)
    sc['progs'] = [[tuple(c) for c in p] for p in sc['progs']]
    return sc, list(obj.get('schedule', []))


def replay(ctx, path):
    obj = json.load(open(path))
    if 'iter_probe' in obj:
        ip = obj['iter_probe']
        if ip.get('witness') == 'delete_delete':
            res = c19_iter_probe.delete_delete_witness(ip['k'])[1] or c19_iter_probe.run_pair(
                'plain', c19_iter_probe.DELETE_ONE_2, c19_iter_probe.DELETE_ONE_2, ip['k'], True)
        else:
            res = c19_iter_probe.rerun(ip['setup'], ip['reader'], ip['writer'], ip['k'])
        print('setup   :', obj.get('setup'))
        print('thread 0:', obj.get('reader (thread 0)'))
        print('thread 1:', obj.get('writer (thread 1)'))
        print('schedule:', obj.get('schedule'))
        print('\n'.join(res['story']))
        print('observed:', res['status'], res['exceptions'], 'final _ids', res['final_ids'])
        known = {e['id'] for e in common.load_known('C19') if e.get('status') == 'known'}
        bad = [p for p in res['problems'] if p.get('class') not in known]
        for p in res['problems']:
            print('%s: [%s] %s' % ('known finding' if p not in bad else 'VIOLATED',
                                   p['clause'], p['what']))
        print('FAILS' if bad else 'passes')
        return 1 if bad else 0
    if 'scenario' not in obj:
        print('replay file names no input: %s' % obj.get('kind'))
        print(json.dumps({k: obj[k] for k in obj if k != 'log_tail'}, indent=1)[:3000])
        return 1
    sc, schedule = load_case(obj)
    real = sched.replay(sc, schedule, with_story=True)
    ds = defects(sc, real)
    print('scenario:', scenario_line(sc))
    print('schedule:', schedule)
    print('real    :', json.dumps(comparable(real)), 'blocked=%r' % (real.get('blocked'),))
    if real.get('story'):
        print('\n'.join(real['story']))
    print('defects :', ds)
    fail = bool(ds)
    if os.path.exists(wire.DRIVER):
        model = run_model([(sc, schedule)])[0]
        print('model   :', json.dumps(comparable(model)), 'faults=%r' % (model['faults'],))
        if comparable(model) != comparable(real):
            print('real code and model DISAGREE')
            fail = True
    print('FAILS' if fail else 'passes')
    return 1 if fail else 0


def replay_finding(ctx, entry):
    w = entry['witness']
    if 'iter_probe_witness' in w:
        k, res = c19_iter_probe.delete_delete_witness(w.get('k'))
        if k is None:
            k, res = c19_iter_probe.delete_delete_witness()
        return k is not None
    sc, schedule = load_case(w)
    real = run_real(sc, schedule)
    ds = defects(sc, real)
    return any(d[0] == 'internal-error' and 'RuntimeError' in d[1] for d in ds)
