"""C04 — aggregation expressions evaluate to the value MongoDB defines.

Correspondence: for a generated expression `e` and 2-3 stored documents, the computed field of
`aggregate([{$project: {r: e}}])`, of `aggregate([{$addFields: {r: e}}])` and the result set of
`find({$expr: e})` on /repo against the Lean model (`Expr.projectField`, `Expr.addFieldsField`,
`Expr.exprFilter`) and, where it has an answer, against the oracle `Spec.specEval` /
`Spec.specFilter`, with the domain reasons computed by the Lean definition `Spec.exprReasons`
that the theorem `eval_eq_spec_partial` is about.
"""
import collections
import copy
import json
import random
import warnings

import mongomock
from mongomock.filtering import filter_applies
from sentinels import NOTHING

import common
import gen_expr
import wire

RULE = ('case = one generated expression (type-directed grammar, depth <= 5, seeded) over 2-3 '
        'stored documents that are variants of one another (fields present / null / missing); '
        'evaluated through aggregate([{$project:{r:e}}]), aggregate([{$addFields:{r:e}}]) and '
        'find({$expr:e}) on /repo and through the Lean model; non-trivial = the computed value '
        'differs between two documents of the case and no document raises; distinct = by hash of '
        'the wire encoding of (expression, documents); one generated case in five comes from the '
        'wide-number stream (half of its numbers are int64 values of 31 to 63 bits, boundary values '
        'around 2**31, 2**53 and 2**63 included); every run also evaluates the boundary-operand grid '
        '(each numeric operator on each pair of two fixed lists of boundary operands; '
        '$dateFromParts, alone and under every date-part operator, on a fixed table of stored parts: '
        'ends of the calendar ranges, month ends, parts just outside, null / missing / ill-typed parts)')

ASSUMPTIONS = [
    'outside F (model answers "unmodelled"): float results that are not exact dyadic doubles '
    '($divide by 3, $sqrt of a non-square, $exp/$ln/$log/$log10 except at 0/1, $pow with negative '
    'or fractional exponent), -0.0, str() of floats with more than 15 significant digits, of '
    'containers, dates and ObjectIds, non-ASCII case mapping / substr / split, aware datetimes and '
    'the timezone form of the date operators, $dateToString, $dateFromParts with a float '
    'millisecond that is no whole number of microseconds, '
    '$regexMatch, operator arguments that Python iterates as strings or dicts, $let/$map names '
    'that are not strings, $project with a bare 0/1/true/false value (inclusion flag), an int '
    'beyond 2**53 that float() would round next to a float operand ($add / $subtract / $divide / '
    '$mod / $avg convert it first; two ints stay exact and are compared), a computed date outside '
    'datetime.min..datetime.max (the code raises OverflowError where the server has a date)',
    'MONGODB server version > 4.4 (mongomock.SERVER_VERSION default 5.0.5): $ifNull accepts '
    'several inputs',
    'an expression on which /repo raises NotImplementedError (and the model predicts exactly '
    'that) is outside "the supported operators": it is not compared with the oracle',
    'error classes are compared between /repo and the model (mapped by wire.err_name; '
    'AssertionError, ZeroDivisionError, UnboundLocalError = "Error"); against the oracle only '
    '"raised / did not raise"',
]

CONTEXTS = ('project', 'addFields', 'find')


def show(v, oids):
    """one outcome as the driver prints it"""
    if isinstance(v, Exception):
        return '!' + wire.err_name(v)
    return wire.encs(v, oids)


def py_project(coll, stage, e, ids):
    """computed field r per document (NOTHING = omitted) or an exception per document"""
    try:
        with warnings.catch_warnings():
            warnings.simplefilter('ignore')
            out = list(coll.aggregate([{stage: {'r': copy.deepcopy(e)}}]))
        if len(out) == len(ids):
            return [o.get('r', NOTHING) for o in out]
    except Exception:  # pylint: disable=broad-except
        pass
    res = []
    for i in ids:
        try:
            with warnings.catch_warnings():
                warnings.simplefilter('ignore')
                out = list(coll.aggregate([{'$match': {'_id': i}},
                                           {stage: {'r': copy.deepcopy(e)}}]))
            res.append(out[0].get('r', NOTHING))
        except Exception as ex:  # pylint: disable=broad-except
            res.append(ex)
    return res


def py_find(coll, e, stored):
    """(per-document outcome of the matcher: True/False/exception, outcome of find over the
    whole collection: list of _ids or exception)"""
    per = []
    for d in stored:
        try:
            with warnings.catch_warnings():
                warnings.simplefilter('ignore')
                per.append(bool(filter_applies({'$expr': copy.deepcopy(e)}, d)))
        except Exception as ex:  # pylint: disable=broad-except
            per.append(ex)
    try:
        with warnings.catch_warnings():
            warnings.simplefilter('ignore')
            whole = [d['_id'] for d in coll.find({'$expr': copy.deepcopy(e)})]
    except Exception as ex:  # pylint: disable=broad-except
        whole = ex
    return per, whole


def find_consistent(per, whole, ids):
    """find({$expr: e}) must select exactly the documents the matcher accepts and raise what the
    matcher raises first; an IndexError is swallowed by Cursor.__next__ (collection.py:1929-1935),
    which ends the iteration: find then returns nothing"""
    first = next((p for p in per if isinstance(p, Exception)), None)
    if first is None:
        return isinstance(whole, list) and whole == [i for i, p in zip(ids, per) if p]
    if isinstance(first, IndexError):
        return whole == []
    return isinstance(whole, Exception) and wire.err_name(whole) == wire.err_name(first)


def py_eval(case):
    coll = mongomock.MongoClient().db.c
    for d in case['docs']:
        coll.insert_one(copy.deepcopy(d))
    stored = list(coll.find({}))
    ids = [d['_id'] for d in stored]
    e = case['expr']
    res = {'project': py_project(coll, '$project', e, ids),
           'addFields': py_project(coll, '$addFields', e, ids)}
    res['find'], res['find_whole'] = py_find(coll, e, stored)
    res['find_ok'] = find_consistent(res['find'], res['find_whole'], ids)
    return res, stored


def gen_case(rng, anomaly=0.02, wide=0.0):
    g = gen_expr.ExprGen(rng, anomaly=anomaly, wide=wide)
    docs = g.docs(rng.choice([2, 2, 3]))
    if wide:
        # the wide-number stream: mostly arithmetic and comparisons, not too deep, so that the
        # int64 values reach the operators instead of being lost in a branch that is not taken
        e, t = g.top(kind=rng.choice(['num', 'num', 'num', 'num', 'bool', 'bool', 'arr', None, None]),
                     depths=(1, 2, 2, 3, 3, 4))
    else:
        e, t = g.top()
    return {'expr': e, 'type': t, 'docs': docs, 'oids': wire.Oids(), 'ops': g.ops}


def render(case, i=None, ctx_name=None):
    r = {'expr': wire.pretty(case['expr']),
         'docs': [wire.pretty(d) for d in case['docs']],
         'wire_expr': wire.encs(case['expr'], case['oids']),
         'wire_docs': [wire.encs(d, case['oids']) for d in case['docs']]}
    if i is not None:
        r['doc_index'] = i
    if ctx_name is not None:
        r['context'] = ctx_name
    return r


SCOPE_LABELS = ('specraises', 'specunmodelled', 'deepcmp', 'dupkeys')


def norm(x):
    """outcome at the granularity the oracle is compared at: raised / value"""
    if x.startswith('!?'):
        return '?'
    if x.startswith('!'):
        return 'E'
    return x


def case_lines(case, stored):
    es = wire.encs(case['expr'], case['oids'])
    return ['c04 %s %s' % (es, wire.encs(d, case['oids'])) for d in stored]


def parse_out(o):
    parts = [x.strip() for x in o.split('|')]
    proj, addf, find, sval, sfil, reasons, freasons = parts
    return {'project': proj, 'addFields': addf, 'find': find, 'spec_value': sval,
            'spec_filter': sfil, 'reasons': reasons.split(), 'filter_reasons': freasons.split()}


def py_strings(case, res, i):
    """the three python outcomes of document i in driver notation (None = not encodable)"""
    out = {}
    for name in CONTEXTS:
        py = res[name][i]
        try:
            if name == 'find' and not isinstance(py, Exception):
                out[name] = 'T' if py else 'F'
            else:
                out[name] = show(py, case['oids'])
        except wire.Unencodable:
            out[name] = None
    return out


class Judge(object):
    def __init__(self, ctx):
        self.ctx = ctx
        self.known = {e['id'] for e in common.load_known('C04') if e.get('status') == 'known'}
        self.zone = collections.Counter()
        self.reasons = collections.Counter()
        self.findings = collections.Counter()
        self.errors = collections.Counter()
        self.outcomes = collections.Counter()
        self.internal = []

    def pair(self, case, i, name, py, impl, spec, reasons):
        ctx = self.ctx
        if py is None:
            self.zone['unencodable'] += 1
            return
        if py.startswith('!'):
            self.errors[py[1:]] += 1
        if impl.startswith('!?'):
            self.zone['unmodelled'] += 1
            return
        zone = 'D' if not reasons else 'F-minus-D'
        self.zone[zone] += 1
        for r in reasons:
            self.reasons[r] += 1
        self.outcomes['raised' if py.startswith('!') else 'value'] += 1
        p, s = norm(py), norm(spec)
        if py == impl:
            if py == '!NotImplementedError':
                # the code says "valid but not supported": outside "the supported operators"
                self.zone['not-implemented (agrees with the model)'] += 1
                return
            if s == '?' or s == p:
                return
            if not reasons:
                self.internal.append(render(case, i, name))
                return
            labels = [r for r in reasons if r in self.known]
            for r in reasons:
                self.findings[r] += 1
            if not labels:
                ctx.violation(dict(render(case, i, name), kind='deviation from the rules in an '
                                   'unlisted class', py=py, impl=impl, spec=spec, reasons=reasons))
            else:
                for r in labels:
                    ctx.known_seen[r] = ctx.known_seen.get(r, 0) + 1
            return
        # python and the model disagree
        if s != '?' and s == p:
            ctx.notes.append('model stale but python follows the rules: ' + json.dumps(
                render(case, i, name), default=repr)[:300])
            return
        if s != '?':
            ctx.violation(dict(render(case, i, name), kind='expression value disagrees with the '
                               'rules (and with the model of the code)', py=py, impl=impl,
                               spec=spec, reasons=reasons, zone=zone),
                          rank=(0 if zone == 'D' else 10000) + len(repr(case['expr'])) +
                          len(repr(case['docs'][i])))
        else:
            ctx.violation(dict(render(case, i, name), kind='correspondence broken: python differs '
                               'from the model MongoModel.Expr on this input; the oracle has no '
                               'answer here', what_no_longer_checks='correspondence '
                               'mongomock.aggregate._Parser ~ MongoModel.Expr.eval',
                               py=py, impl=impl, spec=spec, reasons=reasons), no_input=True)


def run_cases(ctx, cases, judge):
    """evaluate on /repo and on the model; returns per case the python project outcomes"""
    lines = []
    kept = []
    for c in cases:
        try:
            ls = None
            res, stored = py_eval(c)
            ls = case_lines(c, stored)
        except wire.Unencodable:
            continue
        c['res'], c['stored'] = res, stored
        c['span'] = (len(lines), len(lines) + len(ls))
        lines.extend(ls)
        kept.append(c)
    out = wire.run_driver(lines)
    for c in kept:
        a, b = c['span']
        res = c['res']
        c['py'] = []
        if not res['find_ok']:
            ctx.violation(dict(render(c), kind='Collection.find({$expr: e}) disagrees with the '
                               'matcher on the same documents',
                               per_doc=[show(x, c['oids']) if isinstance(x, Exception) else x
                                        for x in res['find']],
                               found=(wire.err_name(res['find_whole'])
                                      if isinstance(res['find_whole'], Exception)
                                      else res['find_whole'])))
        for i in range(a, b):
            m = parse_out(out[i])
            pys = py_strings(c, res, i - a)
            c['py'].append(pys)
            if pys['project'] != pys['addFields']:
                ctx.violation(dict(render(c, i - a), kind='$project and $addFields compute '
                                   'different values for the same expression',
                                   project=pys['project'], addFields=pys['addFields']))
            for name in CONTEXTS:
                spec = m['spec_filter'] if name == 'find' else m['spec_value']
                reasons = m['filter_reasons'] if name == 'find' else m['reasons']
                judge.pair(c, i - a, name, pys[name], m[name], spec, reasons)
    return kept


def corpus_cases():
    import glob
    import os
    out = []
    for p in sorted(glob.glob(os.path.join(common.VERIF, 'corpus', 'C04', '*.json'))):
        e = json.load(open(p))
        oids = wire.Oids()
        out.append({'expr': wire.dec(e['wire_expr'], oids), 'type': 'any',
                    'docs': [wire.dec(w, oids) for w in e['wire_docs']], 'oids': oids,
                    'ops': {}})
    return out


# Defects of the expression evaluator that were repaired in the library (known_findings.json,
# status "fixed": exprtruth, exprmissing, strcasecmp, numtype, adddate, concatstr, nullarg,
# condkeys, undefvar, filtertruth, mapmissing, missingcmp, minmaxtypes, sumbool, arrayliteral,
# boolarith, letmissing, laxargs, accbaremissing, and the repaired parts of scalararg and arraypath):
# their classes
# no longer
# exist in Spec/ExprDomain.lean, so these inputs lie inside D (or the rules reject them and the
# code must raise too).  They run as ordinary cases on every run, next to the
# witnesses of the fixed findings; the old behaviour is a VIOLATION if it comes back.
_T0 = gen_expr.DATES[0]
REGRESSIONS = [
    # exprtruth / exprmissing: find({$expr: e}) over "", [], {}, 0, null, missing
    ('$s', [{'s': ''}, {'s': 'x'}, {'s': None}, {}]),
    ('$x', [{'x': []}, {'x': {}}, {'x': 0}, {'x': 0.0}, {'x': False}, {'x': [0]}]),
    ({'$gt': ['$a', 0]}, [{}, {'a': 1}, {'a': 0}, {'a': None}]),
    ({'$and': ['$s', {'$gt': ['$a', 0]}]}, [{'s': '', 'a': 1}, {'a': 1}, {'s': ''}]),
    ('$d.n', [{}, {'d': {}}, {'d': {'n': ''}}, {'d': {'n': 0}}]),
    # strcasecmp
    ({'$strcasecmp': ['$s', 'ab']}, [{'s': 'AB'}, {'s': 'Ab'}, {'s': 'aC'}, {'s': 'B'}, {'s': ''}]),
    ({'$strcasecmp': ['$s', '$u']}, [{'s': 'a', 'u': 'B'}, {'s': 'B', 'u': 'a'}, {'s': None, 'u': ''},
                                     {'u': 'a'}, {'s': 'a'}, {}]),
    # numtype
    ({'$mod': ['$a', 2]}, [{'a': 5}, {'a': -5}, {'a': 5.5}, {'a': 4}, {'a': None}]),
    ({'$mod': ['$a', '$b']}, [{'a': 7, 'b': -3}, {'a': -7, 'b': 3}, {'a': 7, 'b': 2.5},
                              {'a': 7.5, 'b': 2}, {'a': 1, 'b': 0}]),
    ({'$pow': ['$a', '$b']}, [{'a': 5, 'b': 2}, {'a': -2, 'b': 3}, {'a': 2, 'b': 62},
                              {'a': 2, 'b': 63}, {'a': 2, 'b': 64}, {'a': 2.5, 'b': 2},
                              {'a': 2, 'b': 2.0}, {'a': 3, 'b': 0}, {'a': 0, 'b': 0}]),
    ({'$ceil': '$a'}, [{'a': 2.5}, {'a': -2.5}, {'a': 3}, {'a': 2.0}, {'a': -0.5}]),
    ({'$floor': '$a'}, [{'a': 2.5}, {'a': -2.5}, {'a': 3}, {'a': 0.25}]),
    ({'$trunc': '$a'}, [{'a': 2.5}, {'a': -2.5}, {'a': 3}, {'a': -0.25}]),
    # adddate
    ({'$add': ['$t', 1000]}, [{'t': _T0}, {'t': None}, {}]),
    ({'$add': [1000, '$t', '$a']}, [{'t': _T0, 'a': 0.5}, {'t': _T0, 'a': 2}, {'t': _T0}]),
    ({'$add': ['$t']}, [{'t': _T0}]),
    ({'$add': ['$t', '$t']}, [{'t': _T0}]),
    ({'$add': ['$t', '$s']}, [{'t': _T0, 's': 'x'}]),
    # concatstr
    ({'$concat': ['$s', '$x']}, [{'s': 'a', 'x': 1}, {'s': 'a', 'x': 'b'}, {'s': 'a', 'x': None},
                                 {'s': 'a'}, {'s': 'a', 'x': True}, {'s': 'a', 'x': [1]}]),
    # nullarg
    ({'$year': '$t'}, [{'t': None}, {}, {'t': _T0}]),
    ({'$millisecond': '$t'}, [{'t': None}, {}, {'t': gen_expr.DATES[1]}]),
    ({'$toLower': '$s'}, [{}, {'s': None}, {'s': 'Ab'}]),
    ({'$toUpper': '$s'}, [{}, {'s': None}, {'s': 'Ab'}]),
    ({'$toString': '$x'}, [{'x': None}, {}, {'x': 5}, {'x': True}, {'x': 's'}]),
    ({'$arrayElemAt': ['$l', '$a']}, [{'l': None, 'a': 0}, {'a': 0}, {'l': [1, 2]}, {'l': [1, 2], 'a': None},
                                      {'l': [1, 2], 'a': 1}, {'l': [1, 2], 'a': 5}, {}]),
    ({'$filter': {'input': '$l', 'cond': {'$gt': ['$$this', 1]}}}, [{'l': None}, {}, {'l': [1, 2, 3]}]),
    ({'$in': ['$a', '$l']}, [{'l': [1, None]}, {'a': 1, 'l': [1]}, {'a': None, 'l': [None]},
                             {'a': 1, 'l': None}, {'a': 1}, {}]),
    # condkeys, laxargs ($ifNull arity, extra fields of $cond / $let)
    ({'$cond': {'if': '$f', 'then': 1}}, [{'f': True}, {'f': False}, {}]),
    ({'$cond': {'then': 1, 'else': 2}}, [{}]),
    ({'$cond': {'else': 2, 'if': '$f', 'then': 1}}, [{'f': True}, {'f': False}, {}]),
    ({'$cond': {'if': '$f', 'then': 1, 'else': 2, 'x': 3}}, [{'f': True}]),
    ({'$ifNull': ['$a']}, [{'a': 1}, {}]),
    ({'$ifNull': []}, [{}]),
    ({'$ifNull': ['$a', '$b', 'c']}, [{'a': 1}, {'b': 2}, {}]),
    ({'$let': {'vars': {'v': '$a'}, 'in': '$$v', 'x': 1}}, [{'a': 1}]),
    ({'$let': {'vars': {'v': '$a'}, 'in': {'$add': ['$$v', 1]}}}, [{'a': 1}, {'a': None}]),
    # undefvar
    ({'$ifNull': ['$$nope', 1]}, [{}]),
    ('$$nope.x', [{}]),
    ({'$ifNull': ['$$REMOVE', 1]}, [{}]),
    ({'$cond': ['$f', 1, '$$nope']}, [{'f': True}, {'f': False}]),
    ({'$map': {'input': '$l', 'as': 'e', 'in': {'$add': ['$$e', '$$this']}}}, [{'l': [1]}, {'l': []}]),
    ({'$let': {'vars': {'v': 1}, 'in': {'$map': {'input': '$l', 'in': {'$add': ['$$this', '$$v']}}}}},
     [{'l': [1, 2]}]),
    # missingcmp
    ({'$lt': ['$zz', None]}, [{}]),
    ({'$eq': ['$a', '$b']}, [{}, {'a': None}, {'b': None}, {'a': None, 'b': None}, {'a': 1}, {'a': 1, 'b': 1}]),
    ({'$ne': ['$a', None]}, [{}, {'a': None}, {'a': 0}]),
    ({'$gt': ['$a', '$b']}, [{}, {'a': None}, {'b': None}, {'a': 0, 'b': -1}]),
    ({'$gte': ['$a', '$b']}, [{}, {'a': None}, {'b': None}]),
    ({'$lte': ['$a', '$b']}, [{}, {'a': None}, {'b': None}]),
    ({'$cond': [{'$lt': ['$a', 1]}, 'small', 'big']}, [{}, {'a': 0}, {'a': 5}]),
    # filtertruth
    ({'$filter': {'input': '$x', 'cond': '$$this'}},
     [{'x': ['', 'x', 0, [], {}, None, False, 1, 0.0]}, {'x': []}]),
    ({'$filter': {'input': '$l', 'cond': '$zz'}}, [{'l': [1, 2]}, {'l': [1], 'zz': ''}]),
    ({'$filter': {'input': '$q', 'as': 'e', 'cond': '$$e.n'}}, [{'q': [{'n': 1}, {'p': 2}, {'n': ''}]}]),
    # mapmissing
    ({'$map': {'input': '$l', 'in': '$zz'}}, [{'l': [1, 2]}, {'l': [1], 'zz': 5}, {'l': []}]),
    ({'$map': {'input': '$q', 'in': '$$this.n'}}, [{'q': [{'n': 1}, {'p': 2}]}, {'q': [{}]}]),
    ({'$map': {'input': '$l', 'in': {'$divide': [1, '$$this']}}}, [{'l': [1, 0]}, {'l': [2]}]),
    # minmaxtypes (fix 94aa9ad): $min / $max order values of several types by the BSON order
    # (null < numbers < strings < documents < arrays < booleans < dates), skip null and missing,
    # keep the first of equal values; one bare array operand is ranged over, an array among
    # several operands is one value
    ({'$max': ['$a', '$s', '$f']}, [{'a': 1, 's': 'x', 'f': True}, {'a': 1, 's': 'x'}, {'a': 1},
                                    {'s': '', 'f': False}, {'a': None}, {}]),
    ({'$min': ['$a', '$s', '$f', None]}, [{'a': 1, 's': 'x', 'f': True}, {'s': 'x', 'f': True},
                                          {'f': False}, {'a': None, 's': None}, {}]),
    ({'$max': ['$t', '$f', '$a', '$l']}, [{'t': _T0, 'f': True, 'a': 5, 'l': [9]}, {'f': False, 'a': 5, 'l': [9]},
                                          {'a': 5, 'l': []}, {'a': 5.5}]),
    ({'$min': ['$t', '$f', '$l', '$s']}, [{'t': _T0, 'f': True, 'l': [0], 's': 'z'}, {'t': _T0, 'f': True, 'l': [0]},
                                          {'t': _T0, 'f': True}, {'t': _T0}]),
    ({'$max': '$x'}, [{'x': [1, 'x', True, None, [3]]}, {'x': [None, 'b', 'a', 2.5]}, {'x': [[1, 2], [1, 3], 7]},
                      {'x': [None, None]}, {'x': []}, {'x': [_T0, True]}, {'x': [False, True, 'a']}]),
    ({'$min': '$x'}, [{'x': [1, 'x', True, None, [3]]}, {'x': ['b', 'a', None]}, {'x': [[1, 2], [1], 'q']},
                      {'x': [True, False]}, {'x': [_T0, gen_expr.DATES[3]]}]),
    ({'$max': ['$a', '$b']}, [{'a': 1, 'b': 1.0}, {'a': 1.0, 'b': 1}, {'a': 2, 'b': 2.5}, {'a': -1}, {'b': 0}]),
    ({'$min': ['$a', '$b']}, [{'a': 1, 'b': 1.0}, {'a': 1.0, 'b': 1}, {'a': 2, 'b': 2.5}, {'a': None, 'b': 3}]),
    ({'$max': ['$l', '$a']}, [{'l': [1, 2], 'a': 3}, {'l': [], 'a': 3}, {'a': 3}]),
    ({'$max': ['$l', '$m']}, [{'l': [1, 2], 'm': ['a']}, {'l': [1, 2], 'm': []}, {'l': [1, 'a'], 'm': [1, 2]},
                              {'l': [1], 'm': [1, 0]}]),
    ({'$max': []}, [{}]),
    ({'$min': ['$zz', None]}, [{}]),
    ({'$cond': [{'$gt': [{'$max': ['$a', '$s']}, 5]}, 'str-or-big', 'small']}, [{'a': 1, 's': 'x'}, {'a': 1}, {'a': 7}]),
    # sumbool (fix 2f66991): $sum / $avg range over the numbers only; booleans, like strings,
    # dates, arrays, documents, null and missing operands, are ignored
    ({'$sum': ['$a', '$f']}, [{'a': 1, 'f': True}, {'a': 1, 'f': False}, {'f': True}, {'a': 2.5, 'f': True}, {}]),
    ({'$avg': ['$a', '$f']}, [{'a': 1, 'f': True}, {'a': 3, 'f': False}, {'f': True}, {'f': False}, {}]),
    ({'$sum': '$x'}, [{'x': [1, True, 2.5, False]}, {'x': [True, False]}, {'x': [True, 'a', None, [1], {'n': 1}]},
                      {'x': []}, {'x': [1, 2, 3]}]),
    ({'$avg': '$x'}, [{'x': [1, True, 2, False]}, {'x': [True, False]}, {'x': [True, 'a', None, 4]},
                      {'x': []}, {'x': [1, 2, 3]}, {'x': [0.5, 1]}]),
    ({'$sum': ['$a', '$s', '$t', '$l', '$d', None, '$zz', '$b']},
     [{'a': 1, 's': 'x', 't': _T0, 'l': [5], 'd': {'n': 1}, 'b': 0.5}, {'s': 'x'}, {}]),
    ({'$avg': ['$a', '$s', '$f', '$b']}, [{'a': 1, 's': '1', 'f': True, 'b': 2}, {'s': '1', 'f': True}]),
    ({'$sum': []}, [{}]),
    ({'$avg': []}, [{}]),
    ({'$add': [{'$sum': ['$f', '$a']}, {'$ifNull': [{'$avg': ['$f']}, 10]}]}, [{'f': True, 'a': 1}, {'f': False}]),
    # arrayliteral (fixes fce7e55, 9ff1475): an array in expression position evaluates its items (a
    # missing value gives null), also nested and inside operands; an operator that takes one
    # argument accepts a one-item argument list and rejects any other number of items
    (['$a', '$zz', ['$a', {'$add': ['$a', 1]}], {'n': '$a', 'm': '$zz'}], [{'a': 1}, {}, {'a': None}]),
    ({'$not': ['$a']}, [{'a': 0}, {'a': 1}, {}, {'a': None}, {'a': []}]),
    ({'$not': [['$a']]}, [{'a': 0}, {}]),
    ({'$not': []}, [{}]),
    ({'$not': ['$a', '$b']}, [{'a': 0, 'b': 1}]),
    ({'$concatArrays': [['$a'], ['$zz', 2], '$l']}, [{'a': 1, 'l': [3]}, {'l': []}, {'a': 1}, {'a': 1, 'l': None}]),
    ({'$in': [1, ['$a', '$b']]}, [{'a': 1}, {'a': 0, 'b': 1}, {'a': 0}, {}]),
    ({'$in': ['$a', [1, 2, '$b']]}, [{'a': 1}, {'a': 5, 'b': 5}, {'a': 5}, {'b': None}]),
    ({'$size': [['$a', '$b', '$zz']]}, [{'a': 1}, {}]),
    ({'$arrayElemAt': [['$a', '$b'], 1]}, [{'a': 1, 'b': 2}, {'a': 1}, {}]),
    ({'$setUnion': [['$a', '$b'], '$l']}, [{'a': 1, 'b': 1, 'l': [2]}, {'a': 1, 'l': [1]}]),
    ({'$eq': [['$a', '$b'], '$l']}, [{'a': 1, 'b': 2, 'l': [1, 2]}, {'a': 1, 'l': [1, None]}, {'l': [None, None]}]),
    ({'$abs': ['$a']}, [{'a': -1}, {'a': None}, {}, {'a': 'x'}]),
    ({'$ceil': [{'$add': ['$a', 0.5]}]}, [{'a': 1}, {}]),
    ({'$year': ['$t']}, [{'t': _T0}, {'t': None}, {}]),
    ({'$toUpper': ['$s']}, [{'s': 'ab'}, {}, {'s': None}]),
    ({'$toString': ['$a']}, [{'a': 5}, {'a': None}, {}]),
    ({'$isArray': ['$l']}, [{'l': [1]}, {'l': 1}, {}]),
    ({'$isArray': [['$a']]}, [{'a': 1}, {}]),
    ({'$isNumber': ['$a']}, [{'a': 1}, {'a': True}, {'a': 'x'}, {}]),
    ({'$abs': []}, [{}]),
    ({'$toLower': ['$s', '$u']}, [{'s': 'A', 'u': 'B'}]),
    ({'$map': {'input': ['$a', '$b', 3], 'in': {'$add': ['$$this', 1]}}}, [{'a': 1, 'b': 2}, {'a': 1}, {}]),
    ({'$cond': [{'$isArray': [['$zz']]}, ['$a'], 'no']}, [{'a': 1}, {}]),
    # scalararg, the repaired part (fixes f32e005, e7bd52b): a bare operand of $add $multiply $concat
    # $and $or $setUnion is a one-item argument list; of $sum $avg $min $max the one value
    ({'$add': '$a'}, [{'a': 1}, {'a': 2.5}, {'a': None}, {}, {'a': 'x'}, {'a': _T0}, {'a': True}]),
    ({'$multiply': '$a'}, [{'a': 3}, {'a': None}, {}, {'a': 'x'}]),
    ({'$add': {'$abs': '$a'}}, [{'a': -1}, {}]),
    ({'$concat': '$s'}, [{'s': 'ab'}, {'s': None}, {}, {'s': 1}]),
    ({'$and': '$a'}, [{'a': 1}, {'a': 0}, {}, {'a': None}, {'a': ''}]),
    ({'$or': '$a'}, [{'a': 1}, {'a': 0}, {}, {'a': []}]),
    ({'$and': {'$gt': ['$a', 1]}}, [{'a': 2}, {'a': 0}, {}]),
    ({'$setUnion': '$l'}, [{'l': [1, 1, 2]}, {'l': []}, {}, {'l': None}]),
    ({'$add': None}, [{}]),
    ({'$sum': '$a'}, [{'a': 5}, {'a': 2.5}, {'a': 'x'}, {'a': None}, {'a': True}, {'a': _T0}, {'a': {'n': 1}}]),
    ({'$avg': '$a'}, [{'a': 4}, {'a': 'x'}, {'a': None}, {'a': False}]),
    ({'$max': '$a'}, [{'a': 5}, {'a': 'ab'}, {'a': None}, {'a': True}, {'a': {'x': 1, 'y': 'k'}}]),
    ({'$min': '$s'}, [{'s': 'ab'}, {'s': ''}, {'s': None}]),
    ({'$max': {'$add': ['$a', 2]}}, [{'a': 1}, {'a': None}, {}]),
    ({'$sum': 5}, [{}]),
    ({'$avg': 4}, [{}]),
    ({'$sum': None}, [{}]),
    ({'$max': {'$literal': [1, 'x', True]}}, [{}]),
    ({'$sum': {'n': '$a'}}, [{'a': 1}]),
    # boolarith (fix 10aa9e1): a boolean is rejected by the arithmetic operators and as an index;
    # a null or missing operand that is looked at first still gives null
    ({'$add': ['$f', 1]}, [{'f': True}, {'f': False}, {'f': None}, {}]),
    ({'$add': ['$a', '$f']}, [{'a': None, 'f': True}, {'a': 1, 'f': True}, {'f': True}, {'a': 1}]),
    ({'$add': ['$f', '$a']}, [{'a': None, 'f': True}, {'a': 1, 'f': False}]),
    ({'$multiply': ['$a', '$f']}, [{'a': 2, 'f': True}, {'a': None, 'f': True}, {'f': False}]),
    ({'$add': ['$t', '$f']}, [{'t': _T0, 'f': True}, {'t': _T0}]),
    ({'$subtract': ['$a', '$f']}, [{'a': 2, 'f': True}, {'a': None, 'f': True}, {'a': 2}, {'f': False}]),
    ({'$subtract': ['$f', '$a']}, [{'a': 2, 'f': True}, {'f': True}, {'a': None, 'f': False}]),
    ({'$divide': ['$a', '$f']}, [{'a': 2, 'f': True}, {'a': 2, 'f': False}, {'f': True}]),
    ({'$mod': ['$f', 2]}, [{'f': True}, {}]),
    ({'$pow': ['$a', '$f']}, [{'a': 2, 'f': True}, {'a': None, 'f': True}]),
    ({'$abs': '$f'}, [{'f': True}, {'f': False}, {'f': None}, {}]),
    ({'$ceil': '$f'}, [{'f': True}]),
    ({'$sqrt': '$f'}, [{'f': True}]),
    ({'$arrayElemAt': ['$l', '$f']}, [{'l': [1, 2], 'f': True}, {'l': [1, 2], 'f': False}, {'l': None, 'f': True},
                                      {'f': True}, {'l': [1, 2]}]),
    ({'$slice': ['$l', True]}, [{'l': [1, 2]}]),
    ({'$slice': ['$l', 1, True]}, [{'l': [1, 2]}]),
    ({'$slice': ['$l', False, 1]}, [{'l': [1, 2]}]),
    # letmissing (fix 9957044): a $let variable bound to a missing value is missing where it is
    # used; an error in a variable still raises, used or not
    ({'$let': {'vars': {'v': '$zz'}, 'in': 1}}, [{}, {'zz': 2}]),
    ({'$let': {'vars': {'v': '$zz'}, 'in': '$$v'}}, [{}, {'zz': 2}]),
    ({'$let': {'vars': {'v': '$zz'}, 'in': {'$ifNull': ['$$v', 'none']}}}, [{}, {'zz': 2}, {'zz': None}]),
    ({'$let': {'vars': {'v': '$zz'}, 'in': ['$$v', '$$v.x']}}, [{}, {'zz': {'x': 1}}]),
    ({'$let': {'vars': {'v': '$zz'}, 'in': {'$add': ['$$v', 1]}}}, [{}, {'zz': 2}]),
    ({'$let': {'vars': {'v': '$zz'}, 'in': {'$cond': ['$$v', 'y', 'n']}}}, [{}, {'zz': 1}]),
    ({'$let': {'vars': {'v': '$zz', 'w': '$a'}, 'in': {'$gt': ['$$v', '$$w']}}}, [{'a': 1}, {'a': 1, 'zz': 2}, {}]),
    ({'$let': {'vars': {'v': 1}, 'in': {'$let': {'vars': {'v': '$zz'}, 'in': {'$ifNull': ['$$v', 'inner missing']}}}}},
     [{}, {'zz': 5}]),
    ({'$let': {'vars': {'v': '$zz'}, 'in': {'$let': {'vars': {'v': 7}, 'in': '$$v'}}}}, [{}]),
    ({'$let': {'vars': {'v': '$zz'}, 'in': {'$map': {'input': '$l', 'as': 'v', 'in': '$$v'}}}}, [{'l': [1, 2]}]),
    ({'$let': {'vars': {'v': {'$divide': [1, 0]}}, 'in': 1}}, [{}]),
    ({'$let': {'vars': {'v': '$$REMOVE'}, 'in': {'$ifNull': ['$$v', 'removed']}}}, [{}]),
    # laxargs (fix b53c397): variable names
    ({'$let': {'vars': {'V': 1}, 'in': '$$V'}}, [{}]),
    ({'$let': {'vars': {'a.b': 1}, 'in': 1}}, [{}]),
    ({'$let': {'vars': {'': 1}, 'in': 1}}, [{}]),
    ({'$let': {'vars': {'_x': 1}, 'in': 1}}, [{}]),
    ({'$let': {'vars': {'x-y': 1}, 'in': 1}}, [{}]),
    ({'$let': {'vars': {'1a': 1}, 'in': 1}}, [{}]),
    ({'$let': {'vars': {'a_1B': '$a'}, 'in': '$$a_1B'}}, [{'a': 1}, {}]),
    ({'$let': {'vars': {'v': '$a', 'W': 1}, 'in': '$$v'}}, [{'a': 1}]),
    ({'$map': {'input': '$l', 'as': 'V', 'in': '$$V'}}, [{'l': [1]}, {'l': None}, {}]),
    ({'$map': {'input': '$l', 'as': 'x.y', 'in': 1}}, [{'l': [1]}, {}]),
    ({'$map': {'input': '$l', 'as': 5, 'in': 1}}, [{'l': [1]}]),
    ({'$map': {'input': '$l', 'as': 'it_2', 'in': {'$add': ['$$it_2', 1]}}}, [{'l': [1, 2]}]),
    ({'$filter': {'input': '$l', 'as': 'V', 'cond': True}}, [{'l': [1]}, {'l': None}]),
    ({'$filter': {'input': '$l', 'as': '', 'cond': True}}, [{'l': [1]}]),
    ({'$filter': {'input': '$l', 'as': 'e1', 'cond': {'$gt': ['$$e1', 1]}}}, [{'l': [1, 2, 3]}]),
    # arraypath, the repaired half (fix f19df5e): a path through an array gives the values that the
    # documents of the array have at the rest of the path
    ('$q.n', [{'q': [{'n': 1}, {'p': 2}]}, {'q': [{'n': 1}, {'n': 2}]}, {'q': [{'p': 1}]}, {'q': []},
              {'q': [5, None, {'n': 3}, 'x']}, {'q': {'n': 4}}, {'q': 5}, {}]),
    ('$q.d.n', [{'q': [{'d': {'n': 1}}, {'d': {}}, {'d': 5}, {}]}, {'q': [{'d': [{'n': 1}, {'n': 2}, {}]}, {'d': {'n': 3}}]}]),
    ('$d.q.n', [{'d': {'q': [{'n': 1}, {}]}}, {'d': {}}, {'d': {'q': 5}}]),
    ({'$size': '$q.n'}, [{'q': [{'n': 1}, {'p': 2}, {'n': None}]}, {'q': []}]),
    ({'$sum': '$q.n'}, [{'q': [{'n': 1}, {'p': 2}, {'n': 2.5}]}, {'q': [{}]}]),
    ({'$let': {'vars': {'v': '$q'}, 'in': '$$v.n'}}, [{'q': [{'n': 1}, {'p': 2}]}, {'q': []}]),
    ({'$map': {'input': '$x', 'in': '$$this.n'}}, [{'x': [{'n': [{'n': 1}]}, {'n': 2}, {}]}]),
    ({'$ifNull': ['$q.n', 'missing']}, [{'q': [{'p': 1}]}, {'q': 5}, {}]),
    # accbaremissing (fix 50b60be): a missing bare operand leaves nothing to accumulate; a missing
    # item of a list operand counts like null whatever the context
    ({'$sum': '$zz'}, [{}, {'zz': 2}, {'zz': None}]),
    ({'$avg': '$zz'}, [{}, {'zz': 2}]),
    ({'$max': '$zz'}, [{}, {'zz': 'x'}]),
    ({'$min': '$d.zz'}, [{'d': {}}, {}, {'d': {'zz': 1}}]),
    ({'$sum': '$$REMOVE'}, [{}]),
    ({'$first': '$zz'}, [{}, {'zz': [1, 2]}, {'zz': []}]),
    ({'$last': '$zz'}, [{}, {'zz': [1, 2]}]),
    ({'$add': [{'$sum': '$zz'}, 1]}, [{}, {'zz': [1, 2]}]),
    ({'$ifNull': [{'$max': '$zz'}, 'nothing']}, [{}, {'zz': 3}]),
    ({'$sum': {'$add': ['$zz', 1]}}, [{}, {'zz': 1}]),
    ({'$let': {'vars': {'v': '$zz'}, 'in': {'$sum': '$$v'}}}, [{}, {'zz': [1, 2]}]),
    ({'$first': ['$a', '$b']}, [{'a': 1, 'b': 2}, {'b': 2}, {}]),
    ({'$last': ['$a', '$zz']}, [{'a': 1}, {'a': 1, 'zz': 2}]),
    ({'$first': []}, [{}]),
    ({'$last': [[1, 2]]}, [{}]),
    # scalararg, the part repaired by d10f41c: an operator of a fixed arity rejects any other
    # number of arguments before evaluating them, a bare operand counting as one
    ({'$eq': '$a'}, [{'a': 1}, {}]),
    ({'$eq': ['$a']}, [{'a': 1}]),
    ({'$eq': ['$a', 1, 2]}, [{'a': 1}]),
    ({'$eq': []}, [{}]),
    ({'$eq': {'a': 1}}, [{}]),
    ({'$eq': [{'$divide': [1, 0]}]}, [{}]),
    ({'$ne': 3}, [{}]),
    ({'$gt': ['$a']}, [{'a': 1}]),
    ({'$lte': [1, 2, 3]}, [{}]),
    ({'$cmp': [1]}, [{}]),
    ({'$cmp': [1, 2]}, [{}]),
    ({'$subtract': 5}, [{}]),
    ({'$subtract': ['$a']}, [{'a': 1}]),
    ({'$divide': ['$a', 1, 2]}, [{'a': 1}]),
    ({'$mod': '$a'}, [{'a': 1}]),
    ({'$pow': []}, [{}]),
    ({'$log': [1]}, [{}]),
    ({'$in': [1]}, [{}]),
    ({'$in': 5}, [{}]),
    ({'$in': '$l'}, [{'l': [1, [1]]}]),
    ({'$in': [1, [1], 2]}, [{}]),
    ({'$split': ['a']}, [{}]),
    ({'$split': 'a,b'}, [{}]),
    ({'$arrayElemAt': ['$l']}, [{'l': [1]}]),
    ({'$arrayElemAt': '$l'}, [{'l': [1]}]),
    ({'$arrayElemAt': ['$l', 0, 1]}, [{'l': [1]}]),
    ({'$cond': ['$a', 1]}, [{'a': 1}]),
    ({'$cond': 5}, [{}]),
    ({'$cond': '$a'}, [{'a': 1}]),
    ({'$cond': ['$a', 1, 2, 3]}, [{'a': 1}]),
    ({'$cond': {'if': '$a'}}, [{'a': 1}]),
    ({'$ifNull': '$a'}, [{'a': 1}, {}]),
    ({'$ifNull': {'$literal': [1, 2]}}, [{}]),
    ({'$setEquals': [[1]]}, [{}]),
    ({'$setEquals': '$l'}, [{'l': [1]}]),
    ({'$setEquals': []}, [{}]),
    ({'$setEquals': ['$l', '$l']}, [{'l': [1, 1]}]),
    ({'$and': [{'$eq': ['$a']}, False]}, [{'a': 1}]),
    ({'$cond': [True, 1, {'$eq': '$a'}]}, [{'a': 1}]),
    ({'$strcasecmp': ['a']}, [{}]),
    ({'$strcasecmp': 5}, [{}]),
    ({'$substr': ['abc', 1]}, [{}]),
    ({'$slice': '$l'}, [{'l': [1]}]),
    # $toString of a datetime (fix b727c9f): UTC, always three fraction digits
    ({'$toString': '$t'}, [{'t': _T0}, {'t': gen_expr.DATES[1]}, {'t': gen_expr.DATES[2]}, {'t': gen_expr.DATES[3]},
                           {'t': gen_expr.DATES[4]}, {'t': gen_expr.DATES[5]}, {'t': gen_expr.DATES[7]}, {'t': None}, {}]),
    ({'$toString': [gen_expr.DATES[6]]}, [{}]),
    ({'$concat': [{'$toString': '$t'}, '!']}, [{'t': _T0}]),
]


def fixed_cases():
    """the witnesses of the repaired findings and the REGRESSIONS table, as ordinary cases"""
    out = []
    for e in common.load_known('C04'):
        if e.get('status') != 'fixed':
            continue
        oids = wire.Oids()
        w = e['witness']
        out.append({'expr': wire.dec(w['wire_expr'], oids), 'type': 'any',
                    'docs': [wire.dec(w['wire_doc'], oids)], 'oids': oids, 'ops': {},
                    'fixed': e['id']})
    for expr, docs in REGRESSIONS:
        out.append({'expr': copy.deepcopy(expr), 'type': 'any',
                    'docs': [dict({'_id': i}, **copy.deepcopy(d)) for i, d in enumerate(docs)],
                    'oids': wire.Oids(), 'ops': {}})
    return out


# Boundary-operand grid: every numeric operator of the vocabulary on every (left, right) pair of
# two lists of boundary operands -- zero, signs, halves, the int32 / int64 limits, and the int64
# values from 2**53 on that a double does not hold exactly (ids, nanosecond timestamps) -- as stored
# fields `a`, `b` (null and missing included).  Deterministic, the same on every run and seed: a
# numeric operator that goes wrong on one operand class is met whatever the random stream does.
_MISSING = object()
GRID_LEFT = [0, 1, -1, 2, 3, -7, 0.5, -1.5, 2.5, 0.0,
             2 ** 31 - 1, 2 ** 31, -2 ** 31,
             2 ** 53 - 1, 2 ** 53, 2 ** 53 + 1, -(2 ** 53 + 1), 2 ** 53 + 2, 2 ** 60,
             2 ** 60 + 1, 1541815603606036487, 2 ** 63 - 1, -2 ** 63,
             float(2 ** 53), float(2 ** 62), None, _MISSING]
GRID_RIGHT = [0, 1, 2, 3, -2, 16, 0.5, 1.5, -3.0, 2 ** 53 + 1, 2 ** 62 + 1, None]
GRID_BINARY = ['$subtract', '$divide', '$mod', '$pow', '$log', '$add', '$multiply',
               '$eq', '$ne', '$gt', '$gte', '$lt', '$lte', '$sum', '$avg', '$max', '$min']
GRID_UNARY = ['$abs', '$ceil', '$floor', '$trunc', '$sqrt', '$exp', '$ln', '$log10', '$toString',
              '$isNumber']
GRID_DOCS = 12          # operand pairs per case


def _grid_doc(i, a, b=_MISSING):
    d = {'_id': i}
    if a is not _MISSING:
        d['a'] = a
    if b is not _MISSING:
        d['b'] = b
    return d


def grid_cases():
    out = []

    def add(expr, docs):
        for k in range(0, len(docs), GRID_DOCS):
            out.append({'expr': copy.deepcopy(expr), 'type': 'any', 'oids': wire.Oids(), 'ops': {},
                        'docs': [dict(d, _id=i) for i, d in enumerate(docs[k:k + GRID_DOCS])],
                        'grid': True})
    pairs = [_grid_doc(0, a, b) for a in GRID_LEFT for b in GRID_RIGHT]
    for op in GRID_BINARY:
        add({op: ['$a', '$b']}, pairs)
    singles = [_grid_doc(0, a) for a in GRID_LEFT]
    for op in GRID_UNARY:
        add({op: '$a'}, singles)
    # a date moved by a boundary number of milliseconds (the years 1..9999 are all Python holds)
    dated = [dict(_grid_doc(0, a), t=gen_expr.DATES[1]) for a in GRID_LEFT + [10 ** 14, -10 ** 14]]
    add({'$add': ['$t', '$a']}, dated)
    add({'$subtract': ['$t', '$a']}, dated)
    # $dateFromParts on stored parts: the ends of every calendar range, the last day of every
    # month (leap and common years, 1900 and 2000), parts just outside (carried by the rules),
    # milliseconds outside 0..999 (carried by the code too), null and missing parts, the first and
    # last instant Python holds; alone and under every date-part operator
    full = {'$dateFromParts': {'year': '$y', 'month': '$mo', 'day': '$d', 'hour': '$h',
                               'minute': '$mi', 'second': '$s', 'millisecond': '$ms'}}
    add(full, PARTS_DOCS)
    for op in ('$year', '$month', '$dayOfMonth', '$hour', '$minute', '$second', '$millisecond',
               '$dayOfYear', '$dayOfWeek', '$week'):
        add({op: full}, PARTS_DOCS)
    add({'$toString': full}, PARTS_DOCS)
    add({'$dateFromParts': {'year': '$y'}}, PARTS_DOCS[:24])
    add({'$dateFromParts': {'millisecond': '$ms', 'year': '$y', 'day': '$d'}}, PARTS_DOCS)
    return out


def _parts_docs():
    rows = [(1, 1, 1, 0, 0, 0, 0), (9999, 12, 31, 23, 59, 59, 999), (1970, 1, 1, 0, 0, 0, 0),
            (2020, 2, 29, 13, 14, 15, 123), (2000, 2, 29, 0, 0, 0, 1), (1900, 2, 28, 23, 59, 59, 999),
            (2019, 2, 28, 12, 0, 0, 0), (2024, 12, 31, 23, 59, 59, 999), (1969, 12, 31, 23, 59, 59, 999),
            (4, 2, 29, 0, 0, 1, 0), (100, 3, 1, 0, 1, 0, 0), (400, 2, 29, 1, 0, 0, 0)]
    dim = [31, 28, 31, 30, 31, 30, 31, 31, 30, 31, 30, 31]
    rows += [(2021, m + 1, dim[m], 6, 30, 30, 500) for m in range(12)]
    rows += [(2021, m + 1, dim[m] + 1, 0, 0, 0, 0) for m in range(12)]      # one day too many
    rows += [(2020, 14, 1, 0, 0, 0, 0), (2020, 0, 1, 0, 0, 0, 0), (2020, 3, 0, 0, 0, 0, 0),
             (2020, -1, 1, 0, 0, 0, 0), (2020, 1, -1, 0, 0, 0, 0), (1900, 2, 29, 0, 0, 0, 0),
             (2020, 2, 30, 0, 0, 0, 0), (2020, 1, 1, 24, 0, 0, 0), (2020, 1, 1, -1, 0, 0, 0),
             (2020, 1, 1, 0, 60, 0, 0), (2020, 1, 1, 0, -1, 0, 0), (2020, 1, 1, 0, 0, 60, 0),
             (2020, 1, 1, 0, 0, -1, 0), (2020, 1, 1, 0, 0, 0, -1), (2020, 1, 1, 0, 0, 0, 1000),
             (2020, 12, 31, 23, 59, 59, 1000), (2020, 1, 1, 0, 0, 0, 86400000),
             (2020, 3, 1, 0, 0, 0, -86400001), (2020, 1, 1, 0, 0, 59, 61001),
             (1, 1, 1, 0, 0, 0, -1), (9999, 12, 31, 23, 59, 59, 1000), (0, 1, 1, 0, 0, 0, 0),
             (10000, 1, 1, 0, 0, 0, 0), (-1, 1, 1, 0, 0, 0, 0), (2 ** 31, 1, 1, 0, 0, 0, 0),
             (2020, 2 ** 31, 1, 0, 0, 0, 0), (2020, 1, 1, 0, 0, 0, 10 ** 14),
             (2020, 1, 1, 0, 0, 0, 1.5), (2020, 1, 1, 0, 0, 0, 0.25), (2020.0, 1, 1, 0, 0, 0, 0),
             (2020, 1.0, 1, 0, 0, 0, 0), (2020, True, 1, 0, 0, 0, 0), (2020, 1, 1, False, 0, 0, 0),
             (2020, 'x', 1, 0, 0, 0, 0), (2020, 1, '', 0, 0, 0, 0), (2020, 1, 1, [], 0, 0, 0),
             ('2020', 1, 1, 0, 0, 0, 0), (2020, 1, 1, 0, 0, 0, 'x'), (2020, 1, 1, 0, 0, {}, 0)]
    names = ('y', 'mo', 'd', 'h', 'mi', 's', 'ms')
    docs = [dict(zip(names, r)) for r in rows]
    base = dict(zip(names, (2020, 2, 29, 13, 14, 15, 123)))
    for k in names:
        docs.append(dict(base, **{k: None}))
        docs.append({n: v for n, v in base.items() if n != k})
    docs.append({})
    return [dict(d, _id=0) for d in docs]


PARTS_DOCS = _parts_docs()


def run(ctx, proof, driver_ok):
    if not driver_ok:
        return {'explanation': 'model driver unavailable; no correspondence run'}
    n = ctx.n(12000, 150000)
    rng = random.Random(ctx.seed * 1000003 + 404)
    judge = Judge(ctx)
    corpus = corpus_cases() + fixed_cases()
    run_cases(ctx, corpus, judge)
    grid = grid_cases()
    grid_evaluations = 3 * sum(len(c['py']) for c in run_cases(ctx, grid, judge))
    ops = collections.Counter()
    depth = collections.Counter()
    types = collections.Counter()
    nontrivial = set()
    samples = []
    evaluations = 0
    constant = 0
    raising = 0
    total = 0
    done = 0
    batch = 2000
    while done < n and not ctx.too_many():
        # one case in ten comes from the malformed stream (higher anomaly rate)
        # and one in five from the wide-number stream (half of the numbers are int64 values of 31
        # to 63 bits)
        cases = [gen_case(rng, anomaly=(0.15 if k % 10 == 9 else 0.012),
                          wide=(0.5 if k % 5 == 3 else 0.0))
                 for k in range(min(batch, n - done))]
        done += len(cases)
        for c in run_cases(ctx, cases, judge):
            total += 1
            evaluations += 3 * len(c['py'])
            for k, v in c['ops'].items():
                ops[k] += v
            depth[gen_expr.depth_of(c['expr'])] += 1
            types[c['type']] += 1
            vals = [p['project'] for p in c['py']]
            if any(v is None or v.startswith('!') for v in vals):
                raising += 1
                continue
            if len(set(vals)) == 1:
                constant += 1
                continue
            h = common.case_hash(render(c))
            if h not in nontrivial:
                nontrivial.add(h)
                if len(samples) < 4 and gen_expr.depth_of(c['expr']) >= 2:
                    samples.append(dict(render(c), project=vals,
                                        find=[p['find'] for p in c['py']]))
    if judge.internal:
        raise RuntimeError('model and oracle differ inside D (contradicts the theorem): %r'
                           % judge.internal[:2])
    return {
        'evaluations': evaluations,
        'distinct_nontrivial': len(nontrivial),
        'rule': RULE,
        'samples': samples,
        'cases': total,
        'corpus_cases': len(corpus),
        'boundary_grid': {'cases': len(grid), 'evaluations': grid_evaluations,
                          'operators': GRID_BINARY + GRID_UNARY,
                          'dateFromParts_part_rows': len(PARTS_DOCS),
                          'operand_pairs_per_binary_operator': len(GRID_LEFT) * len(GRID_RIGHT)},
        'fraction_constant_across_documents': round(constant / float(max(total, 1)), 4),
        'fraction_cases_with_an_error': round(raising / float(max(total, 1)), 4),
        'zones': dict(judge.zone),
        'exclusion_reasons_hit': dict(judge.reasons),
        'deviations_by_reason': dict(judge.findings),
        'python_outcomes': dict(judge.outcomes),
        'python_error_kinds': dict(judge.errors),
        'operator_histogram': dict(ops.most_common()),
        'expression_depth_histogram': {str(k): v for k, v in sorted(depth.items())},
        'static_type_histogram': dict(types),
    }


def replay(ctx, path):
    e = json.load(open(path))
    oids = wire.Oids()
    case = {'expr': wire.dec(e['wire_expr'], oids), 'type': 'any',
            'docs': [wire.dec(w, oids) for w in e['wire_docs']], 'oids': oids, 'ops': {}}
    judge = Judge(ctx)
    run_cases(ctx, [case], judge)
    print(json.dumps({'python': case.get('py'), 'violations': len(ctx.violations)}, default=repr))
    return common.finish(ctx)


def replay_finding(ctx, e):
    """does the listed witness still deviate from the rules on the real code?"""
    oids = wire.Oids()
    w = e['witness']
    case = {'expr': wire.dec(w['wire_expr'], oids), 'docs': [wire.dec(w['wire_doc'], oids)],
            'oids': oids}
    res, _ = py_eval(case)
    py = py_strings(case, res, 0)[w['context']]
    return py is None or norm(py) != w['spec']
