"""C01 — query filters select exactly the documents MongoDB's matching rules select.

Correspondence: mongomock's `Collection.find(filter)` / `filter_applies` against the Lean model
`filterApplies` (Impl) and the oracle `Spec.specMatches`, with the domain reasons computed by the
same Lean definition `Spec.reasons` the theorem `matches_eq_spec_partial` is about.
"""
import collections
import copy
import json
import random

import mongomock
from mongomock.filtering import filter_applies

import common
import gen
import gen_filter
import wire

RULE = ('case = one generated filter over 1-4 stored documents that are variants of one '
        'another (grammar-directed, seeded); evaluated through Collection.find and '
        'filter_applies on /repo and through the Lean model; non-trivial = the filter selects '
        'some but not all documents of its case and raises on none; distinct = by hash of the '
        'wire encoding of (filter, documents)')

ASSUMPTIONS = [
    'outside F (model answers "unmodelled"): $regex beyond literal patterns with ^/$ '
    'anchors, $options, compiled regex values, negative array indexes, '
    'uuid/bytes/Decimal128/DBRef values',
    '$expr is evaluated by the model (MongoModel.Expr.exprFilter) but the C01 oracle has no rule '
    'for it and the C01 generator does not draw it: nothing is claimed about it here (C04)',
    'error classes are not compared for C01 (only raised / not raised)',
]


def norm(x):
    if x.startswith('!?'):
        return '?'
    if x.startswith('!'):
        return 'E'
    return x


def variants(g, d, k):
    """k documents: d and mutated copies of d (so that one filter separates them)"""
    out = [d]
    for _ in range(k - 1):
        e = copy.deepcopy(g.r.choice(out))
        for _ in range(g.r.choice([1, 1, 2])):
            paths = g.paths_of(e)
            x = g.r.random()
            if paths and x < 0.6:
                comps, _ = g.r.choice(paths)
                parent = e
                for c in comps[:-1]:
                    parent = parent[int(c)] if isinstance(parent, list) else parent[c]
                last = comps[-1]
                newv = g.operand(d, 1)
                if isinstance(parent, list):
                    parent[int(last)] = newv
                elif last != '_id':
                    if g.r.random() < 0.25:
                        del parent[last]
                    else:
                        parent[last] = newv
            else:
                e[g.r.choice(gen.FIELDS)] = g.value(1)
        out.append(e)
    return out


EMPTY_KEYS = 0.03      # rate of filter keys with an empty component
EMPTY_FIELDS = 0.05    # rate of cases whose documents hold a field named ''


def empty_field(g, d):
    """give one of the sub-documents of d (d itself included) a field named '': a new one, or one
    of its fields renamed (keeping its place)"""
    subs = [x for x in g.subvalues(d) if isinstance(x, dict)]
    t = g.r.choice(subs)
    keys = [k for k in t if k != '_id']
    if keys and g.r.random() < 0.5:
        k = g.r.choice(keys)
        items = [('' if kk == k else kk, v) for kk, v in t.items()]
        t.clear()
        t.update(items)
    else:
        t[''] = g.value(2)


def gen_case(rng):
    oids = wire.Oids()
    g = gen.Gen(rng, oids)
    fg = gen_filter.FilterGen(g, emptykeys=EMPTY_KEYS)
    base = g.doc(3, maxf=4)
    if rng.random() < EMPTY_FIELDS:
        empty_field(g, base)
    docs = variants(g, base, rng.choice([1, 2, 3, 4]))
    for i, d in enumerate(docs):
        d.pop('_id', None)
        docs[i] = dict([('_id', i)] + list(d.items()))
    f = fg.filter(rng.choice(docs))
    return {'filter': f, 'docs': docs, 'oids': oids, 'ops': fg.ops_used}


def py_eval(case):
    """run the real code; returns (per-doc results, stored docs, find outcome)"""
    coll = mongomock.MongoClient().db.c
    for d in case['docs']:
        coll.insert_one(copy.deepcopy(d))
    stored = list(coll.find({}))
    per = []
    for d in stored:
        try:
            per.append('T' if filter_applies(copy.deepcopy(case['filter']), d) else 'F')
        except Exception as e:  # pylint: disable=broad-except
            per.append('!' + wire.err_name(e))
    try:
        found = [d['_id'] for d in coll.find(copy.deepcopy(case['filter']))]
    except Exception as e:  # pylint: disable=broad-except
        found = '!' + wire.err_name(e)
    return per, stored, found


def case_lines(case, stored):
    fs = wire.encs(case['filter'], case['oids'])
    return ['c01 %s %s' % (fs, wire.encs(d, case['oids'])) for d in stored]


def parse_out(o):
    impl, spec, reasons, deep = [x.strip() for x in o.split('|')]
    return impl, spec, reasons.split(), deep.split()


def render(case, i=None):
    r = {'filter': wire.pretty(case['filter']),
         'docs': [wire.pretty(d) for d in case['docs']],
         'wire_filter': wire.encs(case['filter'], case['oids']),
         'wire_docs': [wire.encs(d, case['oids']) for d in case['docs']]}
    if i is not None:
        r['doc_index'] = i
    return r


class Judge(object):
    def __init__(self, ctx):
        self.ctx = ctx
        self.known = {e['id'] for e in common.load_known('C01') if e.get('status') == 'known'}
        self.zone = collections.Counter()
        self.reasons = collections.Counter()
        self.findings = collections.Counter()
        self.outcomes = collections.Counter()
        self.errors = collections.Counter()
        self.internal = []

    def pair(self, case, i, py, impl, spec, reasons, deep=()):
        ctx = self.ctx
        p, m, s = norm(py), norm(impl), norm(spec)
        if py.startswith('!'):
            self.errors[py[1:]] += 1
        if m == '?':
            self.zone['unmodelled'] += 1
            return
        zone = 'D' if not reasons else 'F-minus-D'
        self.zone[zone] += 1
        for r in reasons:
            self.reasons[r] += 1
        self.outcomes[p] += 1
        if p == m:
            if s == '?' or s == p:
                return
            if not reasons:
                self.internal.append(render(case, i))
                return
            labels = sorted(set(reasons) | set(deep))
            if s == 'E':
                # the rules reject the filter, the code never reached the malformed part
                labels = ['lazyvalidation']
            reasons = labels
            for r in reasons:
                self.findings[r] += 1
            if not (set(reasons) & self.known):
                ctx.violation(dict(render(case, i), kind='deviation from the rules in an unlisted '
                                   'class', py=py, impl=impl, spec=spec, reasons=reasons))
            else:
                for r in set(reasons) & self.known:
                    ctx.known_seen[r] = ctx.known_seen.get(r, 0) + 1
            return
        # python and model disagree
        if s != '?' and s == p:
            ctx.notes.append('model stale but python follows the rules: ' + json.dumps(
                render(case, i), default=repr)[:300])
            return
        if s != '?':
            ctx.violation(dict(render(case, i), kind='find disagrees with the matching rules',
                               py=py, impl=impl, spec=spec, reasons=reasons, zone=zone),
                          rank=(0 if zone == 'D' else 10000) + len(repr(case['filter'])) +
                          len(repr(case['docs'][i])))
        else:
            ctx.violation(dict(render(case, i), kind='correspondence broken: python differs from '
                               'the model Impl.filterApplies on this input; the oracle has no '
                               'answer here', what_no_longer_checks='correspondence '
                               'mongomock.filtering.filter_applies ~ MongoModel.filterApplies',
                               py=py, impl=impl, spec=spec, reasons=reasons), no_input=True)


def run_cases(ctx, cases, judge):
    evals = []
    lines = []
    for c in cases:
        per, stored, found = py_eval(c)
        c['per'], c['stored'], c['found'] = per, stored, found
        ls = case_lines(c, stored)
        c['span'] = (len(lines), len(lines) + len(ls))
        lines.extend(ls)
    out = wire.run_driver(lines)
    for c in cases:
        a, b = c['span']
        per = c['per']
        # find() must agree with the matcher document by document
        if isinstance(c['found'], list):
            exp = [d['_id'] for d, r in zip(c['stored'], per) if r == 'T']
            if any(r.startswith('!') for r in per) or exp != c['found']:
                ctx.violation(dict(render(c), kind='Collection.find disagrees with '
                                   'filter_applies on the same documents', per_doc=per,
                                   found=c['found']))
        elif not any(r.startswith('!') for r in per):
            ctx.violation(dict(render(c), kind='Collection.find raised but the matcher raises '
                               'on no document', per_doc=per, found=c['found']))
        for i in range(a, b):
            impl, spec, reasons, deep = parse_out(out[i])
            judge.pair(c, i - a, per[i - a], impl, spec, reasons, deep)
        evals.append(per)
    return evals


def corpus_cases():
    import glob
    import os
    out = []
    for p in sorted(glob.glob(os.path.join(common.VERIF, 'corpus', 'C01', '*.json'))):
        e = json.load(open(p))
        oids = wire.Oids()
        out.append({'filter': wire.dec(e['wire_filter'], oids),
                    'docs': [wire.dec(w, oids) for w in e['wire_docs']], 'oids': oids,
                    'ops': {}})
    return out


def fixed_cases():
    """the witnesses of the repaired findings (known_findings.json, status "fixed"): they are
    judged like every generated case, their class being excused no more"""
    out = []
    for e in common.load_known('C01'):
        if e.get('status') == 'fixed' and 'witness' in e:
            oids = wire.Oids()
            out.append({'filter': wire.dec(e['witness']['wire_filter'], oids),
                        'docs': [wire.dec(e['witness']['wire_doc'], oids)], 'oids': oids,
                        'ops': {}, 'finding': e['id']})
    return out


def run(ctx, proof, driver_ok):
    if not driver_ok:
        return {'explanation': 'model driver unavailable; no correspondence run'}
    n = ctx.n(30000, 400000)
    rng = random.Random(ctx.seed * 1000003 + 101)
    judge = Judge(ctx)
    corpus = corpus_cases() + fixed_cases()
    run_cases(ctx, corpus, judge)
    ops = collections.Counter()
    nontrivial = set()
    samples = []
    evaluations = 0
    depth = collections.Counter()
    batch = 2000
    done = 0
    while done < n and not ctx.too_many():
        cases = []
        for _ in range(min(batch, n - done)):
            try:
                c = gen_case(rng)
                wire.encs(c['filter'], c['oids'])
                cases.append(c)
            except wire.Unencodable:
                pass
        done += batch
        for c, per in zip(cases, run_cases(ctx, cases, judge)):
            evaluations += len(per)
            for k, v in c['ops'].items():
                ops[k] += v
            depth[_depth(c['filter'])] += 1
            if 'T' in per and 'F' in per and not any(r.startswith('!') for r in per):
                h = common.case_hash(render(c))
                if h not in nontrivial:
                    nontrivial.add(h)
                    if len(samples) < 4:
                        samples.append(dict(render(c), results=per))
    if judge.internal:
        raise RuntimeError('model and oracle differ inside D (contradicts the theorem): %r'
                           % judge.internal[:2])
    return {
        'evaluations': evaluations,
        'distinct_nontrivial': len(nontrivial),
        'rule': RULE,
        'samples': samples,
        'cases': done,
        'corpus_cases': len(corpus),
        'zones': dict(judge.zone),
        'exclusion_reasons_hit': dict(judge.reasons),
        'deviations_by_reason': dict(judge.findings),
        'python_outcomes': dict(judge.outcomes),
        'python_error_kinds': dict(judge.errors),
        'operator_histogram': dict(ops),
        'filter_depth_histogram': {str(k): v for k, v in sorted(depth.items())},
    }


def _depth(v):
    if isinstance(v, dict):
        return 1 + max([_depth(x) for x in v.values()] + [0])
    if isinstance(v, list):
        return max([_depth(x) for x in v] + [0])
    return 0


def replay(ctx, path):
    e = json.load(open(path))
    oids = wire.Oids()
    case = {'filter': wire.dec(e['wire_filter'], oids),
            'docs': [wire.dec(w, oids) for w in e['wire_docs']], 'oids': oids, 'ops': {}}
    judge = Judge(ctx)
    run_cases(ctx, [case], judge)
    print(json.dumps({'per_doc': case['per'], 'found': case['found'],
                      'violations': len(ctx.violations)}, default=repr))
    return common.finish(ctx)


def replay_finding(ctx, e):
    """does the listed witness still deviate from the rules on the real code?"""
    oids = wire.Oids()
    f = wire.dec(e['witness']['wire_filter'], oids)
    d = wire.dec(e['witness']['wire_doc'], oids)
    try:
        py = 'T' if filter_applies(f, d) else 'F'
    except Exception:  # pylint: disable=broad-except
        py = 'E'
    return py != e['witness']['spec']
