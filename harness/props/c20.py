"""C20 — unsupported MongoDB features fail loudly instead of being silently ignored.

Translated model: on every run `regenerate` probes the CURRENT /repo
(harness/extract_vocab.py: the code's own dispatch tables + the observed disposition of every
name of the MongoDB 5.0 vocabulary, near-miss and seeded random `$names`, at every syntactic
position; harness/extract_sites.py: the parts of the stage specifications that reach one of the
shared dispatch helpers of the pipeline language - derived from the syntax tree of
mongomock/aggregate.py and a traced run of every stage - and the disposition of the names there;
harness/extract_options.py: every public method x option x ignore_feature setting) and
rewrites lean/Generated/{Tables,Vocab,Sites,Options}.lean.  The proof step then re-checks the theorems
of lean/Props/C20.lean against the regenerated tables.  `run` states the property directly on
the probe results: an entry that is `ignored` / an option that is dropped silently and is not a
listed known finding is a VIOLATION whose replay is the probing call; an opt-out that does not
work is a VIOLATION always.  The witnesses of the repaired findings (status "fixed": the silent
options and ineffective opt-outs repaired by d0b630a, 08d4d98, b1f1430, a8af69f, 1dab744, 51ec724,
4a36577, 612f87a, top-level `$not` by b0b21d1, the three positions that validated nothing by
6c55e75 / 1244abc / 6c1d985, two lazy expression contexts by fce7e55, the accumulator names of
`$group` / `$bucket` on an empty collection by 6f29a71) are probed again on every run
(`judge_fixed`).  Empty input: every name a consumer site refuses on the populated collection is
tried again on an empty one (`judge_empty`): a refusal that is not repeated there is a VIOLATION
unless the site is a listed `lazy-empty:<site>` finding (the expression parts of the stages).
Whatever the data: every filter that `find` refuses at a query position on the populated
collection is given again to the other methods that take a filter, on collections in every state
(populated, never used, emptied, dropped and reused, TTL documents alive / partly expired / all
expired and not swept yet / swept; harness/c20_states.py, `judge_states`): a call that returns is
a VIOLATION unless the (position, empty state) class is a listed `empty-unvalidated:<position>`
finding.
"""
import collections
import json
import os
import random

import c20_states
import common
import extract_options
import extract_sites
import extract_vocab
import gen_c20_lean
import wire

EXTRA_TARGETS = ('Generated.Tables', 'Generated.Vocab', 'Generated.Sites', 'Generated.Options')

RULE = ('case = one (position, name) pair [every $-name of the MongoDB 5.0 vocabulary, of the '
        'code\'s own tables, near-miss and seeded random names, at each of 16 syntactic positions; '
        'probed with several argument shapes and documents] or one (method, option, opt-out '
        'setting) triple [every public Collection/Database/Cursor/bulk method x each of '
        'session/collation/array_filters/let/hint its signature accepts] or one (method, option '
        'A, option B, A opted out?) tuple [both options present, B never opted out, every '
        'ordered pair of distinct options the method accepts] or one (query position, name, state '
        'of the collection, method) tuple [the filter find() refuses on the populated collection, '
        'given to each of 13 methods that take a filter on collections in 8 states: populated, '
        'never used, all deleted, dropped and reused, TTL alive / partly expired / all expired '
        'unswept / all expired swept; quick tier: all pairs for the names the code lists as not '
        'implemented, a round-robin share of the pairs for the others]; non-trivial = the '
        'probing calls reached the dispatching function of the position (counted by wrapping '
        '_Filterer.apply, _Parser.parse, process_pipeline, _accumulate_group and its pre-check '
        '_validate_accumulators, '
        'Collection._apply_update), resp. the method runs without the option so that the '
        'outcome with the option is due to the option, resp. the method returns on that state '
        'for a filter without the operator')

ASSUMPTIONS = [
    'the vocabulary is the data file harness/data/mongodb50_vocab.json (MongoDB 5.0 manual); '
    'names that are not in it are covered by the unbounded theorem unknown_raises on the model '
    'and, on the code, by near-miss names, seeded random names and (thorough tier) a larger '
    'random sample compared with the model through the driver',
    'a name of the code\'s own tables counts as ignored only if every returning probe gives '
    'exactly what one way of removing the name gives; the probes use several argument shapes '
    'chosen so that an implementation has to change the result',
    'expression operators are probed on a non-empty collection (on an empty one no expression is '
    'ever parsed: stages validate lazily); the same holds for the consumer sites of the pipeline '
    'language, which are probed on the populated collection; the names a site refuses there are '
    'tried again, with the same calls, on the empty collection (what is NOT refused on the '
    'populated collection is not looked at on the empty one); projection operators of find() are '
    'not probed',
    'consumer sites: the parts of a stage specification that reach a dispatcher are found by '
    'running every stage that has a handler on ONE fully-optioned specification '
    '(extract_sites.STAGE_FIXTURES, else the argument shapes of the vocabulary file); a call of '
    'a dispatch helper in the source that no such run reaches is reported, not skipped; the '
    'operand positions INSIDE an expression operator (the recursion of _Parser) are covered by '
    'the lazy-context probes only; consumers of filter_applies outside aggregate.py ($pull '
    'conditions, positional operators, partial indexes) are not derived',
    'at a consumer site a name of the code\'s own tables counts as implemented when the call '
    'returns and the site has handed the name to its dispatcher (observed by wrapping the '
    'helper), as ignored when the call returns without the dispatcher ever seeing the name: '
    'what the dispatcher then does with the name is judged at the base position',
    'pymongo/bson are not installed: Decimal128 branches ($toInt/$toLong/$toDecimal) are observed '
    'in their "no bson" form, and the deprecated pymongo<4 methods do not exist',
    'a method whose plain call (without the option) raises is listed as unprobed',
    'states of the collection (c20_states.py): the filters are those find() refuses on the '
    'populated collection, one per (position, name); the TTL states use a single-field TTL index '
    'and set the clock mongomock.utcnow; upserts, aggregate() and the cursor modifiers are not '
    'among the methods; the states are not part of the Lean model (python-only oracle)',
]

GEN = os.path.join(common.LEAN, 'Generated')


def known_site_pairs():
    """[(site id, name)] listed as known findings (position `site:<id>`)"""
    out = []
    for e in common.load_known('C20'):
        w = e.get('witness') or {}
        if e.get('status') == 'known' and w.get('kind') == 'vocab' and \
                str(w.get('position', '')).startswith('site:'):
            out.append((w['position'][5:], w['name']))
    return sorted(out)


def known_lazy_empty():
    """[site id] listed as known findings `lazy-empty:<site>`: a name refused on a populated
    collection is let through there when the collection is empty"""
    return sorted(e['witness']['site'] for e in common.load_known('C20')
                  if e.get('status') == 'known' and
                  (e.get('witness') or {}).get('kind') == 'lazyempty')


def known_lists():
    """(position, name) pairs and options listed as KNOWN findings.  An opt-out that does not
    work, and a position at which every unknown name is accepted (`ignored:<position>:*`), have no
    list any more: every such finding is repaired in the library, Props.C20.opt_out_is_honoured
    and unknown_raises have no exception, and either is a VIOLATION wherever it shows."""
    pairs, silent = [], []
    for e in common.load_known('C20'):
        if e.get('status') != 'known':
            continue
        w = e['witness']
        if w['kind'] in ('lazyctx', 'lazyempty', 'state'):
            continue
        if w['kind'] == 'vocab' and str(w['position']).startswith('site:'):
            continue
        if w['kind'] == 'vocab':
            if w['name'] != '*':      # an `ignored:<position>:*` entry excuses nothing
                pairs.append((w['position'], w['name']))
        elif w['opted_out']:
            continue      # an `optout-ineffective:*` entry excuses nothing
        else:
            silent.append((w['cls'], w['method'], w['option']))
    pairs.sort(key=lambda p: (extract_vocab.POSITIONS.index(p[0]), p[1]))
    return pairs, sorted(silent)


def known_state_positions():
    """[position] listed as known findings `empty-unvalidated:<position>`: a name refused there
    on a populated collection is let through when the call has no document to look at"""
    return sorted(e['witness']['position'] for e in common.load_known('C20')
                  if e.get('status') == 'known' and
                  (e.get('witness') or {}).get('kind') == 'state')


def regenerate(ctx):
    """probe the current code, rewrite lean/Generated/*; keep the results for run()"""
    T, entries, meta = extract_vocab.probe_vocab(ctx.seed)
    opts = extract_options.probe_options()
    pairs = extract_options.probe_pairs(opts)
    kpairs, ksilent = known_lists()
    derived = extract_sites.derive_sites(T)
    site_entries = extract_sites.probe_sites(
        extract_vocab.Prober(T, extract_vocab.load_vocab()), meta['kinds'], derived,
        everything=not ctx.quick())
    changed = []
    for fname, text in (
            ('Tables.lean', gen_c20_lean.emit_tables(T)),
            ('Vocab.lean', gen_c20_lean.emit_vocab(T, entries, kpairs)),
            ('Sites.lean', gen_c20_lean.emit_sites(T, derived, site_entries,
                                                   known_site_pairs(), known_lazy_empty())),
            ('Options.lean', gen_c20_lean.emit_options(opts, ksilent, pairs))):
        if gen_c20_lean.write_if_changed(os.path.join(GEN, fname), text):
            changed.append(fname)
    ctx.c20 = {'T': T, 'entries': entries, 'meta': meta, 'opts': opts, 'pairs': pairs,
               'derived': derived, 'site_entries': site_entries, 'changed': changed}
    return ctx.c20


# ---------------------------------------------------------------------------------------------

def vocab_replay(e, kind):
    out = _vocab_replay(e, kind)
    if 'base' in e:      # a consumer site of a shared dispatcher (extract_sites.py)
        out['dispatcher_position'] = e['base']
        out['calls_that_handed_the_name_to_the_dispatcher'] = e.get('handed_to_dispatcher')
        out.update(e.get('site_info') or {})
    return out


def _vocab_replay(e, kind):
    return {'kind': kind, 'what': 'vocab', 'position': e['pos'], 'name': e['name'],
            'observed': e['disp'], 'in_code_table': e['in_table'],
            'python': 'import datetime, mongomock; db = mongomock.MongoClient().db  # documents: '
                      'harness/extract_vocab.make_docs()\n' + (e['probe'] or ''),
            'probe': e['probe'], 'same_result_as': e['baseline'], 'errors': e['errors']}


def option_replay(e, kind):
    return {'kind': kind, 'what': 'option', 'cls': e['cls'], 'method': e['method'],
            'option': e['option'], 'opted_out': e['optedOut'], 'observed': e['disp'],
            'python': 'import mongomock; db = mongomock.MongoClient().db  # fixture: '
                      'harness/extract_options.fixture()\n' + e['call'],
            'call': e['call']}


def _name_rank(ctx, name):
    """real vocabulary names first, then near-miss / table-only names, then random ones"""
    kinds = ctx.c20['meta']['kinds'].get(name)
    if not kinds:
        return 2000
    if 'random' in kinds:
        return 1500
    if set(kinds) <= {'nearmiss', 'code-table'} or len(name) < 3:
        return 1000
    return 0


def judge_vocab(ctx, entries, kpairs, ksites=()):
    """the property, stated directly on the probe results"""
    bad = []
    for e in entries:
        if e['disp'] != 'ignored':
            continue
        if (e['pos'], e['name']) in kpairs or \
                (e['pos'].startswith('site:') and (e['pos'][5:], e['name']) in ksites):
            fid = 'ignored:%s:%s' % (e['pos'], e['name'])
        else:
            fid = None
        if fid:
            ctx.known_seen[fid] = ctx.known_seen.get(fid, 0) + 1
        else:
            bad.append(e)
            if ctx.too_many():
                continue
            if 'base' in e and e['in_table']:
                kind = ('the stage accepts the operator and never hands it to the dispatcher of '
                        'its family: the call returns as if the operator were not there')
            elif 'base' in e:
                kind = ('a name that nothing implements is accepted silently at this part of the '
                        'stage instead of raising as it does where the dispatcher is called '
                        'directly')
            elif e['in_table']:
                kind = ('the operator is accepted and ignored: the call returns what it returns '
                        'without the operator')
            else:
                kind = 'a name that nothing implements is accepted silently instead of raising'
            ctx.violation(vocab_replay(e, kind),
                          rank=_name_rank(ctx, e['name']) + len(e['probe'] or ''))
    return bad


def empty_replay(e, kind):
    out = vocab_replay(e, kind)
    out.update(what='site-empty', probe=e['empty_probe'], on_empty=e['on_empty'],
               raises_on_a_populated_collection=e['probe'],
               python='import mongomock; db = mongomock.MongoClient().db  # collection c EMPTY, '
                      'the others as in harness/extract_vocab.fresh_db()\n' +
                      (e['empty_probe'] or ''))
    return out


def judge_empty(ctx, site_entries, klazy):
    """a name that a site refuses on a populated collection must be refused on an empty one"""
    bad = []
    for e in site_entries:
        if e.get('on_empty') != 'silent':
            continue
        sid = e['pos'][5:]
        if sid in klazy:
            fid = 'lazy-empty:' + sid
            ctx.known_seen[fid] = ctx.known_seen.get(fid, 0) + 1
            continue
        bad.append(e)
        if ctx.too_many():
            continue
        ctx.violation(empty_replay(
            e, 'the stage refuses the name only while it reads documents: on an empty collection '
               'the same call returns as if the name were supported'),
            rank=_name_rank(ctx, e['name']) + len(e['empty_probe'] or ''))
    return bad


def site_info(derived):
    """site index -> what the replay says about the site"""
    return {s['index']: {'site': {'stage': s['stage'], 'key_path': s['path'],
                                  'family': s['family'], 'reaches': s['helper'],
                                  'called_from': '%s (mongomock/aggregate.py:%d)'
                                                 % (s['function'], s['line']),
                                  'collection': s['context']}}
            for s in derived['sites']}


def judge_site_list(ctx, derived):
    """the list of sites must be complete for the source: every call of a dispatch helper is
    reached by a probed site, every dispatcher of the source has a family, every stage that has
    a handler has a specification to run"""
    problems = []
    for s in derived['uncovered']:
        problems.append('the call of %s in %s (mongomock/aggregate.py:%d) is reached by no probed '
                        'stage specification: the names it dispatches are not probed'
                        % (s['helper'], s['function'], s['line']))
    for d in derived['unknown_dispatchers']:
        problems.append('%s (mongomock/aggregate.py:%d) dispatches on $-names (%s) of no known '
                        'family' % (d['function'], d['line'], d['why']))
    for st in derived['stages_without_fixture']:
        problems.append('stage %s has a handler and no specification to probe it with '
                        '(extract_sites.STAGE_FIXTURES / args.stage of the vocabulary file)' % st)
    for a in derived['unattributed_calls']:
        problems.append('a call of %s from mongomock/aggregate.py:%s matches no call in the syntax '
                        'tree' % tuple(a))
    for msg in problems:
        ctx.violation({'kind': 'the list of dispatch sites derived from the source is incomplete',
                       'what': msg, 'what_no_longer_checks': 'theorem every_call_site_probed'},
                      no_input=True)
    return problems


def compare_sites_with_model(entries):
    """a site follows its dispatcher or raises (the statement of sites_follow_dispatch, evaluated
    by the compiled model) -> entries that do neither"""
    out = wire.run_driver(model_lines([(e['base'], e['name']) for e in entries]))
    bad = []
    for e, m in zip(entries, out):
        if m.strip() != e['disp'] and e['disp'] not in ('raisesNotImplemented', 'raisesOther'):
            bad.append((e, m.strip()))
    return bad


def judge_options(ctx, opts, ksilent):
    bad = []
    for e in opts:
        if e['disp'] == 'unprobed':
            continue
        key = (e['cls'], e['method'], e['option'])
        relevant = e['option'] != 'hint' or e['write']
        if not e['optedOut'] and relevant and e['disp'] == 'accepted':
            if key in ksilent:
                fid = 'silent-option:%s.%s:%s' % key
                ctx.known_seen[fid] = ctx.known_seen.get(fid, 0) + 1
            else:
                bad.append(e)
                ctx.violation(option_replay(
                    e, 'the option is dropped silently: the call succeeds although the feature '
                       'is not implemented and the caller has not opted out'),
                    rank=len(e['call']))
        if e['optedOut'] and e['option'] in extract_options.IGNORABLE and \
                e['disp'] == 'raisesNotImplemented':
            bad.append(e)
            ctx.violation(option_replay(
                e, 'the option still raises NotImplementedError although the caller has '
                   'opted out with ignore_feature'), rank=1000 + len(e['call']))
    return bad


def pair_replay(e, kind):
    return {'kind': kind, 'what': 'option-pair', 'cls': e['cls'], 'method': e['method'],
            'a': e['a'], 'b': e['b'], 'a_opted_out': e['aOptedOut'], 'observed': e['disp'],
            'python': 'import mongomock; db = mongomock.MongoClient().db  # fixture: '
                      'harness/extract_options.fixture()\n' + e['call'],
            'call': e['call']}


def judge_pairs(ctx, pairs, ksilent):
    """a relevant, not-opted-out option B is rejected whatever option A accompanies it"""
    bad = []
    for e in pairs:
        if e['disp'] != 'accepted' or not (e['b'] != 'hint' or e['write']):
            continue
        key = (e['cls'], e['method'], e['b'])
        if key in ksilent:
            fid = 'silent-option:%s.%s:%s' % key
            ctx.known_seen[fid] = ctx.known_seen.get(fid, 0) + 1
            continue
        bad.append(e)
        if ctx.too_many():
            continue
        ctx.violation(pair_replay(
            e, 'option %s is dropped silently when it comes together with option %s%s: the call '
               'succeeds although %s is not implemented and the caller has not opted out of it'
               % (e['b'], e['a'], ' (opted out)' if e['aOptedOut'] else '', e['b'])),
            rank=len(e['call']) + (0 if e['cls'] == 'Collection' else 200))
    return bad


def model_lines(pairs):
    return ['c20 %s %d' % (pos, gen_c20_lean.code_of(name)) for pos, name in pairs]


def ensure_driver(proof):
    """the model driver with the CURRENT Generated.Tables linked in (rebuilt on its own when the
    proof step broke on something else)"""
    if proof.get('ok') or proof.get('broken') != 'lake build failed':
        return os.path.exists(wire.DRIVER)
    with common.LakeLock():
        rc, _ = common.sh(['lake', 'build', 'mmdriver'], cwd=common.LEAN, timeout=3000)
    return rc == 0 and os.path.exists(wire.DRIVER)


def compare_with_model(ctx, entries, label):
    """observed disposition vs MongoModel.Vocab.dispatch over Generated.tables (the statement
    of the theorem dispatch_agrees, evaluated by the compiled model) -> mismatching entries"""
    out = wire.run_driver(model_lines([(e['pos'], e['name']) for e in entries]))
    bad = []
    for e, m in zip(entries, out):
        if m.strip() != e['disp']:
            bad.append((e, m.strip()))
    return bad


def random_name_sample(ctx, T, V, n):
    """more unknown names than the generated table carries: random strings, and edits of real
    names (case, truncation, extension, doubled `$`), none of them in any table"""
    rng = random.Random(ctx.seed * 104729 + 77)
    kinds = extract_vocab.vocab_names(V)
    real = sorted(kinds)
    taken = set(real)
    for key in ('operatorMap', 'logicalOps', 'topLevelNI', 'fieldNI', 'updaters', 'updateInline',
                'updateChecked',
                'pushModifiers', 'stagesImpl', 'stagesNone', 'exprNI', 'groupingMap',
                'groupInline', 'groupOperators', 'groupChecked'):
        taken.update(T[key])
    for h in T['exprChain']:
        taken.update(h['names'])
    out = []
    alphabet = 'abcdefghijklmnopqrstuvwxyzABCDEFGHIJKLMNOPQRSTUVWXYZ_0123456789'
    while len(out) < n:
        x = rng.random()
        base = rng.choice(real)
        if x < 0.4:
            s = '$' + ''.join(rng.choice(alphabet) for _ in range(rng.randint(1, 12)))
        elif x < 0.55:
            s = base[:rng.randint(1, max(1, len(base) - 1))]
        elif x < 0.7:
            s = base + rng.choice(alphabet)
        elif x < 0.8:
            s = base[0] + base[1:].swapcase()
        elif x < 0.9:
            s = '$' + base
        else:
            i = rng.randint(1, len(base) - 1) if len(base) > 1 else 0
            s = base[:i] + rng.choice(alphabet) + base[i + 1:]
        if s.startswith('$') and s not in taken and s not in out:
            out.append(s)
    return out


def judge_lazy(ctx):
    """unsupported expression operators inside sub-expressions the evaluation may not reach"""
    import c20_lazyctx
    known = {e['witness']['context'] for e in common.load_known('C20')
             if e.get('status') == 'known' and e['witness'].get('kind') == 'lazyctx'}
    res = c20_lazyctx.probe()
    bad = 0
    for r in res:
        if not r['silent']:
            continue
        fid = 'lazy-expr:' + r['context']
        if r['context'] in known:
            ctx.known_seen[fid] = ctx.known_seen.get(fid, 0) + 1
            continue
        bad += 1
        ctx.violation({'kind': 'property fails on the real code: an unsupported expression '
                               'operator is skipped silently', 'what': 'lazyctx',
                       'context': r['context'], 'host': r['host'], 'operator': r['which'],
                       'python': r['python']}, rank=1)
    return {'probes': len(res), 'contexts': len(c20_lazyctx.CONTEXTS),
            'silent_known': sorted({r['context'] for r in res if r['silent'] and
                                    r['context'] in known}),
            'silent_new': bad}


def state_replay(r, kind):
    return {'kind': kind, 'what': 'state', 'position': r['pos'], 'name': r['name'],
            'state': r['state'], 'method': r['method'], 'filter': r['filter'],
            'observed': 'the call returns %r' % (r['returned'],),
            'raises_on_a_populated_collection': 'db.c.find(%r)' % (r['filter'],),
            'python': r['python']}


def judge_state_results(ctx, results, kstate):
    bad = []
    for r in results:
        if not r['silent']:
            continue
        if r['effectively_empty'] and r['pos'] in kstate:
            fid = 'empty-unvalidated:' + r['pos']
            ctx.known_seen[fid] = ctx.known_seen.get(fid, 0) + 1
            continue
        bad.append(r)
        if ctx.too_many():
            continue
        ctx.violation(state_replay(
            r, 'the operator is refused only while the call has the right documents to look at: '
               'the filter that find() refuses on the populated collection goes through %s on a '
               'collection in state %s as if the operator were supported'
               % (r['method'], r['state'])),
            rank=_name_rank(ctx, r['name']) + len(r['python']) +
            (0 if 'query' in (ctx.c20['meta']['kinds'].get(r['name']) or ()) else 300))
    return bad


def judge_states(ctx, runner, entries, per_entry, full):
    """whatever the data: a filter refused at a query position on the populated collection is
    refused by every method on a collection in every state.  `full(e)`: every (state, method)
    pair for this entry; the others get `per_entry` pairs each, round-robin, so that every
    (position, state, method) triple is met by many names"""
    kstate = known_state_positions()
    results = []
    index = collections.Counter()
    for e in entries:
        if e['pos'] not in c20_states.QUERY_POSITIONS or e.get('filter') is None or \
                e['disp'] not in ('raisesNotImplemented', 'raisesOther'):
            continue
        i = index[e['pos']]
        index[e['pos']] += 1
        for state, method in c20_states.select(0, i, full(e), per_entry, ctx.seed * 29):
            if (state, method) in runner.unprobed:
                continue
            results.append(c20_states.probe_one(runner, e['pos'], e['name'], e['filter'],
                                                state, method))
    return results, judge_state_results(ctx, results, kstate)


def judge_fixed(ctx):
    """the witnesses of the REPAIRED findings (known_findings.json, status "fixed") are probed
    again on every run, whatever the regenerated tables contain (a method may have left the
    option matrix, a name the vocabulary): the repaired behaviour coming back is a VIOLATION whose
    replay is the witness call.  A fixed entry excuses nothing - it is in no `known` list."""
    import c20_lazyctx
    probed, back, gone = [], [], []
    lazy_silent = None
    for e in common.load_known('C20'):
        w = e.get('witness')
        if e.get('status') != 'fixed' or not w:
            continue
        probed.append(e['id'])
        rep = None
        if w['kind'] == 'option':
            now = extract_options.probe_one(w['cls'], w['method'], w['option'], w['opted_out'])
            if now is None:
                gone.append('%s: the method no longer takes the option' % e['id'])
            elif now['disp'] == 'unprobed':
                gone.append('%s: %s' % (e['id'], now.get('why')))
            elif now['disp'] == w['observed']:
                rep = option_replay(
                    now, 'a repaired finding is back: the option is dropped silently (the call '
                         'succeeds although the feature is not implemented and the caller has '
                         'not opted out)' if not w['opted_out'] else
                    'a repaired finding is back: the option still raises NotImplementedError '
                    'although the caller has opted out with ignore_feature')
        elif w['kind'] == 'lazyempty':
            now = extract_sites.probe_one(w['site'], w['dispatcher_position'], w['name'])
            if now is None and '~' in w['site']:
                # the part of the stage has one consumer only (again): the id has no `~helper`
                now = extract_sites.probe_one(w['site'].split('~')[0], w['dispatcher_position'],
                                              w['name'])
            if now is None:
                gone.append('%s: the source no longer has this site' % e['id'])
            elif now['on_empty'] == 'silent':
                rep = empty_replay(now, 'a repaired finding is back: the stage refuses the name '
                                        'only while it reads documents')
        elif w['kind'] == 'state':
            now = c20_states.probe_one(c20_states.Runner(), w['position'], w['name'],
                                       w['filter'], w['state'], w['method'])
            if now['silent']:
                rep = state_replay(now, 'a repaired finding is back: the operator is refused '
                                        'only while the call has documents to look at')
        elif w['kind'] == 'lazyctx':
            if lazy_silent is None:
                lazy_silent = c20_lazyctx.silent_contexts()
            if w['context'] in lazy_silent:
                rep = {'kind': 'a repaired finding is back: an unsupported expression operator '
                               'is skipped silently', 'what': 'lazyctx', 'context': w['context'],
                       'python': w.get('python')}
        elif str(w['position']).startswith('site:'):
            now = extract_sites.probe_one(w['position'][5:], w['dispatcher_position'], w['name'])
            if now is None:
                gone.append('%s: the source no longer has this site' % e['id'])
            elif now['disp'] == 'ignored':
                rep = vocab_replay(now, 'a repaired finding is back: the name is accepted '
                                        'silently at this part of the stage')
        else:
            name = w['representative'] if w['name'] == '*' else w['name']
            now = extract_vocab.probe_one(w['position'], name)
            if now['disp'] == 'ignored':
                rep = vocab_replay(now, 'a repaired finding is back: the name is accepted and '
                                        'takes no part in the result')
        if rep is None:
            continue
        back.append(e['id'])
        rep['repaired_finding'] = e['id']
        rep['repaired_by'] = e.get('commit')
        # the same call may already be reported from the regenerated table: say it once
        same = [v for v in ctx.violations
                if (rep.get('call') and v[2].get('call') == rep['call']) or
                (rep.get('probe') and v[2].get('probe') == rep['probe'] and
                 v[2].get('position') == rep.get('position'))]
        if same:
            same[0][2].update(repaired_finding=e['id'], repaired_by=e.get('commit'))
        else:
            ctx.violation(rep, rank=0)
    return {'witnesses_probed': len(probed), 'back': back, 'no_longer_probable': gone}


def run(ctx, proof, driver_ok):
    st = getattr(ctx, 'c20', None) or regenerate(ctx)
    T, entries, meta, opts = st['T'], st['entries'], st['meta'], st['opts']
    V = extract_vocab.load_vocab()
    kpairs, ksilent = known_lists()
    ksites = known_site_pairs()
    derived, site_entries = st['derived'], st['site_entries']
    info = site_info(derived)
    for e in site_entries:
        e['site_info'] = info[e['site']]
    bad_vocab = judge_vocab(ctx, entries, kpairs)
    bad_sites = judge_vocab(ctx, site_entries, kpairs, ksites)
    klazy = known_lazy_empty()
    bad_empty = judge_empty(ctx, site_entries, klazy)
    site_list_problems = judge_site_list(ctx, derived)
    bad_opts = judge_options(ctx, opts, ksilent)
    pairs = st.get('pairs') or []
    bad_pairs = judge_pairs(ctx, pairs, ksilent)
    lazy = judge_lazy(ctx)
    runner = c20_states.Runner()
    runner.unprobed = {(st_, m) for st_, m, _ in runner.plain_calls()}
    for st_, m in sorted(runner.unprobed):
        ctx.notes.append('states: %s does not return on state %s for a filter without operator: '
                         'not probed' % (m, st_))
    state_results, bad_states = judge_states(
        ctx, runner, entries, ctx.n(3, len(c20_states.COMBOS)),
        lambda e: e['disp'] == 'raisesNotImplemented' and e['pos'] != 'typeAlias')
    fixed = judge_fixed(ctx)
    switch_failures, switch_checks = extract_options.check_feature_switches()
    for msg in switch_failures:
        ctx.violation({'kind': 'not_implemented.py: the opt-out switch does not do what it says',
                       'what': msg}, rank=5)

    # correspondence of the dispatch model with the code, through the compiled model
    model = {'available': False}
    extra_entries = []
    extra_site_entries = []
    have_driver = ensure_driver(proof)
    if have_driver:
        try:
            mism = compare_with_model(ctx, entries, 'table')
            n_extra = ctx.n(150, 5000)
            names = random_name_sample(ctx, T, V, n_extra)
            prober = extract_vocab.Prober(T, V)
            with extract_vocab.reach_counters() as counters:
                for nm in names:
                    for pos in extract_vocab.POSITIONS:
                        extra_entries.append(extract_vocab.probe_entry(prober, counters, pos, nm))
                # ... and a part of them at every consumer site
                site_prober = extract_vocab.Prober(T, V)
                for nm in names[:ctx.n(20, 400)]:
                    for site in derived['sites']:
                        for base in extract_sites.FAMILY_POSITIONS[site['family']]:
                            e = extract_sites.probe_site_entry(site_prober, counters, site, base,
                                                               nm, derived)
                            e['site_info'] = info[e['site']]
                            extra_site_entries.append(e)
            mism_extra = compare_with_model(ctx, extra_entries, 'random')
            more, bad_more = judge_states(ctx, runner, extra_entries, ctx.n(1, 3),
                                          lambda e: False)
            state_results += more
            bad_states += bad_more
            judge_vocab(ctx, extra_entries, kpairs)
            judge_vocab(ctx, extra_site_entries, kpairs, ksites)
            bad_empty += judge_empty(ctx, extra_site_entries, klazy)
            mism_sites = compare_sites_with_model(site_entries + extra_site_entries)
            model = {'available': True, 'table_entries_compared': len(entries),
                     'random_names': len(names), 'random_entries_compared': len(extra_entries),
                     'site_entries_compared': len(site_entries) + len(extra_site_entries),
                     'mismatches': len(mism) + len(mism_extra) + len(mism_sites)}
            for e, m in mism_sites[:20]:
                if e['disp'] == 'ignored':
                    continue       # already reported (or known) as the property failing
                ctx.violation(dict(vocab_replay(
                    e, 'correspondence broken: at this part of the stage the name is %s, the '
                       'dispatcher it is handed to (MongoModel.Vocab.dispatch over the '
                       'regenerated tables, position %s) says %s' % (e['disp'], e['base'], m)),
                    model=m, what_no_longer_checks='theorem sites_follow_dispatch'),
                    no_input=True)
            for e, m in (mism + mism_extra)[:20]:
                if e['disp'] == 'ignored':
                    continue       # already reported (or known) as the property failing
                if m in ('implemented', 'ignored') and e['disp'] in (
                        'raisesNotImplemented', 'raisesOther'):
                    ctx.notes.append('model stale but the code is loud: %s %s observed %s, model %s'
                                     % (e['pos'], e['name'], e['disp'], m))
                    continue
                ctx.violation(dict(vocab_replay(
                    e, 'correspondence broken: the dispatch model (MongoModel.Vocab.dispatch over '
                       'the regenerated tables) says %s, the code does %s' % (m, e['disp'])),
                    model=m, what_no_longer_checks='theorem dispatch_agrees / correspondence '
                    'mongomock dispatch ~ MongoModel.Vocab.dispatch'), no_input=True)
        except RuntimeError as err:
            ctx.notes.append('model driver unusable: %s' % err)
    if not proof.get('ok') and not ctx.violations:
        # the regenerated tables no longer satisfy a theorem, yet no probe fails the property and
        # the model agrees with the code wherever it could be compared: name what broke
        ctx.violation({'kind': 'proof step broken, no failing input found',
                       'what_no_longer_checks': proof.get('broken'),
                       'regenerated_files_changed': st['changed'],
                       'log_tail': proof.get('log', '')[-1500:]}, no_input=True)

    # evidence
    everything = entries + extra_entries
    all_sites = site_entries + extra_site_entries
    hist = collections.Counter(e['disp'] for e in everything)
    per_pos = collections.OrderedDict()
    for p in extract_vocab.POSITIONS:
        per_pos[p] = dict(collections.Counter(e['disp'] for e in everything if e['pos'] == p))
    nontrivial = set()
    for e in everything:
        if e['reached']:
            nontrivial.add(common.case_hash(['v', e['pos'], e['name']]))
    for e in all_sites:
        if e['reached']:
            nontrivial.add(common.case_hash(['s', e['pos'], e['base'], e['name']]))
    for e in opts:
        if e['reached']:
            nontrivial.add(common.case_hash(['o', e['cls'], e['method'], e['option'],
                                             e['optedOut']]))
    for e in pairs:
        nontrivial.add(common.case_hash(['p', e['cls'], e['method'], e['a'], e['b'],
                                         e['aOptedOut']]))
    for r in state_results:
        nontrivial.add(common.case_hash(['q', r['pos'], r['name'], r['state'], r['method']]))
    ohist = collections.Counter(e['disp'] for e in opts)
    bad_state_ids = {id(b) for b in bad_states}
    samples = []
    for pos, name in (('queryTop', '$not'), ('queryField', '$bitsAllSet'), ('stage', '$merge'),
                      ('exprProject', '$dateFromString'), ('updateOp', '$bit')):
        for e in entries:
            if e['pos'] == pos and e['name'] == name:
                samples.append({k: e[k] for k in ('pos', 'name', 'disp', 'in_table', 'calls',
                                                  'returned', 'errors', 'probe')})
    for e in opts:
        if (e['method'], e['option'], e['optedOut']) in (('find', 'session', False),
                                                         ('update_one', 'collation', True)):
            samples.append({k: e[k] for k in ('cls', 'method', 'option', 'optedOut', 'disp',
                                              'call')})
    return {
        'evaluations': meta['calls'] + sum(e['calls'] for e in extra_entries + all_sites) + 2 * len(
            [e for e in opts if e['disp'] != 'unprobed']) + len(pairs) + switch_checks +
        runner.calls,
        'distinct_nontrivial': len(nontrivial),
        'rule': RULE,
        'samples': samples,
        'vocabulary_names': len(meta['kinds']),
        'type_aliases': len(meta['aliases']),
        'seeded_random_names_in_table': meta['random_names'],
        'positions': extract_vocab.POSITIONS,
        'dispatch_helpers': ['%s (%s)' % (attr, fam) for _, attr, fam in derived['helpers']],
        'dispatchers_in_source': derived['dispatchers_in_source'],
        'helper_calls_in_source': len(derived['static']),
        'helper_calls_not_reached': len(derived['uncovered']),
        'sites': [{'id': s['id'], 'called_from': '%s:%d' % (s['function'], s['line']),
                   'reaches': s['helper'],
                   'dispositions': dict(collections.Counter(
                       e['disp'] for e in all_sites if e['site'] == s['index']))}
                  for s in derived['sites']],
        'site_entries': len(all_sites),
        'site_entries_not_reaching_dispatch': len([e for e in all_sites if not e['reached']]),
        'site_list_problems': site_list_problems,
        'unlisted_ignored_site_entries': len(bad_sites),
        'site_refusals_tried_on_empty_collection': dict(collections.Counter(
            e['on_empty'] for e in all_sites if e.get('on_empty', 'notProbed') != 'notProbed')),
        'sites_silent_on_empty_collection': sorted({e['pos'][5:] for e in all_sites
                                                    if e.get('on_empty') == 'silent'}),
        'unlisted_silent_on_empty_entries': len(bad_empty),
        'lazy_expression_contexts': lazy,
        'collection_states': {
            'states': [x[0] for x in c20_states.STATES],
            'methods': [x[0] for x in c20_states.METHODS],
            'calls': len(state_results),
            'collections_built': runner.builds,
            'state_method_pairs_not_probed': sorted(runner.unprobed),
            'calls_by_position': dict(collections.Counter(r['pos'] for r in state_results)),
            'fewest_calls_of_a_position_state_method_triple': min(collections.Counter(
                (r['pos'], r['state'], r['method']) for r in state_results).values() or [0]),
            'triples_met': len({(r['pos'], r['state'], r['method']) for r in state_results}),
            'silent_known': dict(collections.Counter(
                '%s/%s' % (r['pos'], r['state']) for r in state_results
                if r['silent'] and id(r) not in bad_state_ids)),
            'silent_new': len(bad_states)},
        'repaired_findings': fixed,
        'table_entries': len(entries),
        'dispositions': dict(hist),
        'dispositions_by_position': per_pos,
        'entries_not_reaching_dispatch': len([e for e in everything if not e['reached']]),
        'option_entries': len(opts),
        'option_dispositions': dict(ohist),
        'options_unprobed': [[e['cls'], e['method'], e['option'], e.get('why')] for e in opts
                             if e['disp'] == 'unprobed' and not e['optedOut']],
        'feature_switch_checks': switch_checks,
        'model_correspondence': model,
        'unlisted_ignored_entries': len(bad_vocab),
        'unlisted_option_failures': len(bad_opts),
        'option_pair_entries': len(pairs),
        'option_pair_dispositions': dict(collections.Counter(e['disp'] for e in pairs)),
        'unlisted_option_pair_failures': len(bad_pairs),
        'regenerated_files_changed': st['changed'],
        'code_tables': {k: (len(v) if isinstance(v, list) else v) for k, v in T.items()},
    }


# ---------------------------------------------------------------------------------------------

def replay(ctx, path):
    e = json.load(open(path))
    kpairs, ksilent = known_lists()
    if e.get('what') in ('vocab', 'site-empty') and \
            str(e.get('position', '')).startswith('site:'):
        now = extract_sites.probe_one(e['position'][5:], e['dispatcher_position'], e['name'])
        print(json.dumps(now and {k: now[k] for k in ('pos', 'base', 'name', 'disp', 'in_table',
                                                      'errors', 'returned', 'probe', 'on_empty',
                                                      'empty_probe')}))
        ctx.c20 = {'meta': {'kinds': {}}}
        if now is None:
            print(json.dumps({'note': 'the source no longer has this site', 'file': path}))
        else:
            judge_vocab(ctx, [now], kpairs, known_site_pairs())
            judge_empty(ctx, [now], known_lazy_empty())
            if not ctx.violations and e.get('model') is not None and os.path.exists(wire.DRIVER):
                for _, m in compare_sites_with_model([now]):
                    ctx.violation(dict(vocab_replay(now, 'correspondence broken'), model=m),
                                  no_input=True)
    elif e.get('what') == 'vocab':
        now = extract_vocab.probe_one(e['position'], e['name'], ctx.seed)
        print(json.dumps({k: now[k] for k in ('pos', 'name', 'disp', 'in_table', 'errors',
                                              'returned', 'probe')}))
        ctx.c20 = {'meta': {'kinds': {}}}
        judge_vocab(ctx, [now], kpairs)
        if not ctx.violations and e.get('model') is not None and os.path.exists(wire.DRIVER):
            out = wire.run_driver(model_lines([(now['pos'], now['name'])]))[0].strip()
            if out != now['disp']:
                ctx.violation(dict(vocab_replay(now, 'correspondence broken'), model=out),
                              no_input=True)
    elif e.get('what') == 'lazyctx':
        judge_lazy(ctx)
        ctx.violations = [v for v in ctx.violations if v[2].get('context') == e.get('context')]
    elif e.get('what') == 'state':
        now = c20_states.probe_one(c20_states.Runner(), e['position'], e['name'], e['filter'],
                                   e['state'], e['method'])
        print(json.dumps({k: now[k] for k in ('pos', 'name', 'state', 'method', 'filter',
                                              'silent', 'returned', 'error')}, default=repr))
        ctx.c20 = {'meta': {'kinds': {}}}
        judge_state_results(ctx, [now], known_state_positions())
    elif e.get('what') == 'option-pair':
        now = extract_options.probe_one_pair(e['cls'], e['method'], e['a'], e['b'],
                                             e['a_opted_out'])
        print(json.dumps(now, default=repr))
        if now is not None:
            judge_pairs(ctx, [now], ksilent)
    elif e.get('what') == 'option':
        now = extract_options.probe_one(e['cls'], e['method'], e['option'], e['opted_out'])
        print(json.dumps(now, default=repr))
        if now is not None:
            judge_options(ctx, [now], ksilent)
    else:
        print(json.dumps({'note': 'this replay names a theorem, not an input', 'file': path}))
        return 1
    return common.finish(ctx)


def replay_finding(ctx, e):
    """does the listed witness still fail the property on the real code?"""
    w = e['witness']
    if w['kind'] == 'lazyctx':
        import c20_lazyctx
        return w['context'] in c20_lazyctx.silent_contexts()
    if w['kind'] == 'lazyempty':
        now = extract_sites.probe_one(w['site'], w['dispatcher_position'], w['name'])
        return now is not None and now['on_empty'] == 'silent'
    if w['kind'] == 'state':
        runner = c20_states.Runner()
        loud = not runner.run('populated', w['method'], w['filter'])[0]
        return loud and runner.run(w['state'], w['method'], w['filter'])[0]
    if w['kind'] == 'vocab' and str(w['position']).startswith('site:'):
        now = extract_sites.probe_one(w['position'][5:], w['dispatcher_position'], w['name'])
        return now is not None and now['disp'] == 'ignored'
    if w['kind'] == 'vocab':
        name = w['representative'] if w['name'] == '*' else w['name']
        return extract_vocab.probe_one(w['position'], name)['disp'] == 'ignored'
    now = extract_options.probe_one(w['cls'], w['method'], w['option'], w['opted_out'])
    return now is not None and now['disp'] == w['observed']
