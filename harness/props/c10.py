"""C10 — every filter-taking operation uses one match relation; counts equal the change.

States reached by generated histories; at the end of each history one generated filter is sent
through every filter-taking entry point, each on its own twin copy of the state, and the answers
must agree.  Along the history the reported counts are checked against the observable change.
The history itself is run against the Lean model as well (outcomes = counts, and states).
"""
import collections
import copy
import sys

import mongomock

import common
import gen
import hist
import histcheck
import wire
from histcheck import freeze, state_of

ID = 'C10'
SALT = 1010
RULE = ('history = 2-20 generated operations building a state (documents AND indexes: unique, '
        'sparse, partial, compound; _ids: scalars, embedded documents, and datetimes - bare or '
        'inside an embedded-document _id - spelled with microseconds below the millisecond or '
        'with a UTC offset, which storing rewrites), then one generated filter (over dates, '
        'embedded-document _ids, array paths, operators, and plain values for every key of an index the history '
        'created) is evaluated through find, count_documents, update_many/update_one '
        'matched_count, delete_many/delete_one deleted_count, aggregate $match, distinct and '
        'find_one, each on a twin copy of the state that carries the same indexes, and all must '
        'select the same documents; along the history deleted_count = drop in size, inserted_ids '
        '= new _ids, modified_count = number of changed documents, and the matched / deleted count '
        'of every write = what count_documents says the same filter selects on the same '
        'collection right before it; every step is also compared with the Lean model; non-trivial '
        '= the final filter selects a proper non-empty subset; distinct = by hash of (history, '
        'filter)')
ASSUMPTIONS = [
    'twin copies are rebuilt through the public API: the indexes index_information() lists are '
    'created on a fresh collection, then the documents find({}) returns are inserted; when the '
    'state cannot be rebuilt that way, or is not index-stable (re-writing every document '
    'unchanged trips a unique index: states only reachable through the known C06 deviations), '
    'the twins are index-free copies',
    'TTL-free histories',
]

REACH = collections.Counter()     # how often the oracle met the inputs a clause is about
known_labels = {e['id'] for e in common.load_known(ID) if e.get('status') == 'known'}


def length(rng):
    return rng.choice([2, 4, 7, 12, 20])


view = histcheck.full_view


class State(object):
    """what a twin is a copy of: the documents and the indexes of the collection"""

    def __init__(self, docs, indexes=()):
        self.docs = docs
        self.indexes = list(indexes)     # [(name, index_information() entry)]

    def __len__(self):
        return len(self.docs)


INDEX_OPTIONS = ('unique', 'sparse', 'partialFilterExpression', 'expireAfterSeconds')


def state_of_collection(coll, docs):
    """the state with its indexes when a copy with indexes can be built and is index-stable,
    the index-free state otherwise"""
    try:
        info = coll.index_information()
    except Exception:  # pylint: disable=broad-except
        return State(docs)
    indexes = [(name, ix) for name, ix in info.items() if name != '_id_']
    if not indexes:
        return State(docs)
    st = State(docs, indexes)
    try:
        c = twin(st)
        if [d.get('_id') for d in c.find({})] != [d.get('_id') for d in docs]:
            return State(docs)
        # index-stable: the write the probes use passes the unique indexes on every document
        c.update_many({}, {'$set': {'zz': 1}})
    except Exception:  # pylint: disable=broad-except
        return State(docs)
    return st


def twin(state):
    c = mongomock.MongoClient().db.twin
    for name, ix in getattr(state, 'indexes', ()):
        kw = {k: copy.deepcopy(ix[k]) for k in INDEX_OPTIONS if k in ix}
        c.create_index([tuple(x) for x in ix['key']], name=name, **kw)
    for d in (state.docs if isinstance(state, State) else state):
        c.insert_one(copy.deepcopy(d))
    return c


def attempt(f):
    try:
        return ('ok', f())
    except Exception as e:  # pylint: disable=broad-except
        return ('raised', type(e).__name__)


def through_all(docs, F):
    """the filter produced by F() through every filter-taking entry point, each on a twin"""
    res = {}
    res['find'] = attempt(lambda: [d['_id'] for d in twin(docs).find(F())])
    res['count'] = attempt(lambda: twin(docs).count_documents(F()))
    res['update_many'] = attempt(lambda: twin(docs).update_many(F(), {'$set': {'zz': 1}}).matched_count)
    res['update_one'] = attempt(lambda: twin(docs).update_one(F(), {'$set': {'zz': 1}}).matched_count)
    res['delete_many'] = attempt(lambda: twin(docs).delete_many(F()).deleted_count)
    res['delete_one'] = attempt(lambda: twin(docs).delete_one(F()).deleted_count)
    res['match'] = attempt(lambda: [d['_id'] for d in twin(docs).aggregate([{'$match': F()}])])
    res['distinct'] = attempt(lambda: len(twin(docs).distinct('_id', F())))
    res['find_one'] = attempt(lambda: twin(docs).find_one(F()) is not None)
    res['n_docs'] = len(docs)
    return res


def extra_filters(docs, rng_key):
    """python-only filter values the wire format does not carry: compiled patterns as filter
    VALUES (on _id and on ordinary fields), aimed at strings the documents hold"""
    import re
    out = []
    strs = []
    for d in docs:
        for k, v in d.items():
            if isinstance(v, str) and v:
                strs.append((k, v))
    for k, v in strs[:3]:
        out.append(('{%r: re.compile(%r)}' % (k, '^' + re.escape(v[0])),
                    (lambda k=k, v=v: {k: re.compile('^' + re.escape(v[0]))})))
    out.append(("{'_id': re.compile('.')}", lambda: {'_id': re.compile('.')}))
    out.append(("{'_id': {'$in': [re.compile('^a'), 1]}}",
                lambda: {'_id': {'$in': [re.compile('^a'), 1]}}))
    return out


def probe(runner, op):
    """after a `find` step: the same filter through all entry points, each on a twin"""
    if op[0] != 'find':
        return None
    filt = op[1]
    raw = [copy.deepcopy(d) for d in runner.raw_docs()]
    docs = state_of_collection(runner.coll, raw)
    F = lambda: copy.deepcopy(filt)
    res = through_all(docs, F)
    res['indexes'] = [name for name, _ in docs.indexes]
    res['extras'] = [(name, through_all(docs, mk)) for name, mk in extra_filters(raw, 0)]
    # the same through a collection handle carrying its own tz_aware codec options
    from mongomock.codec_options import CodecOptions

    def aware():
        return twin(docs).with_options(codec_options=CodecOptions(tz_aware=True))

    def naive(v):
        # ids read through the aware handle carry tzinfo: compare them as the instants they are
        import datetime as _dt
        if isinstance(v, dict):
            return {k: naive(x) for k, x in v.items()}
        if isinstance(v, list):
            return [naive(x) for x in v]
        if isinstance(v, _dt.datetime) and v.tzinfo is not None:
            return (v - v.utcoffset()).replace(tzinfo=None)
        return v
    res['aware'] = {
        'find': attempt(lambda: [naive(d['_id']) for d in aware().find(F())]),
        'count': attempt(lambda: aware().count_documents(F())),
        'match': attempt(lambda: [naive(d['_id']) for d in aware().aggregate([{'$match': F()}])]),
        'find_one': attempt(lambda: aware().find_one(F()) is not None),
        'delete_many': attempt(lambda: aware().delete_many(F()).deleted_count),
    }
    return res


WRITES = ('update_one', 'update_many', 'replace_one', 'delete_one', 'delete_many')


def pre_probe(runner, op):
    """before a write: how many documents count_documents says its filter selects, on the very
    collection (documents and indexes) the write is about to run on"""
    if op[0] not in WRITES:
        return None
    return attempt(lambda: runner.coll.count_documents(copy.deepcopy(op[1])))


class Gen10(hist.HistGen):
    """every history ends with a `find` whose filter is then sent through all entry points;
    filters are also aimed at the indexes the history has created"""

    def __init__(self, *a, **kw):
        hist.HistGen.__init__(self, *a, **kw)
        self.created = []

    def create_index(self):
        op = hist.HistGen.create_index(self)
        self.created.append(op)
        return op

    def index_filter(self):
        """a value for every key of one of the indexes created so far - the filters for which an
        index says something about how many documents can match: plain values (absent field =
        None, values the documents hold), now and then an operator or an array on one key"""
        keys = [k for k, _ in self.r.choice(self.created)[1]]
        d = self.some_doc() or {}
        f = {}
        for k in keys:
            x = self.r.random()
            if x < 0.35:
                f[k] = None
            elif x < 0.6 and k in d and wire_plain(d[k]):
                f[k] = copy.deepcopy(d[k])
            elif x < 0.9:
                f[k] = self.r.choice([1, 2, 'x'])
            else:
                f[k] = self.r.choice([{'$in': [1, None]}, {'$gte': 1}, {'$exists': False}, [1]])
        if self.r.random() < 0.15:
            f[self.r.choice(['c', 'd'])] = self.r.choice([1, None, {'$exists': True}])
        return f

    def filt(self):
        if self.created and self.r.random() < 0.2:
            return self.index_filter()
        return hist.HistGen.filt(self)

    def history(self, n):
        ops = [self.op() for _ in range(n)]
        f = self.filt()
        if self.created and self.r.random() < 0.3:
            f = self.index_filter()
        elif self.r.random() < 0.3:
            # a filter on a date the documents may hold
            d = self.r.choice(gen.DATES)
            f = {self.r.choice(['a', 'b', 'c', 'd']): self.r.choice(
                [d, {'$gte': d}, {'$in': [d]}, {'$lte': d}])}
        ops.append(['find', f])
        return ops


def wire_plain(v):
    return v is None or isinstance(v, (int, float, str))


def histgen(rng, oids):
    hg = Gen10(rng, oids, weights=dict(
        insert_one=22, insert_many=10, update_one=8, update_many=8, replace_one=4,
        delete_one=5, delete_many=5, find=6, count=8, distinct=3, create_index=5,
        drop_index=0, drop_indexes=0, drop=1), ttl=False, date_ids='wide')
    hg.fg.elem = True
    return hg



def oracle(history, steps):
    fails = []
    prev_docs = []
    for i, st in enumerate(steps):
        docs = st.obs.get('docs') if isinstance(st.obs, dict) else None
        if not isinstance(docs, list):
            break
        k = st.op[0]
        ok = st.out[0] == 'val'
        if k in ('delete_one', 'delete_many') and ok:
            if len(prev_docs) - len(docs) != st.out[1]:
                fails.append((i, 'deleted-count', '%s reported %r but the size went %d -> %d'
                              % (k, st.out[1], len(prev_docs), len(docs))))
        # the _ids the collection holds now and did not hold before the step, AS STORED (a datetime
        # in an _id is stored in UTC at millisecond precision, whatever the caller wrote)
        before = {freeze(d.get('_id')) for d in prev_docs}
        new = [freeze(d.get('_id')) for d in docs if freeze(d.get('_id')) not in before]
        if k in ('insert_one', 'insert_many') and ok:
            given = [d.get('_id') for d in (st.op[1] if k == 'insert_many' else [st.op[1]])
                     if isinstance(d, dict) and '_id' in d]
            stored = {repr(x) for x in new}
            REACH['inserted _ids that storing rewrites'] += sum(
                1 for g in given if repr(freeze(histcheck.canon_value(g, st.oids))) not in stored)
            REACH['inserted _ids given by the caller'] += len(given)
        if k == 'insert_many' and ok:
            if [freeze(x) for x in st.out[1]] != new:
                fails.append((i, 'inserted-ids', 'inserted_ids %r but new _ids %r' % (st.out[1], new)))
        if k == 'insert_one' and ok:
            if [freeze(st.out[1])] != new:
                fails.append((i, 'inserted-ids', 'inserted_id %r but new _ids %r' % (st.out[1], new)))
        if k == 'insert_many' and st.out[0] == 'err' and st.out[1] == 'BulkWriteError' and \
                isinstance(st.out[2], dict) and 'nInserted' in st.out[2]:
            if st.out[2]['nInserted'] != len(docs) - len(prev_docs) or \
                    len(new) != len(docs) - len(prev_docs):
                fails.append((i, 'inserted-count', 'the refused insert_many reported nInserted %r, '
                              'the size went %d -> %d and the new _ids are %r'
                              % (st.out[2]['nInserted'], len(prev_docs), len(docs), new)))
        if k in ('update_one', 'update_many', 'replace_one') and ok and isinstance(st.out[1], dict) \
                and 'upserted' in st.out[1]:
            up = st.out[1]['upserted']
            # upserted_id = the one new _id (None: nothing was inserted, or the new _id is null).
            # New = equal (Python ==, as the store keys its documents) to no _id held before: an
            # update may re-spell the _id of the document it modifies (1 -> 1.0, the keys of an
            # embedded-document _id in another order), which inserts nothing.
            held = [b.get('_id') for b in prev_docs]
            fresh = [freeze(d.get('_id')) for d in docs
                     if not any(h == d.get('_id') for h in held)]
            if fresh != [freeze(up)] and not (up is None and fresh == []):
                fails.append((i, 'upserted-id', '%s reported upserted_id %r but new _ids %r'
                              % (k, up, fresh)))
        if k in ('update_one', 'update_many', 'replace_one') and ok and isinstance(st.out[1], dict):
            changed = 0
            strict = 0
            for d in docs:
                # the document with an equal (Python ==) _id before the step
                bs = [b for b in prev_docs if b.get('_id') == d.get('_id')]
                b = bs[0] if bs else None
                if b is not None and b != d:
                    changed += 1
                if b is not None and freeze(b) != freeze(d):
                    strict += 1
            m = st.out[1].get('modified')
            if m != changed:
                # (before library commit 5452702 an update that only re-ordered the keys of a
                # document built by an upsert - an OrderedDict - was counted: the repaired finding
                # `modified-order-only`; the change test is dict inequality for every document now)
                fails.append((i, 'modified-count', '%s reported modified_count %r but %d documents '
                              'differ (%d counting key order and numeric type)'
                              % (k, m, changed, strict)))
        pre = (st.extra or {}).get('pre')
        if k in WRITES and ok and pre and pre[0] == 'ok':
            # the count a write reports = what the same filter selects on the same collection
            one = k in ('update_one', 'replace_one', 'delete_one')
            exp = min(pre[1], 1) if one else pre[1]
            got = st.out[1].get('matched') if isinstance(st.out[1], dict) else st.out[1]
            if got != exp:
                # (before library commit 1314e5d an upsert that stored _id null reported the insert
                # as a match: the repaired finding `upsert-null-id-matched`)
                lab = 'write-count-vs-count'
                fails.append((i, lab, '%s reported %r matched / deleted '
                              'documents, count_documents with the same filter right before it '
                              'gave %r' % (k, got, pre[1])))
        pr = (st.extra or {}).get('probe')
        if pr:
            fails.extend(check_agree(i, pr))
            for name, ex in pr.get('extras', ()):
                for (j, lab, msg) in check_agree(i, ex):
                    fails.append((j, lab, 'filter %s: %s' % (name, msg)))
        prev_docs = docs
        if any(l not in known_labels for (_, l, _) in fails) or len(fails) > 50:
            break
    return fails


def check_agree(i, pr):
    fails = []
    aw = pr.get('aware')
    if aw and pr['find'][0] == 'ok':
        ids = pr['find'][1]
        exp = {'find': ids, 'count': len(ids), 'match': ids, 'find_one': len(ids) > 0,
               'delete_many': len(ids)}
        for k, v in exp.items():
            if aw[k] != ('ok', v):
                fails.append((i, 'aware-handle-disagree', 'through a tz_aware collection handle '
                              '%s gives %r where the plain find selects %r' % (k, aw[k], ids)))
    kinds = {k: v[0] for k, v in pr.items() if k not in ('n_docs', 'aware', 'extras', 'indexes')}
    if len(set(kinds.values())) > 1:
        others = {v for k, v in kinds.items() if k != 'match'}
        if pr['n_docs'] == 0 and others == {'raised'} and kinds['match'] == 'ok':
            return [(i, 'match-empty-novalidate', 'on an empty collection $match accepts a filter '
                     'every other entry point rejects: %r' % (pr,))]
        oks = {k for k, v in kinds.items() if v == 'ok'}
        if oks == {'update_one'}:
            return [(i, 'lazy-raise', 'update_one stops at its first match and never evaluates the '
                     'filter on the later document every other entry point raises on: %r' % (pr,))]
        return [(i, 'raise-disagree', 'entry points disagree on raising: %r' % (pr,))]
    if pr['find'][0] != 'ok':
        return fails
    ids = pr['find'][1]
    n = len(ids)
    exp = {'count': n, 'update_many': n, 'update_one': min(n, 1), 'delete_many': n,
           'delete_one': min(n, 1), 'match': ids, 'distinct': n, 'find_one': n > 0}
    for k, v in exp.items():
        if pr[k][1] != v:
            fails.append((i, 'select-disagree', '%s gives %r where find selects %r' % (k, pr[k][1], ids)))
    return fails


def nontrivial(history, steps):
    for st in steps:
        pr = (st.extra or {}).get('probe')
        if pr and pr['find'][0] == 'ok' and 0 < len(pr['find'][1]) < pr['n_docs']:
            return True
    return False


_run, replay, replay_finding = histcheck.module_api(sys.modules[__name__], 1200, 30000, fixed=True)


def run(ctx, proof, driver_ok):
    cov = _run(ctx, proof, driver_ok)
    cov['reach'] = dict(REACH)
    return cov
